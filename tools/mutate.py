#!/usr/bin/env python3
"""Development tool (not a registered check): systematic single-point mutants of sismic/, to find out which ones survive the
repository's suite and are reported by no check. Works in scratch worktrees under /tmp/mwt (never in /repo).

usage: tools/mutate.py enumerate                 -> prints the number of mutants per operator
       tools/mutate.py run OUT.jsonl [N]         -> evaluates every (or the first N) mutant(s): suite, then the 20 checks on survivors
       tools/mutate.py show ID                   -> prints the diff of one mutant
"""
import ast, copy, difflib, hashlib, json, os, subprocess, sys, time, xml.etree.ElementTree as ET
from concurrent.futures import ProcessPoolExecutor
HERE = os.path.dirname(os.path.dirname(os.path.abspath(__file__)))
sys.path.insert(0, HERE)
REPO = '/repo'
FILES = ['sismic/interpreter/default.py', 'sismic/interpreter/listener.py', 'sismic/model/statechart.py', 'sismic/model/elements.py', 'sismic/model/events.py',
         'sismic/model/steps.py', 'sismic/code/python.py', 'sismic/code/evaluator.py', 'sismic/clock/clock.py', 'sismic/runner/runner.py',
         'sismic/io/datadict.py', 'sismic/io/yaml.py', 'sismic/utilities.py', 'sismic/testing.py', 'sismic/bdd/steps.py', 'sismic/bdd/environment.py', 'sismic/bdd/wrappers.py']
CMP = {ast.Lt: ast.LtE, ast.LtE: ast.Lt, ast.Gt: ast.GtE, ast.GtE: ast.Gt, ast.Eq: ast.NotEq, ast.NotEq: ast.Eq, ast.In: ast.NotIn, ast.NotIn: ast.In,
       ast.Is: ast.IsNot, ast.IsNot: ast.Is}
ATTR_SWAP = {'source': 'target', 'target': 'source', 'entered_states': 'exited_states', 'exited_states': 'entered_states', 'preconditions': 'postconditions',
             'postconditions': 'invariants', 'invariants': 'preconditions', '_internal_queue': '_external_queue', '_external_queue': '_internal_queue',
             'ancestors_for': 'descendants_for', 'descendants_for': 'ancestors_for', '_entry_time': '_idle_time', '_idle_time': '_entry_time',
             'on_entry': 'on_exit', 'on_exit': 'on_entry', 'initial': 'memory', 'children_for': 'descendants_for', 'parent_for': 'state_for',
             'execute_on_entry': 'execute_on_exit', 'execute_on_exit': 'execute_on_entry', 'append': 'remove', 'add': 'discard', 'time': 'clock.time'}
STR_SWAP = {'before': 'after', 'after': 'always', 'always': 'before', 'states': 'parallel states', 'parallel states': 'states', 'shallow history': 'deep history',
            'deep history': 'shallow history', 'low': 'high', 'high': 'low', 'state entered': 'state exited', 'state exited': 'state entered',
            'event sent': 'event consumed', 'event consumed': 'event sent', 'step started': 'step ended', 'step ended': 'step started', 'on entry': 'on exit',
            'on exit': 'on entry', 'initial': 'memory', 'memory': 'initial', 'given': 'when', 'when': 'given', 'then': 'when', 'guard': 'action', 'target': 'event',
            'preconditions': 'postconditions', 'postconditions': 'invariants', 'invariants': 'preconditions'}
SKIP_FUNCS = {'__repr__', '__str__', 'cli', 'main'}
SECOND = os.environ.get('MUT_SECOND') == '1'      # second family of operators: dropped keyword, swapped arguments, swapped adjacent statements


def parents(tree):
    for n in ast.walk(tree):
        for c in ast.iter_child_nodes(n):
            if not isinstance(c, (ast.expr_context, ast.operator, ast.boolop, ast.unaryop, ast.cmpop)):
                c._p = n


def skipped(node):
    """inside a docstring / message / annotation / __repr__ ..."""
    n = node
    while n is not None:
        p = getattr(n, '_p', None)
        if isinstance(n, (ast.FunctionDef, ast.AsyncFunctionDef)) and n.name in SKIP_FUNCS:
            return True
        if isinstance(p, (ast.FunctionDef, ast.AsyncFunctionDef)) and (n is p.returns or n in p.decorator_list):
            return True
        if isinstance(p, ast.arg) or isinstance(p, ast.AnnAssign) and n is p.annotation:
            return True
        if isinstance(p, ast.Raise) or isinstance(n, ast.Raise) and n is not node:
            return True
        if isinstance(p, ast.Assert) and n is p.msg:
            return True
        if isinstance(n, ast.JoinedStr):
            return True
        if isinstance(p, ast.Call) and isinstance(p.func, ast.Attribute) and p.func.attr in ('format', 'warn', 'debug', 'info', 'warning') :
            return True
        if isinstance(p, ast.Call) and isinstance(p.func, ast.Name) and p.func.id in ('cast', 'TypeVar', 'print'):
            return True
        if isinstance(p, ast.Subscript) and isinstance(p.value, ast.Name) and p.value.id in ('List', 'Dict', 'Optional', 'Union', 'Tuple', 'Callable', 'Iterable', 'Mapping', 'Set'):
            return True
        n = p
    return False


def mutants_of(path):
    src = open(os.path.join(REPO, path)).read()
    tree = ast.parse(src)
    parents(tree)
    nodes = list(ast.walk(tree))
    out = []

    def add(node, kind, descr, fn):
        out.append({'file': path, 'line': getattr(node, 'lineno', 0), 'col': getattr(node, 'col_offset', 0), 'kind': kind, 'descr': descr, 'idx': nodes.index(node), 'fn': fn})
    for n in nodes:
        if not hasattr(n, 'lineno') or skipped(n):
            continue
        if isinstance(n, ast.Expr) and isinstance(n.value, ast.Constant):
            continue
        if SECOND and isinstance(n, ast.Call) and n.keywords and not skipped(n):
            for i, kw in enumerate(n.keywords):
                if kw.arg is not None:
                    add(n, 'drop-kwarg', 'keyword %s dropped from %s' % (kw.arg, ast.unparse(n.func)[:30]), ('DROP_KW', i))
        if SECOND and isinstance(n, ast.Call) and len(n.args) == 2 and not n.keywords and all(isinstance(a, (ast.Name, ast.Attribute)) for a in n.args) \
                and ast.unparse(n.args[0]) != ast.unparse(n.args[1]):
            add(n, 'arg-swap', 'arguments swapped in %s' % ast.unparse(n.func)[:30], 'SWAP_ARGS')
        if SECOND and isinstance(n, ast.stmt):
            p_ = getattr(n, '_p', None)
            for fld in ('body', 'orelse', 'finalbody'):
                blk = getattr(p_, fld, None)
                if isinstance(blk, list) and n in blk:
                    i = blk.index(n)
                    simple = (ast.Expr, ast.Assign, ast.AugAssign)
                    if i + 1 < len(blk) and isinstance(n, simple) and isinstance(blk[i + 1], simple) and not (isinstance(n, ast.Expr) and isinstance(n.value, ast.Constant)):
                        add(n, 'swap-next', 'swapped with the next statement: %s <-> %s' % (ast.unparse(n)[:30].replace('\n', ' '), ast.unparse(blk[i + 1])[:30].replace('\n', ' ')), 'SWAP_NEXT')
        if SECOND:
            continue
        if isinstance(n, ast.Compare) and len(n.ops) == 1 and type(n.ops[0]) in CMP:
            add(n, 'cmp', '%s -> %s' % (type(n.ops[0]).__name__, CMP[type(n.ops[0])].__name__), lambda m: setattr(m, 'ops', [CMP[type(m.ops[0])]()]))
        if isinstance(n, ast.BoolOp):
            add(n, 'boolop', 'and <-> or', lambda m: setattr(m, 'op', ast.Or() if isinstance(m.op, ast.And) else ast.And()))
        if isinstance(n, ast.UnaryOp) and isinstance(n.op, ast.Not):
            add(n, 'not-removed', 'not x -> x', 'REPLACE_OPERAND')
        if isinstance(n, (ast.If, ast.While, ast.IfExp)) and not isinstance(n.test, (ast.Compare, ast.UnaryOp, ast.BoolOp, ast.Constant)):
            add(n, 'negate-test', 'test negated', lambda m: setattr(m, 'test', ast.UnaryOp(op=ast.Not(), operand=m.test)))
        if isinstance(n, ast.Constant) and not isinstance(getattr(n, '_p', None), ast.Expr):
            if n.value is True or n.value is False:
                add(n, 'bool', '%s -> %s' % (n.value, not n.value), lambda m: setattr(m, 'value', not m.value))
            elif isinstance(n.value, int):
                add(n, 'int', '%d -> %d' % (n.value, 0 if n.value == 1 else n.value + 1), lambda m: setattr(m, 'value', 0 if m.value == 1 else m.value + 1))
            elif isinstance(n.value, str) and n.value in STR_SWAP:
                add(n, 'str', '%r -> %r' % (n.value, STR_SWAP[n.value]), lambda m: setattr(m, 'value', STR_SWAP[m.value]))
        if isinstance(n, ast.Attribute) and n.attr in ATTR_SWAP and '.' not in ATTR_SWAP[n.attr]:
            add(n, 'attr', '.%s -> .%s' % (n.attr, ATTR_SWAP[n.attr]), lambda m: setattr(m, 'attr', ATTR_SWAP[m.attr]))
        if isinstance(n, ast.BinOp) and isinstance(n.op, (ast.Add, ast.Sub)) and not any(isinstance(x, ast.Constant) and isinstance(x.value, str) for x in ast.walk(n)):
            add(n, 'arith', '+ <-> -', lambda m: setattr(m, 'op', ast.Sub() if isinstance(m.op, ast.Add) else ast.Add()))
        if isinstance(n, ast.Call) and isinstance(n.func, ast.Name) and n.func.id in ('sorted', 'reversed', 'set', 'list', 'copy', 'deepcopy', 'tuple') and len(n.args) >= 1:
            add(n, 'unwrap', '%s(x) -> x' % n.func.id, 'REPLACE_ARG0' if n.func.id != 'sorted' else 'SORTED_TO_LIST')
        if isinstance(n, ast.Call) and isinstance(n.func, ast.Attribute) and n.func.attr == 'copy' and not n.args:
            add(n, 'unwrap', 'x.copy() -> x', 'REPLACE_RECV')
        if isinstance(n, ast.stmt) and isinstance(getattr(n, '_p', None), (ast.FunctionDef, ast.For, ast.While, ast.If, ast.With, ast.Try, ast.ExceptHandler)):
            deletable = (isinstance(n, ast.Expr) and isinstance(n.value, ast.Call)) or isinstance(n, (ast.AugAssign, ast.Continue, ast.Break, ast.Raise, ast.Delete)) or \
                (isinstance(n, ast.Assign) and all(isinstance(t, (ast.Attribute, ast.Subscript)) for t in n.targets))
            if deletable:
                add(n, 'delete', 'statement removed: ' + ast.unparse(n)[:50].replace('\n', ' '), 'DELETE')
    return src, tree, nodes, out


def apply(path, idx, fn):
    src = open(os.path.join(REPO, path)).read()
    tree = ast.parse(src)
    parents(tree)
    nodes = list(ast.walk(tree))
    m = nodes[idx]
    p = m._p
    if isinstance(fn, tuple) and fn[0] == 'DROP_KW':
        del m.keywords[fn[1]]
    elif fn == 'SWAP_ARGS':
        m.args = [m.args[1], m.args[0]]
    elif fn == 'SWAP_NEXT':
        for fld in ('body', 'orelse', 'finalbody'):
            blk = getattr(p, fld, None)
            if isinstance(blk, list) and m in blk:
                i = blk.index(m)
                blk[i], blk[i + 1] = blk[i + 1], blk[i]
    elif fn in ('REPLACE_OPERAND', 'REPLACE_ARG0', 'REPLACE_RECV', 'SORTED_TO_LIST', 'DELETE'):
        if fn == 'REPLACE_OPERAND':
            new = m.operand
        elif fn == 'REPLACE_ARG0':
            new = m.args[0]
        elif fn == 'REPLACE_RECV':
            new = m.func.value
        elif fn == 'SORTED_TO_LIST':
            new = ast.Call(func=ast.Name(id='list', ctx=ast.Load()), args=[m.args[0]], keywords=[])
        else:
            new = ast.Pass()
        for fld, val in ast.iter_fields(p):
            if val is m:
                setattr(p, fld, new)
            elif isinstance(val, list):
                for i, c in enumerate(val):
                    if c is m:
                        val[i] = new
    else:
        fn(m)
    ast.fix_missing_locations(tree)
    return ast.unparse(tree) + '\n'


def all_mutants():
    out = []
    for f in FILES:
        src, tree, nodes, ms = mutants_of(f)
        for m in ms:
            m['id'] = hashlib.sha1(('%s:%d:%d:%s:%s' % (m['file'], m['line'], m['col'], m['kind'], m['descr'])).encode()).hexdigest()[:10]
        out += ms
    return out


ALWAYS_FAIL = None


def always_fail():
    """the tests that fail on the pristine tree (deselected when running mutants)"""
    base = json.load(open('/root/.vp/BASELINE.json'))
    want = set(base['stable_pass'])
    return want


def worker(args):
    k, jobs = args
    wt = '/tmp/mwt/%d' % k
    if not os.path.isdir(wt):
        subprocess.check_call(['git', '-C', REPO, 'worktree', 'add', '-q', '--detach', wt, 'HEAD'])
    import importlib
    from sa.loader import Tree
    from sa.prog import Program
    from sa.report import Run, load_known
    want = set(json.load(open('/root/.vp/BASELINE.json'))['stable_pass'])
    known = {k_['key'] for k_ in load_known() if k_.get('status') == 'known'}
    res = []
    env = dict(os.environ, PYTHONPATH=wt, PYTHONDONTWRITEBYTECODE='1')
    for job in jobs:
        path, idx, mid = job['file'], job['idx'], job['id']
        subprocess.check_call(['git', '-C', wt, 'checkout', '-q', '--', '.'])
        try:
            _, _, _, ms = mutants_of(path)
            m = [x for x in ms if x['idx'] == idx and x['kind'] == job['kind']][0]
            new = apply(path, idx, m['fn'])
        except Exception as e:
            res.append(dict(job, error='apply: %r' % e))
            continue
        open(os.path.join(wt, path), 'w').write(new)
        x = '/tmp/mwt/j%d.xml' % k
        if os.path.exists(x):
            os.remove(x)
        t0 = time.time()
        try:
            subprocess.run(['/venv/bin/python', '-m', 'pytest', '-q', '-x', '-p', 'no:cacheprovider', '--timeout=60', '--junitxml=' + x] + DESELECT,
                           cwd=wt, env=env, stdout=subprocess.DEVNULL, stderr=subprocess.DEVNULL, timeout=400)
            timed_out = False
        except subprocess.TimeoutExpired:
            timed_out = True
        killed = None
        if timed_out:
            killed = 'TIMEOUT'
        else:
            try:
                for tc in ET.parse(x).getroot().iter('testcase'):
                    name = '%s::%s' % (tc.get('classname'), tc.get('name'))
                    if any(c.tag in ('failure', 'error') for c in tc) and name in want:
                        killed = name
                        break
            except Exception as e:
                killed = 'NOJUNIT %r' % e
        out = dict(job, killed=killed, suite_s=round(time.time() - t0, 1))
        if killed is None:
            fired = {}
            errors = {}
            try:
                tree = Tree(root=wt)
                prog = Program(tree)
                for i in range(1, 21):
                    prop = 'C%02d' % i
                    mod = importlib.import_module('sa.rules.' + prop.lower())
                    run = Run(prop, tree, prog)
                    try:
                        run.guard(mod.check, run)
                    except Exception as e:
                        errors[prop] = 'CRASH %r' % e
                        continue
                    ks = [f.key for f in run.findings if f.key not in known]
                    if ks:
                        fired[prop] = ks[:4]
                    if run.analysis_errors:
                        errors[prop] = '; '.join(run.analysis_errors)[:200]
            except Exception as e:
                errors['*'] = 'CRASH %r' % e
            out['fired'] = fired
            out['errors'] = errors
        res.append(out)
        with open('/tmp/mwt/progress.%d' % k, 'a') as fh:
            fh.write(json.dumps({k_: v for k_, v in out.items() if k_ != 'fn'}) + '\n')
    subprocess.check_call(['git', '-C', wt, 'checkout', '-q', '--', '.'])
    return [{k_: v for k_, v in r.items() if k_ != 'fn'} for r in res]


DESELECT = []


def compute_deselect():
    """pytest node ids of the tests that fail on the pristine tree"""
    wt = '/tmp/mwt/0'
    os.makedirs('/tmp/mwt', exist_ok=True)
    if not os.path.isdir(wt):
        subprocess.check_call(['git', '-C', REPO, 'worktree', 'add', '-q', '--detach', wt, 'HEAD'])
    r = subprocess.run(['/venv/bin/python', '-m', 'pytest', '-q', '-p', 'no:cacheprovider', '--timeout=60', '-rf'], cwd=wt, env=dict(os.environ, PYTHONPATH=wt),
                       capture_output=True, text=True)
    ids = [l.split()[1] for l in r.stdout.splitlines() if l.startswith('FAILED ')]
    return [a for i in ids for a in ('--deselect', i)]


def main(argv):
    ms = all_mutants()
    if argv[0] == 'enumerate':
        from collections import Counter
        print(len(ms), Counter(m['kind'] for m in ms))
        print(Counter(m['file'] for m in ms))
        return
    if argv[0] == 'show':
        m = [x for x in ms if x['id'] == argv[1]][0]
        old = open(os.path.join(REPO, m['file'])).read()
        new = apply(m['file'], m['idx'], m['fn'])
        old_n = ast.unparse(ast.parse(old)) + '\n'
        print(m['file'], m['line'], m['kind'], m['descr'])
        print(''.join(difflib.unified_diff(old_n.splitlines(True), new.splitlines(True), 'a/' + m['file'], 'b/' + m['file'], n=2)))
        return
    if argv[0] == 'recheck':
        recheck(argv[1], argv[2])
        return
    if argv[0] == 'run':
        out = argv[1]
        n = int(argv[2]) if len(argv) > 2 else None
        import random
        random.Random(1).shuffle(ms)
        if n:
            ms = ms[:n]
        global DESELECT
        DESELECT = compute_deselect()
        print('deselected', len(DESELECT) // 2, 'always-failing tests;', len(ms), 'mutants')
        W = 16
        chunks = [(k, [{k_: v for k_, v in m.items() if k_ != 'fn'} for m in ms[k::W]]) for k in range(W)]
        for k in range(W):
            if os.path.exists('/tmp/mwt/progress.%d' % k):
                os.remove('/tmp/mwt/progress.%d' % k)
        with ProcessPoolExecutor(max_workers=W, initializer=_init, initargs=(DESELECT,)) as ex:
            res = [r for rs in ex.map(worker, chunks) for r in rs]
        with open(out, 'w') as fh:
            for r in res:
                fh.write(json.dumps(r) + '\n')
        killed = [r for r in res if r.get('killed')]
        surv = [r for r in res if not r.get('killed') and 'error' not in r]
        flagged = [r for r in surv if r.get('fired')]
        print('mutants %d, killed by the suite %d, survivors %d, of which reported by some check %d, analysis-error only %d, silent %d' %
              (len(res), len(killed), len(surv), len(flagged), len([r for r in surv if not r.get('fired') and r.get('errors')]),
               len([r for r in surv if not r.get('fired') and not r.get('errors')])))


def recheck_worker(args):
    k, jobs = args
    wt = '/tmp/mwt/%d' % k
    if not os.path.isdir(wt):
        subprocess.check_call(['git', '-C', REPO, 'worktree', 'add', '-q', '--detach', wt, 'HEAD'])
    import importlib
    from sa.loader import Tree
    from sa.prog import Program
    from sa.report import Run, load_known
    known = {k_['key'] for k_ in load_known() if k_.get('status') == 'known'}
    out = []
    for job in jobs:
        subprocess.check_call(['git', '-C', wt, 'checkout', '-q', '--', '.'])
        _, _, _, ms = mutants_of(job['file'])
        m = [x for x in ms if x['idx'] == job['idx'] and x['kind'] == job['kind']][0]
        open(os.path.join(wt, job['file']), 'w').write(apply(job['file'], job['idx'], m['fn']))
        fired, errors = {}, {}
        try:
            tree = Tree(root=wt)
            prog = Program(tree)
            for i in range(1, 21):
                prop = 'C%02d' % i
                mod = importlib.import_module('sa.rules.' + prop.lower())
                run = Run(prop, tree, prog)
                try:
                    run.guard(mod.check, run)
                except Exception as e:
                    errors[prop] = 'CRASH %r' % e
                    continue
                ks = [f.key for f in run.findings if f.key not in known]
                if ks:
                    fired[prop] = ks[:4]
                if run.analysis_errors:
                    errors[prop] = '; '.join(run.analysis_errors)[:200]
        except Exception as e:
            errors['*'] = 'CRASH %r' % e
        out.append(dict(job, fired=fired, errors=errors))
    subprocess.check_call(['git', '-C', wt, 'checkout', '-q', '--', '.'])
    return out


def recheck(src, dst):
    rs = [json.loads(l) for l in open(src)]
    surv = [r for r in rs if not r.get('killed') and 'error' not in r]
    W = 16
    with ProcessPoolExecutor(max_workers=W) as ex:
        res = [r for chunk in ex.map(recheck_worker, [(k, surv[k::W]) for k in range(W)]) for r in chunk]
    by = {r['id']: r for r in res}
    with open(dst, 'w') as fh:
        for r in rs:
            fh.write(json.dumps(by.get(r['id'], r)) + '\n')
    sil = [r for r in res if not r['fired'] and not r['errors']]
    print('survivors %d: reported %d, analysis-error only %d, silent %d' % (len(res), len([r for r in res if r['fired']]), len([r for r in res if not r['fired'] and r['errors']]), len(sil)))
    import linecache
    for r in sorted(sil, key=lambda r: (r['file'], r['line'])):
        print('%s %s:%d [%s] %s | %s' % (r['id'], r['file'].replace('sismic/', ''), r['line'], r['kind'], r['descr'][:45], linecache.getline(os.path.join(REPO, r['file']), r['line']).strip()[:90]))


def _init(d):
    global DESELECT
    DESELECT = d


if __name__ == '__main__':
    main(sys.argv[1:])
