#!/usr/bin/env python3
"""Round 5: copy confirmed seeded changes from /tmp/seeded5 into /verif/seeded/<prop>-<n>/ (numbering continues per property)."""
import json, os, shutil, sys, glob
sys.path.insert(0, os.path.dirname(os.path.abspath(__file__)))
import seeded as S
MISSED = {
 '/tmp/seeded5/X01/4': 'C06.5: isinstance dispatch over state kinds is exact (no concrete state class derives from a tested one)',
 '/tmp/seeded5/X02/4': "C07.6: the evaluator's context is a fresh dictionary, never the caller's mapping",
 '/tmp/seeded5/X04/1': 'derived-data rule shared with C04 (C04.7) for queries serving _sort_transitions; was reported by C01/C02/C03/C07/C11/C16/C17 only',
 '/tmp/seeded5/X06/2': 'C11.1: the exported transitions come from transitions_from() or from a complete by-source index (was an analysis error only)',
 '/tmp/seeded5/X06/3': 'C16.8: every normal exit of an edit has performed its defining write',
 '/tmp/seeded5/X07/1': 'C12.3: the raw document is not operated on before schema validation',
 '/tmp/seeded5/X07/4': 'C17.6: copy hooks of model classes carry every constructor field (was reported by C18.5 only)',
 '/tmp/seeded5/X08/4': 'C18.5: snapshot hooks change nothing the live object still refers to (shallow __dict__ copies share their values)',
 '/tmp/seeded5/X10/3': 'C20.6: no hook is called under a non-reentrant lock that the public API takes',
}
dirs = sorted(glob.glob('/tmp/seeded5/X*/[0-9]'))
res = S.main(dirs)
nxt = {}
for d in glob.glob('/verif/seeded/*'):
    p, k = os.path.basename(d).split('-')
    nxt[p] = max(nxt.get(p, 0), int(k))
n = 0
for d in dirs:
    ver = json.load(open(os.path.join(d, 'verified.json')))
    if not ver.get('ok'):
        print('skip', d)
        continue
    meta = json.load(open(os.path.join(d, 'meta.json')))
    prop = meta['property']
    nxt[prop] = nxt.get(prop, 0) + 1
    sid = '%s-%d' % (prop, nxt[prop])
    dst = os.path.join('/verif/seeded', sid)
    os.makedirs(dst, exist_ok=True)
    shutil.copy(os.path.join(d, 'patch.diff'), dst)
    shutil.copy(os.path.join(d, 'demo.py'), dst)
    fired = res.get(d, {}).get('fired', {})
    meta.update({'id': sid, 'round': 5, 'origin': 'independent sub-agent given only two property texts and a scratch worktree; asked to disguise each defect as legitimate work (a feature, an optimisation, a robustness fix, an almost behaviour-preserving refactoring), 5 to 40 changed lines',
                 'confirmed_by_me': {'how': 'tools/verify_seeded.py in a scratch worktree of /repo HEAD', 'demo_exit_pristine': ver.get('demo_pristine_exit'),
                                     'demo_exit_patched': ver.get('demo_patched_exit'), 'suite_with_patch': '340 stable tests pass, same 7 always-failing tests'},
                 'detected_by': {p: k for p, k in sorted(fired.items())}, 'detected_by_target_check': prop in fired, 'analysis_errors': res.get(d, {}).get('errors', {})})
    if d in MISSED:
        meta['missed_at_first'] = MISSED[d]
    json.dump(meta, open(os.path.join(dst, 'meta.json'), 'w'), indent=1)
    n += 1
print('imported', n)
