#!/usr/bin/env python3
"""Re-evaluate every kept seeded change with the current checks and refresh detected_by in its meta.json."""
import json, os, sys, glob
sys.path.insert(0, os.path.dirname(os.path.abspath(__file__)))
import seeded as S
dirs = sorted(glob.glob('/verif/seeded/*'))
res = S.main(dirs)
miss = 0
for d in dirs:
    mp = os.path.join(d, 'meta.json')
    m = json.load(open(mp))
    fired = res.get(d, {}).get('fired', {})
    m['detected_by'] = {p: k for p, k in sorted(fired.items())}
    m['detected_by_target_check'] = m['property'] in fired
    m['analysis_errors'] = res.get(d, {}).get('errors', {})
    json.dump(m, open(mp, 'w'), indent=1)
    if not m['detected_by_target_check'] or m['analysis_errors']:
        miss += 1
        print('ATTENTION', m['id'], sorted(fired), m['analysis_errors'])
print('%d seeded changes, %d needing attention' % (len(dirs), miss))
sys.exit(1 if miss else 0)
