#!/usr/bin/env python3
"""Development tool: run every check on the behaviour-preserving refactorings kept under /verif/twins (written by independent
sub-agents that knew nothing about the checks; each kept the repository's suite at its baseline). Any finding or ANALYSIS-ERROR
on one of them is a false alarm of the checker. Uses a scratch worktree, never /repo."""
import glob, os, sys
sys.path.insert(0, os.path.dirname(os.path.abspath(__file__)))
import seeded as S
res = S.main(sorted(glob.glob('/verif/twins/*')))
bad = {d: r for d, r in res.items() if r['fired'] or r['errors']}
print('%d refactoring twins, %d not silent' % (len(res), len(bad)))
sys.exit(1 if bad else 0)
