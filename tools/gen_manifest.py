#!/usr/bin/env python3
"""Regenerate /verif/MANIFEST.json from the rule modules (level texts live here)."""
import json, os, subprocess, sys
HERE = os.path.dirname(os.path.dirname(os.path.abspath(__file__)))
sys.path.insert(0, HERE)

NOT_DECIDED = {
 'C01': 'that the structural ingredients compose to the documented selection relation for every chart, configuration and guard valuation; guard values',
 'C02': 'legality as an inductive invariant over all charts and histories (needs execution or a model)',
 'C03': 'that the code fragments actually executed equal those listed (needs run-time probes); only the structural reasons for equality are decided',
 'C04': 'reachability of the errors for concrete charts',
 'C05': 'ordering for concrete delay patterns over whole runs (follows from the decided shape by a pen-and-paper argument only)',
 'C06': 'equality of restored and saved sub-configurations over event histories',
 'C07': 'determinism of embedded user code; error messages',
 'C08': 'values of conditions and contents of __old__',
 'C09': 'purity of user conditions (assumption A2)',
 'C10': 'exactly-once delivery over whole runs for concrete property charts',
 'C11': "ruamel.yaml's treatment of arbitrary unicode / YAML-significant scalars (A3); behavioural equality of re-imported charts beyond C07",
 'C12': 'malformed YAML (ruamel exceptions), which the quantifier does not include',
 'C13': 'floating-point boundary behaviour of time - d >= stamp',
 'C14': 'the arithmetic (now - base) * speed against real time',
 'C15': 'delivery over whole runs and binding topologies (cycles)',
 'C16': 'the full post-state of edit sequences against an independent model',
 'C17': 'behavioural equality of runs of the renamed chart (depends additionally on C07.1)',
 'C18': 'equality of future runs of the restored interpreter',
 'C19': "behave's own matching and hook machinery (A3)",
 'C20': 'behaviour under every schedule; liveness with several client threads',
}
TECH = {
 'C01': 'AST/CFG checker: propositional abstraction of guard conditions, constant propagation of defaults through grouping keys/reverse, control-dependence of pre-emption exits',
 'C02': 'who-may-write on _configuration, CFG post-dominance (apply/stabilise pairing), kind-exhaustiveness over the class hierarchy, value-origin analysis of the orthogonal completion scan',
 'C03': 'CFG dominance / post-dominance of phases, list value-flow (result-not-dropped), order lattice for depth directions, sibling agreement of MacroStep properties',
 'C04': 'transitive call-site-specialised effect analysis (decision phase purity), dominance, pairwise-loop recognition, exception-handler reachability',
 'C05': 'who-may-write on the queues, pattern + data-flow check of bisect/insert and peek/pop, propositional abstraction of the due/consume conditions, must-not-reach on the call graph',
 'C06': 'who-may-write/read on _memory, control-dependence of the save, snapshot-origin value flow, order lattice for restoration',
 'C07': 'order-taint analysis (sequence-order lattice with computed summaries of Statechart queries) into ordered sinks; id()/hash() use classification',
 'C08': 'CFG dominance of contract call sites around actions, table extraction (kind -> error class), laziness and sibling agreement of evaluator implementations',
 'C09': 'single-gate dominance, transitive read/write effect intersection (contract subtree vs public API), pure-cache recognition, must-not-reach',
 'C10': 'emission table vs docstring table, action/emission pairing by dominance and post-dominance, delivery-loop shape, ownership (escape) analysis in bind_property_statechart',
 'C11': 'writer/reader key-table extraction (exporter, importer, SCHEMA), constructor parameter -> attribute resolution, inverse-map comparison, __eq__ attribute agreement',
 'C12': 'obligation table with collective dominance (graph cut) of rejecting tests over the registration write, raise-class discipline over the call graph, SCHEMA model',
 'C13': 'who-may-write _time / who-may-read the clock, stamp sites and their control dependence, algebraic normalisation of the after/idle predicates, exposure tables vs docstring',
 'C14': 'CFG reachability write->raise in the time setter, fold-before-rebase ordering per write of _base/_speed/_play, shape of _elapsed/time',
 'C15': 'forwarding-filter and constructor-shape check of the listener, bind/attach/return value flow, sender-side branch conditions',
 'C16': 'write-before-rejection reachability on the CFG with a validatedness analysis of parameter-derived arguments, co-update set agreement, cascade shape',
 'C17': 'control-dependence of each new-name write on its own slot, slot coverage table, copy/rename/register ordering',
 'C18': 'identity-keyed container detector (with committed positive fixture), getstate/setstate layout agreement, miss-tolerant access of dropped caches, unpicklable-value scan',
 'C19': 'value-flow from step arguments and documented source into assertions, path coverage (graph cut) of source reads/assertions, polarity-pair normalisation, docs-vs-registry pattern matching in registration order',
 'C20': 'result-dropped path query on the CFG, dominance/post-dominance of the cycle and lifecycle calls, lockset rule over thread roles from the call graph',
}

def main():
    props = [json.loads(l) for l in open(os.path.join(HERE, 'properties.jsonl'))]
    checks = []
    import importlib
    for p in props:
        pid = p['id']
        mod = importlib.import_module('sa.rules.' + pid.lower())
        checks.append({
            'property_id': pid,
            'quick_cmd': './check %s --tier quick' % pid,
            'thorough_cmd': './check %s --tier thorough' % pid,
            'evidence_file': '/verif/evidence/%s.json' % pid,
            'replay_cmd_template': './check %s --replay {path}' % pid,
            'engine': 'sa',
            'level_claimed': {
                'category': 'other',
                'text': 'Static analysis of /repo\'s current source (no execution): ' + mod.EXPLANATION +
                        ' The check decides these structural clauses, each a necessary condition of the property, for every path of the anchored code at once; '
                        'it does not observe behaviour. NOT decided: ' + NOT_DECIDED[pid] + '.',
                'design_ref': 'DESIGN.md section 4 (%s), section 3 (machinery)' % pid,
            },
            'level_note': 'Trusted base: CPython semantics of the statement kinds used in sismic/ (A1); embedded user code does not re-enter the interpreter and '
                          'guard/contract expressions are side-effect free (A2); third-party libraries behave as documented (A3); own resolver with an explicit '
                          'supplement table of field types in sa/prog.py (A4). A vanished anchor is reported as ANALYSIS-ERROR (exit 2), never as a pass.',
            'technique': 'static analysis: ' + TECH[pid],
        })
    m = {
        'version': 1,
        'setup_cmd': 'true',
        'hooks': {
            'guard': 'SISMIC_VERIF',
            'enable': 'none needed: the checks read /repo sources statically; no instrumentation was added to sismic (guard unused)',
            'baseline_off_cmd': 'cd /repo && /venv/bin/python -m pytest -ra -q -p no:cacheprovider --timeout=900 --continue-on-collection-errors',
            'source_commits': [],
            'add_only': True,
        },
        'engines': [{'name': 'sa', 'path': '/verif/sa', 'serves_properties': [p['id'] for p in props],
                     'kind_free_text': 'repository-specific static analyser on the stdlib ast: loader, class/call resolver with call graph, statement CFG with dominators, '
                                       'effect analysis with call-site specialisation, value flow, propositional abstraction of guards, sequence-order lattice, table extraction; modules are '
                                       'normalised before analysis (new private helpers inlined, explanatory locals forward-substituted, table-driven code partially evaluated); one rule module per property'}],
        'checks': checks,
        'not_applicable': [],
        'notes': 'All 20 properties are claimed through structural clauses only (see level_claimed.text for what is NOT decided per property). Genuine defects found: '
                 '10 repaired by fix: commits in /repo, 1 recorded in /verif/known_findings.json (C20.5). ./check selftest runs the variant corpus (broken variants must fire, '
                 'refactoring twins must stay silent); thorough tier = quick + that sensitivity exploration (hand-written variants and generated twins) on the current tree. '
                 '/verif/seeded holds 300 independently seeded property-breaking changes (299 reported by their target check, one answered with ANALYSIS-ERROR), /verif/twins 334 behaviour-preserving patches (independent refactorings, additive patches and repaired seeded changes - all silent; 7 more that are not silent are kept and explained in /verif/twins-unsupported), /verif/mutation a mutation run over the package.',
    }
    json.dump(m, open(os.path.join(HERE, 'MANIFEST.json'), 'w'), indent=1)
    print('wrote MANIFEST.json with %d checks' % len(checks))

main()
