#!/usr/bin/env python3
"""Regenerate sa/anchors.txt: the qualified names of the functions of the reference tree (the tree the rules were written against).
Private methods that are NOT in this list are treated as newly extracted helpers and inlined before analysis (sa/inline.py)."""
import ast, os, sys
root = sys.argv[1] if len(sys.argv) > 1 else '/repo'
out = []
params = []


def sig(n):
    a = n.args
    return ','.join(x.arg for x in a.posonlyargs + a.args + a.kwonlyargs) + ('' if not a.vararg else ',*' + a.vararg.arg) + ('' if not a.kwarg else ',**' + a.kwarg.arg)
for dp, dn, fns in os.walk(os.path.join(root, 'sismic')):
    for fn in sorted(fns):
        if not fn.endswith('.py'):
            continue
        path = os.path.join(dp, fn)
        rel = os.path.relpath(path, root)
        mod = rel[:-3].replace(os.sep, '.')
        if mod.endswith('.__init__'):
            mod = mod[:-9]
        t = ast.parse(open(path).read())
        for n in t.body:
            if isinstance(n, ast.ClassDef):
                for m in n.body:
                    if isinstance(m, ast.FunctionDef):
                        out.append('%s:%s.%s' % (mod, n.name, m.name))
                        params.append('%s:%s.%s(%s)' % (mod, n.name, m.name, sig(m)))
            elif isinstance(n, ast.FunctionDef):
                out.append('%s:%s' % (mod, n.name))
                params.append('%s:%s(%s)' % (mod, n.name, sig(n)))
here = os.path.dirname(os.path.dirname(os.path.abspath(__file__)))
with open(os.path.join(here, 'sa', 'anchors.txt'), 'w') as f:
    f.write('# functions of the reference tree (AlexandreDecan/sismic at the pinned commit + the fix: commits); see sa/inline.py\n')
    f.write('\n'.join(sorted(set(out))) + '\n')
print(len(set(out)), 'functions')
with open(os.path.join(here, 'sa', 'params.txt'), 'w') as f:
    f.write('# parameters of the functions of the reference tree; a parameter that is not listed here is new (sa/loader.py fold_new_params)\n')
    f.write('\n'.join(sorted(set(params))) + '\n')
