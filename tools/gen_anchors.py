#!/usr/bin/env python3
"""Regenerate sa/anchors.txt: the qualified names of the functions of the reference tree (the tree the rules were written against).
Private methods that are NOT in this list are treated as newly extracted helpers and inlined before analysis (sa/inline.py)."""
import ast, os, sys
root = sys.argv[1] if len(sys.argv) > 1 else '/repo'
out = []
for dp, dn, fns in os.walk(os.path.join(root, 'sismic')):
    for fn in sorted(fns):
        if not fn.endswith('.py'):
            continue
        path = os.path.join(dp, fn)
        rel = os.path.relpath(path, root)
        mod = rel[:-3].replace(os.sep, '.')
        if mod.endswith('.__init__'):
            mod = mod[:-9]
        t = ast.parse(open(path).read())
        for n in t.body:
            if isinstance(n, ast.ClassDef):
                for m in n.body:
                    if isinstance(m, ast.FunctionDef):
                        out.append('%s:%s.%s' % (mod, n.name, m.name))
            elif isinstance(n, ast.FunctionDef):
                out.append('%s:%s' % (mod, n.name))
here = os.path.dirname(os.path.dirname(os.path.abspath(__file__)))
with open(os.path.join(here, 'sa', 'anchors.txt'), 'w') as f:
    f.write('# functions of the reference tree (AlexandreDecan/sismic at the pinned commit + the fix: commits); see sa/inline.py\n')
    f.write('\n'.join(sorted(set(out))) + '\n')
print(len(set(out)), 'functions')
