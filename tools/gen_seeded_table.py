#!/usr/bin/env python3
"""Print the markdown table of DESIGN.md section 12 from /verif/seeded/*/meta.json."""
import json, glob
print('| id | what was changed | needs to manifest | reported by (target first) | first miss and what was strengthened |')
print('|----|------------------|-------------------|----------------------------|--------------------------------------|')
for f in sorted(glob.glob('/verif/seeded/*/meta.json')):
    m = json.load(open(f))
    det = m.get('detected_by', {})
    tgt = m['property']
    rules = []
    for p in [tgt] + sorted(x for x in det if x != tgt):
        rs = sorted({k.split('|')[0] for k in det.get(p, [])})
        if rs:
            rules.append(', '.join(rs))
    def short(s, n):
        s = ' '.join(str(s).split()).replace('|', '/')
        return s if len(s) <= n else s[:n - 1] + '…'
    print('| %s | %s | %s | %s | %s |' % (m['id'], short(m.get('summary', ''), 150), short(m.get('needs_to_manifest', ''), 120), '; '.join(rules), short(m.get('missed_at_first', ''), 110)))
