#!/usr/bin/env python3
"""Round 7: copy confirmed seeded changes from /tmp/seeded7 into /verif/seeded/<prop>-<n>/ (numbering continues per property)."""
import json, os, shutil, sys, glob
sys.path.insert(0, os.path.dirname(os.path.abspath(__file__)))
import seeded as S
MISSED = {
 '/tmp/seeded7/S01/2': 'NOT reported as a violation: the selection loop was re-implemented (one sort on (source, -priority) instead of the nested grouping loops the C01 rules are anchored on); C01 exits 2 with ANALYSIS-ERROR (cannot decide), no rule was added - recognising a new selection algorithm is beyond a shape-based check',
 '/tmp/seeded7/S02/1': 'pair rule shared with C02 (C02.11): every pair is judged against the LCA of that pair; was reported by C04.3 only',
 '/tmp/seeded7/S02/3': 'C17.8: rename_state writes name-bearing slots only, no attribute chosen at run time',
 '/tmp/seeded7/S08/1': 'C08.9: with contract checking on, nothing but the ignore flag decides whether the evaluator is asked (evaluate_preconditions takes the __old__ snapshot)',
}
dirs = sorted(glob.glob('/tmp/seeded7/S*/[0-9]'))
res = S.main(dirs)
nxt = {}
for d in glob.glob('/verif/seeded/*'):
    p, k = os.path.basename(d).split('-')
    nxt[p] = max(nxt.get(p, 0), int(k))
n = 0
for d in dirs:
    ver = json.load(open(os.path.join(d, 'verified.json')))
    if not ver.get('ok'):
        print('skip', d)
        continue
    meta = json.load(open(os.path.join(d, 'meta.json')))
    prop = meta['property']
    nxt[prop] = nxt.get(prop, 0) + 1
    sid = '%s-%d' % (prop, nxt[prop])
    dst = os.path.join('/verif/seeded', sid)
    os.makedirs(dst, exist_ok=True)
    shutil.copy(os.path.join(d, 'patch.diff'), dst)
    shutil.copy(os.path.join(d, 'demo.py'), dst)
    fired = res.get(d, {}).get('fired', {})
    meta.update({'id': sid, 'round': 7, 'origin': 'independent sub-agent given only two property texts and a scratch worktree; asked for defects that show only through the interaction of two features or at boundary conditions, at most one cache per agent, 5 to 40 changed lines',
                 'confirmed_by_me': {'how': 'tools/verify_seeded.py in a scratch worktree of /repo HEAD', 'demo_exit_pristine': ver.get('demo_pristine_exit'),
                                     'demo_exit_patched': ver.get('demo_patched_exit'), 'suite_with_patch': '340 stable tests pass, same 7 always-failing tests'},
                 'detected_by': {p: k for p, k in sorted(fired.items())}, 'detected_by_target_check': prop in fired, 'analysis_errors': res.get(d, {}).get('errors', {})})
    if d in MISSED:
        meta['missed_at_first'] = MISSED[d]
    json.dump(meta, open(os.path.join(dst, 'meta.json'), 'w'), indent=1)
    n += 1
print('imported', n)
