#!/usr/bin/env python3
"""Development tool: print the normal form (after inlining and substitution) of a function. usage: tools/nf.py <root> <Class.method|mod:func>"""
import ast, os, sys
sys.path.insert(0, os.path.dirname(os.path.dirname(os.path.abspath(__file__))))
from sa.loader import Tree
from sa.prog import Program
t = Tree(root=sys.argv[1])
p = Program(t)
for name in sys.argv[2:]:
    print(ast.unparse(p.fn(name).node))
