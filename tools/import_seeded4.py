#!/usr/bin/env python3
"""Round 4: copy confirmed seeded changes from /tmp/seeded4 into /verif/seeded/<prop>-<n>/ (numbering continues per property)."""
import json, os, shutil, sys, glob
sys.path.insert(0, os.path.dirname(os.path.abspath(__file__)))
import seeded as S
MISSED = {
 '/tmp/seeded4/V01/1': 'C01.10: every entry of the cache guards are evaluated from is compiled in eval mode (was reported by C04/C09/C18 only)',
 '/tmp/seeded4/V01/4': 'C11.2: the contract loop of an importer dominates every return (no early return of a state without its contract)',
 '/tmp/seeded4/V02/4': "C12.2: the loop over a state's transitions is not skipped for any state of the document",
 '/tmp/seeded4/V04/1': 'grouping rule shared with C04 (C04.6) and C07 (C07.5); was reported by C01.6 only',
 '/tmp/seeded4/V04/4': 'C14.4: MacroStep(time=<frozen time>) (was reported by C13.1 only)',
 '/tmp/seeded4/V05/2': 'C05.7 / C15.7: Event constructors store name and parameters untouched',
 '/tmp/seeded4/V05/4': 'MacroStep property rule shared with C15 (C15.6); was reported by C03.6 only',
 '/tmp/seeded4/V07/1': 'grouping rule shared with C07 (C07.5); was reported by C01.6 only',
 '/tmp/seeded4/V08/1': 'C08.1: contract checks and the code they surround run in the same phase (was an analysis error)',
 '/tmp/seeded4/V08/3': 'C18.4: weak references count as unpicklable / not deep-copied values',
 '/tmp/seeded4/V09/3': 'C19.3: a return inside a search loop must report a match (constant True)',
}
dirs = sorted(glob.glob('/tmp/seeded4/V*/[0-9]'))
res = S.main(dirs)
nxt = {}
for d in glob.glob('/verif/seeded/*'):
    p, k = os.path.basename(d).split('-')
    nxt[p] = max(nxt.get(p, 0), int(k))
n = 0
for d in dirs:
    ver = json.load(open(os.path.join(d, 'verified.json')))
    if not ver.get('ok'):
        print('skip', d)
        continue
    meta = json.load(open(os.path.join(d, 'meta.json')))
    prop = meta['property']
    nxt[prop] = nxt.get(prop, 0) + 1
    sid = '%s-%d' % (prop, nxt[prop])
    dst = os.path.join('/verif/seeded', sid)
    os.makedirs(dst, exist_ok=True)
    shutil.copy(os.path.join(d, 'patch.diff'), dst)
    shutil.copy(os.path.join(d, 'demo.py'), dst)
    fired = res.get(d, {}).get('fired', {})
    meta.update({'id': sid, 'round': 4, 'origin': 'independent sub-agent given only two property texts and a scratch worktree; asked for small changes (one to five lines), at least two of four outside default.py',
                 'confirmed_by_me': {'how': 'tools/verify_seeded.py in a scratch worktree of /repo HEAD', 'demo_exit_pristine': ver.get('demo_pristine_exit'),
                                     'demo_exit_patched': ver.get('demo_patched_exit'), 'suite_with_patch': '340 stable tests pass, same 7 always-failing tests'},
                 'detected_by': {p: k for p, k in sorted(fired.items())}, 'detected_by_target_check': prop in fired, 'analysis_errors': res.get(d, {}).get('errors', {})})
    if d in MISSED:
        meta['missed_at_first'] = MISSED[d]
    json.dump(meta, open(os.path.join(dst, 'meta.json'), 'w'), indent=1)
    n += 1
print('imported', n)
