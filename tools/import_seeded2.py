#!/usr/bin/env python3
"""Round 2: copy confirmed seeded changes from /tmp/seeded2 into /verif/seeded/<prop>-<n>/ (numbering continues per property)."""
import json, os, shutil, sys, glob
sys.path.insert(0, os.path.dirname(os.path.abspath(__file__)))
import seeded as S
MISSED = {
 '/tmp/seeded2/S01/3': 'C16.7 generalised to every derived field (redundant indexes maintained by mutators, not only memoised queries) and shared with C11/C03/C07',
 '/tmp/seeded2/S03/1': 'derived-data rule shared with C03 (C03.8) and C07 (C07.4); was reported by C16.7/C17.5 only',
 '/tmp/seeded2/S08/2': 'C08.5: the snapshot key of a transition must differ in kind from the key of a state',
 '/tmp/seeded2/S08/4': 'C18.4: closures / lambdas handed to objects stored on the interpreter (was reported by C15.2 only)',
 '/tmp/seeded2/S09/4': 'C19.6: no break in the loop that re-executes the steps of a reproduced scenario',
}
dirs = sorted(glob.glob('/tmp/seeded2/S*/[0-9]'))
res = S.main(dirs)
nxt = {}
for d in glob.glob('/verif/seeded/*'):
    p, k = os.path.basename(d).split('-')
    nxt[p] = max(nxt.get(p, 0), int(k))
n = 0
for d in dirs:
    ver = json.load(open(os.path.join(d, 'verified.json')))
    if not ver.get('ok'):
        print('skip', d)
        continue
    meta = json.load(open(os.path.join(d, 'meta.json')))
    prop = meta['property']
    nxt[prop] = nxt.get(prop, 0) + 1
    sid = '%s-%d' % (prop, nxt[prop])
    dst = os.path.join('/verif/seeded', sid)
    os.makedirs(dst, exist_ok=True)
    shutil.copy(os.path.join(d, 'patch.diff'), dst)
    shutil.copy(os.path.join(d, 'demo.py'), dst)
    fired = res.get(d, {}).get('fired', {})
    meta.update({'id': sid, 'round': 2, 'origin': 'independent sub-agent given only two property texts and a scratch worktree; asked for subtle changes',
                 'confirmed_by_me': {'how': 'tools/verify_seeded.py in a scratch worktree of /repo HEAD', 'demo_exit_pristine': ver.get('demo_pristine_exit'),
                                     'demo_exit_patched': ver.get('demo_patched_exit'), 'suite_with_patch': '340 stable tests pass, same 7 always-failing tests'},
                 'detected_by': {p: k for p, k in sorted(fired.items())}, 'detected_by_target_check': prop in fired, 'analysis_errors': res.get(d, {}).get('errors', {})})
    if d in MISSED:
        meta['missed_at_first'] = MISSED[d]
    json.dump(meta, open(os.path.join(dst, 'meta.json'), 'w'), indent=1)
    n += 1
print('imported', n)
