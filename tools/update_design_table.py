#!/usr/bin/env python3
import subprocess, re
t = subprocess.check_output(['/venv/bin/python', '/verif/tools/gen_seeded_table.py']).decode()
p = '/verif/DESIGN.md'
s = open(p).read()
s = re.sub(r'<!-- SEEDED-TABLE-BEGIN -->.*<!-- SEEDED-TABLE-END -->', '<!-- SEEDED-TABLE-BEGIN -->\n' + t + '<!-- SEEDED-TABLE-END -->', s, flags=re.S)
open(p, 'w').write(s)
print('table updated')
