#!/usr/bin/env python3
"""Development tool: evaluate seeded changes (patch.diff) against the checks, in a scratch worktree (never in /repo).
usage: tools/seeded.py <dir-with-patch.diff> [...]      -> prints, per patch, which properties' checks report a new violation."""
import json, os, subprocess, sys, glob
from concurrent.futures import ProcessPoolExecutor
HERE = os.path.dirname(os.path.dirname(os.path.abspath(__file__)))
sys.path.insert(0, HERE)
WT = '/tmp/evalwt'


def run_prop(args):
    prop, root = args
    import importlib
    from sa.loader import Tree, AnalysisError
    from sa.report import Run, load_known
    try:
        mod = importlib.import_module('sa.rules.' + prop.lower())
        run = Run(prop, Tree(root=root))
        run.guard(mod.check, run)
        known = {k['key'] for k in load_known() if k.get('property') == prop and k.get('status') == 'known'}
        return prop, [f.key for f in run.findings if f.key not in known], ('ANALYSIS-ERROR ' + '; '.join(run.analysis_errors)[:150]) if run.analysis_errors else None
    except AnalysisError as e:
        return prop, [], 'ANALYSIS-ERROR ' + str(e)[:150]
    except Exception as e:
        import traceback
        return prop, [], 'CRASH ' + traceback.format_exc()[-300:]


def main(dirs):
    import fcntl
    lock = open('/tmp/evalwt.lock', 'w')
    fcntl.flock(lock, fcntl.LOCK_EX)      # one evaluation at a time: the scratch worktree is shared
    try:
        return _main(dirs)
    finally:
        fcntl.flock(lock, fcntl.LOCK_UN)


def _main(dirs):
    if not os.path.isdir(WT):
        subprocess.check_call(['git', '-C', '/repo', 'worktree', 'add', '-q', '--detach', WT, 'HEAD'])
    subprocess.check_call(['git', '-C', WT, 'checkout', '-q', '--detach', subprocess.check_output(['git', '-C', '/repo', 'rev-parse', 'HEAD']).decode().strip()])
    props = ['C%02d' % i for i in range(1, 21)]
    out = {}
    with ProcessPoolExecutor(max_workers=16) as ex:
        for d in dirs:
            patch = os.path.join(d, 'patch.diff')
            if not os.path.exists(patch):
                continue
            subprocess.check_call(['git', '-C', WT, 'checkout', '-q', '--', '.'])
            r = subprocess.run(['git', '-C', WT, 'apply', os.path.abspath(patch)], capture_output=True, text=True)
            if r.returncode != 0:
                print(d, 'PATCH DOES NOT APPLY', r.stderr[:200])
                continue
            res = list(ex.map(run_prop, [(p, WT) for p in props]))
            fired = {p: keys for p, keys, err in res if keys}
            errs = {p: err for p, keys, err in res if err}
            meta = {}
            mp = os.path.join(d, 'meta.json')
            if os.path.exists(mp):
                try:
                    meta = json.load(open(mp))
                except Exception:
                    meta = {}
            target = meta.get('property', '?')
            print('%s  target=%s  detected_by=%s %s' % (d, target, sorted(fired), ('errors=%s' % errs) if errs else ''))
            for p, keys in fired.items():
                for k in keys[:3]:
                    print('      %s' % k)
            out[d] = {'fired': fired, 'errors': errs}
            subprocess.check_call(['git', '-C', WT, 'checkout', '-q', '--', '.'])
    return out


if __name__ == '__main__':
    main(sys.argv[1:])
