#!/usr/bin/env python3
"""Copy confirmed seeded changes from /tmp/seeded into /verif/seeded/<id>/ with meta.json enriched by my own confirmation and by which checks report them."""
import json, os, shutil, sys, glob
sys.path.insert(0, os.path.dirname(os.path.abspath(__file__)))
import seeded as S
MISSED_FIRST = {  # seeds the target property's check did not report when first evaluated, and what was strengthened
 'C05-2': 'C05.3 now forbids any break in the queue loop', 'C07-1': 'C07.1/C01.2 now reject adjacency-based itertools.groupby',
 'C06-1': 'C06.3 now requires the scan of the children to run to the end', 'C02-1': 'C02.4 now requires scans to return only a MicroStep',
 'C02-3': 'C02.8 (history save rules shared with C06) added to C02', 'C10-2': 'C10.7 (send/notify collected in one list, shared with C05.6) added to C10',
 'C09-1': 'C09.1 who-may-read rule on _ignore_contract added', 'C09-3': 'C09.1 who-may-read rule on _ignore_contract added',
 'C15-1': 'C15.4 (delivery over the live listener list, shared with C10.3) added to C15', 'C15-3': 'C15.5 (trace completeness, shared with C03.3) added to C15',
 'C16-2': 'C17.1/C16.5: a slot rewrite may depend on nothing but its own slot', 'C16-3': 'C16.3: the memory reset of a moved history state must be unconditional',
 'C19-2': 'C19.3: the all-parameters-match flag may only be cleared', 'C19-3': 'C19.6 rewritten over the step registry (was an ANALYSIS-ERROR on the removed function)',
 'C11-3': 'C11.2 per-class export completeness handles early returns and contract keys (was an ANALYSIS-ERROR)', 'C18-2': 'C18.5 copy/pickle hook rules added',
 'C18-3': 'C18.5 copy/pickle hook rules added (was reported by C13/C14 only)', 'C17-3': 'C16.7/C17.5 derived-cache invalidation rule added (was reported by C04/C09 only)',
}
dirs = sorted(glob.glob('/tmp/seeded/C*/[0-9]'))
res = S.main(dirs)
dst_root = '/verif/seeded'
n = 0
for d in dirs:
    prop, k = d.split('/')[-2], d.split('/')[-1]
    sid = '%s-%s' % (prop, k)
    ver = json.load(open(os.path.join(d, 'verified.json'))) if os.path.exists(os.path.join(d, 'verified.json')) else {}
    if not ver.get('ok'):
        print('skip (not confirmed):', d)
        continue
    dst = os.path.join(dst_root, sid)
    os.makedirs(dst, exist_ok=True)
    shutil.copy(os.path.join(d, 'patch.diff'), dst)
    shutil.copy(os.path.join(d, 'demo.py'), dst)
    try:
        meta = json.load(open(os.path.join(d, 'meta.json')))
    except Exception:
        meta = {}
    fired = res.get(d, {}).get('fired', {})
    meta.update({
        'id': sid, 'property': prop, 'origin': 'independent sub-agent given only the property text and a scratch worktree',
        'confirmed_by_me': {
            'how': 'tools/verify_seeded.py in a scratch worktree of /repo HEAD (PYTHONPATH=<worktree>): demo on pristine tree, demo with patch, full pytest with patch vs /root/.vp/BASELINE.json',
            'demo_exit_pristine': ver.get('demo_pristine_exit'), 'demo_exit_patched': ver.get('demo_patched_exit'),
            'suite_with_patch': '340 stable tests pass, same 7 always-failing tests' if ver.get('suite_ok') else 'DIFFERS',
        },
        'detected_by': {p: keys for p, keys in sorted(fired.items())},
        'detected_by_target_check': prop in fired,
        'analysis_errors': res.get(d, {}).get('errors', {}),
    })
    if sid in MISSED_FIRST:
        meta['missed_at_first'] = MISSED_FIRST[sid]
    json.dump(meta, open(os.path.join(dst, 'meta.json'), 'w'), indent=1)
    n += 1
print('imported', n)
