#!/usr/bin/env python3
"""Run /repo's suite and compare with /root/.vp/BASELINE.json stable_pass (development tool, not a registered check)."""
import json, subprocess, sys, tempfile, os, xml.etree.ElementTree as ET
repo = sys.argv[1] if len(sys.argv) > 1 else '/repo'
base = json.load(open('/root/.vp/BASELINE.json'))
with tempfile.TemporaryDirectory() as d:
    x = os.path.join(d, 'j.xml')
    subprocess.run(['/venv/bin/python', '-m', 'pytest', '-q', '-p', 'no:cacheprovider', '--timeout=900', '--continue-on-collection-errors', '--junitxml=' + x],
                   cwd=repo, stdout=subprocess.DEVNULL, stderr=subprocess.DEVNULL)
    passed = set()
    failed = set()
    for tc in ET.parse(x).getroot().iter('testcase'):
        name = '%s::%s' % (tc.get('classname'), tc.get('name'))
        # junit classname a.b.C -> a.b.C::name ; baseline uses module.Class::name or module::name
        bad = any(c.tag in ('failure', 'error') for c in tc)
        skipped = any(c.tag == 'skipped' for c in tc)
        (failed if bad else passed).add(name) if not skipped else None
want = set(base['stable_pass'])
missing = sorted(want - passed)
print('passed %d, failed %d; baseline stable_pass %d, missing %d' % (len(passed), len(failed), len(want), len(missing)))
for m in missing[:20]:
    print('  MISSING', m)
print('failed:', sorted(failed))
sys.exit(1 if missing else 0)
