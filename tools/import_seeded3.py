#!/usr/bin/env python3
"""Round 3: copy confirmed seeded changes from /tmp/seeded3 into /verif/seeded/<prop>-<n>/ (numbering continues per property)."""
import json, os, shutil, sys, glob
sys.path.insert(0, os.path.dirname(os.path.abspath(__file__)))
import seeded as S
MISSED = {
 '/tmp/seeded3/T01/1': 'derived-data rule: a keyed refresh is not enough where entries of other states are computed from the edited one (scope WHOLE / LOOP / KEYED); rule shared with C01 (C01.8)',
 '/tmp/seeded3/T01/2': 'C01.9: a priority value is never tested by truthiness (the rewritten selection loop itself is reported as not analysable)',
 '/tmp/seeded3/T02/1': 'C02.5: the orthogonal-completion scan must range over a full view of the active states (no intersection / filter)',
 '/tmp/seeded3/T02/2': 'derived-data rule: downward data (descendants) needs the entries of old and new ancestors dropped on move_state; rule shared with C02 (C02.9)',
 '/tmp/seeded3/T02/3': 'C19.3: the all-parameters-match flag must be set afresh for every candidate event',
 '/tmp/seeded3/T03/2': 'stabilisation rules shared with C03 (C03.9a-c); was reported by C02.5 only',
 '/tmp/seeded3/T03/4': 'C18.5: a __deepcopy__ hook must hand the fields of the object to deepcopy(.., memo)',
 '/tmp/seeded3/T04/3': 'derived-data rule: re-keying one entry on rename leaves the old name inside name-bearing entries of other states',
 '/tmp/seeded3/T05/1': 'C05.3: a queue picked by emptiness (internal or external) is reported as a finding, not only as a vanished anchor',
 '/tmp/seeded3/T05/2': 'C05.2: key components beyond the due time must be constant within a queue (class test or constant)',
 '/tmp/seeded3/T06/2': 'enumerate loops are analysed as plain loops (was an analysis error); C06.2 then reports the slice of step.exited_states',
 '/tmp/seeded3/T10/2': 'C10.1: meta-event names computed at run time are reported (was a crash of the rule)',
 '/tmp/seeded3/T10/4': 'C11.1: the conditions of the state contract must be read from the state itself (all definitions that can reach the iterable)',
}
dirs = sorted(glob.glob('/tmp/seeded3/T*/[0-9]'))
res = S.main(dirs)
nxt = {}
for d in glob.glob('/verif/seeded/*'):
    p, k = os.path.basename(d).split('-')
    nxt[p] = max(nxt.get(p, 0), int(k))
n = 0
for d in dirs:
    ver = json.load(open(os.path.join(d, 'verified.json')))
    if not ver.get('ok'):
        print('skip', d)
        continue
    meta = json.load(open(os.path.join(d, 'meta.json')))
    prop = meta['property']
    nxt[prop] = nxt.get(prop, 0) + 1
    sid = '%s-%d' % (prop, nxt[prop])
    dst = os.path.join('/verif/seeded', sid)
    os.makedirs(dst, exist_ok=True)
    shutil.copy(os.path.join(d, 'patch.diff'), dst)
    shutil.copy(os.path.join(d, 'demo.py'), dst)
    fired = res.get(d, {}).get('fired', {})
    meta.update({'id': sid, 'round': 3, 'origin': 'independent sub-agent given only two property texts and a scratch worktree; asked for cooperating edits and at least one change outside default.py',
                 'confirmed_by_me': {'how': 'tools/verify_seeded.py in a scratch worktree of /repo HEAD', 'demo_exit_pristine': ver.get('demo_pristine_exit'),
                                     'demo_exit_patched': ver.get('demo_patched_exit'), 'suite_with_patch': '340 stable tests pass, same 7 always-failing tests'},
                 'detected_by': {p: k for p, k in sorted(fired.items())}, 'detected_by_target_check': prop in fired, 'analysis_errors': res.get(d, {}).get('errors', {})})
    if d in MISSED:
        meta['missed_at_first'] = MISSED[d]
    json.dump(meta, open(os.path.join(dst, 'meta.json'), 'w'), indent=1)
    n += 1
print('imported', n)
