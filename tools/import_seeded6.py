#!/usr/bin/env python3
"""Round 6: copy confirmed seeded changes from /tmp/seeded6 into /verif/seeded/<prop>-<n>/ (numbering continues per property)."""
import json, os, shutil, sys, glob
sys.path.insert(0, os.path.dirname(os.path.abspath(__file__)))
import seeded as S
MISSED = {
 '/tmp/seeded6/Y01/3': 'C11.1: every source the exporter loop may range over (not just one of them) is transitions_from() or a complete by-source index',
 '/tmp/seeded6/Y02/2': 'C02.10 (also C09.4): a memo on the interpreter is dropped at every write of what it is computed from; was reported by C04/C07/C09/C18 side effects only',
 '/tmp/seeded6/Y02/4': 'C12.3: a use of the document inside a handler of the schema validation is a use of the unvalidated document',
 '/tmp/seeded6/Y03/3': 'copy-hook rule shared with C13 (C13.4), with a per-field copy-depth analysis; was reported by C18.5 only',
 '/tmp/seeded6/Y04/4': 'C14.4: the constructor argument of SynchronizedClock is not rebound before it is stored; was reported by C10.6 only',
 '/tmp/seeded6/Y06/2': 'derived-data rule shared with C06 (C06.6) for the queries the history save / restore answers from; was reported by C01/C02/C03/C04/C07/C11/C16/C17 only',
 '/tmp/seeded6/Y07/4': 'copy-hook rule shared with C17 (C17.7), with a per-field copy-depth analysis against the declared field types; was reported by C18.5 only',
 '/tmp/seeded6/Y08/3': 'C18.5: a nested deepcopy inside __deepcopy__ is handed the memo',
 '/tmp/seeded6/Y09/3': 'C19.8: no memoised function of the BDD layer returns an object built by eval',
 '/tmp/seeded6/Y10/2': 'C10.8: collected events and notifications are raised by one loop, each unconditionally; was reported by C03/C08/C15 only',
}
dirs = sorted(glob.glob('/tmp/seeded6/Y*/[0-9]'))
res = S.main(dirs)
nxt = {}
for d in glob.glob('/verif/seeded/*'):
    p, k = os.path.basename(d).split('-')
    nxt[p] = max(nxt.get(p, 0), int(k))
n = 0
for d in dirs:
    ver = json.load(open(os.path.join(d, 'verified.json')))
    if not ver.get('ok'):
        print('skip', d)
        continue
    meta = json.load(open(os.path.join(d, 'meta.json')))
    prop = meta['property']
    nxt[prop] = nxt.get(prop, 0) + 1
    sid = '%s-%d' % (prop, nxt[prop])
    dst = os.path.join('/verif/seeded', sid)
    os.makedirs(dst, exist_ok=True)
    shutil.copy(os.path.join(d, 'patch.diff'), dst)
    shutil.copy(os.path.join(d, 'demo.py'), dst)
    fired = res.get(d, {}).get('fired', {})
    meta.update({'id': sid, 'round': 6, 'origin': 'independent sub-agent given only two property texts and a scratch worktree; asked to disguise each defect as legitimate work and to ADD a new construct (method, hook, parameter, cache, lock, fast path) in at least three of four changes, 5 to 40 changed lines',
                 'confirmed_by_me': {'how': 'tools/verify_seeded.py in a scratch worktree of /repo HEAD', 'demo_exit_pristine': ver.get('demo_pristine_exit'),
                                     'demo_exit_patched': ver.get('demo_patched_exit'), 'suite_with_patch': '340 stable tests pass, same 7 always-failing tests'},
                 'detected_by': {p: k for p, k in sorted(fired.items())}, 'detected_by_target_check': prop in fired, 'analysis_errors': res.get(d, {}).get('errors', {})})
    if d in MISSED:
        meta['missed_at_first'] = MISSED[d]
    json.dump(meta, open(os.path.join(dst, 'meta.json'), 'w'), indent=1)
    n += 1
print('imported', n)
