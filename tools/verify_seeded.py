#!/usr/bin/env python3
"""Development tool: confirm seeded changes in scratch worktrees (never /repo): demo exits 0 on the pristine tree and non-zero with
the patch; the repository's suite keeps its baseline (340 stable tests pass, same 7 always-fail) with the patch.
usage: tools/verify_seeded.py <dir> [...]  -> writes <dir>/verified.json"""
import json, os, subprocess, sys, shutil, tempfile, xml.etree.ElementTree as ET
from concurrent.futures import ThreadPoolExecutor
import queue as _q

BASE = json.load(open('/root/.vp/BASELINE.json'))
WANT = set(BASE['stable_pass'])
POOL = _q.Queue()


def sh(cmd, cwd=None, env=None, timeout=1200):
    return subprocess.run(cmd, cwd=cwd, env=env, capture_output=True, text=True, timeout=timeout)


def verify(d):
    wt = POOL.get()
    try:
        env = dict(os.environ, PYTHONPATH=wt, PYTHONDONTWRITEBYTECODE='1')
        sh(['git', '-C', wt, 'checkout', '-q', '--', '.'])
        sh(['git', '-C', wt, 'clean', '-fdq'])
        patch = os.path.abspath(os.path.join(d, 'patch.diff'))
        demo = os.path.join(wt, '_seed_demo.py')
        shutil.copy(os.path.join(d, 'demo.py'), demo)
        res = {'dir': d}
        r0 = sh(['/venv/bin/python', demo], cwd=wt, env=env, timeout=600)
        res['demo_pristine_exit'] = r0.returncode
        ap = sh(['git', '-C', wt, 'apply', patch])
        res['applies'] = ap.returncode == 0
        if ap.returncode != 0:
            res['ok'] = False
            return res
        r1 = sh(['/venv/bin/python', demo], cwd=wt, env=env, timeout=600)
        res['demo_patched_exit'] = r1.returncode
        res['demo_patched_tail'] = (r1.stdout + r1.stderr)[-300:]
        os.remove(demo)
        with tempfile.TemporaryDirectory() as td:
            x = os.path.join(td, 'j.xml')
            sh(['/venv/bin/python', '-m', 'pytest', '-q', '-p', 'no:cacheprovider', '--timeout=900', '--continue-on-collection-errors', '--junitxml=' + x], cwd=wt, env=env)
            passed, failed = set(), set()
            for tc in ET.parse(x).getroot().iter('testcase'):
                name = '%s::%s' % (tc.get('classname'), tc.get('name'))
                bad = any(c.tag in ('failure', 'error') for c in tc)
                (failed if bad else passed).add(name)
        res['suite_missing'] = sorted(WANT - passed)
        res['suite_failed'] = sorted(failed)
        res['suite_ok'] = not res['suite_missing'] and sorted(failed) == sorted(BASE['always_fail'])
        res['ok'] = res['demo_pristine_exit'] == 0 and res['demo_patched_exit'] != 0 and res['suite_ok']
        return res
    finally:
        sh(['git', '-C', wt, 'checkout', '-q', '--', '.'])
        sh(['git', '-C', wt, 'clean', '-fdq'])
        POOL.put(wt)


def main(dirs):
    head = sh(['git', '-C', '/repo', 'rev-parse', 'HEAD']).stdout.strip()
    n = 8
    for i in range(n):
        wt = '/tmp/vwt/%d' % i
        if not os.path.isdir(wt):
            os.makedirs('/tmp/vwt', exist_ok=True)
            sh(['git', '-C', '/repo', 'worktree', 'add', '-q', '--detach', wt, head])
        else:
            sh(['git', '-C', wt, 'checkout', '-q', '--detach', head])
        POOL.put(wt)
    with ThreadPoolExecutor(max_workers=n) as ex:
        for res in ex.map(verify, dirs):
            json.dump(res, open(os.path.join(res['dir'], 'verified.json'), 'w'), indent=1)
            print(res['dir'], 'OK' if res.get('ok') else 'NOT-OK', {k: v for k, v in res.items() if k in ('demo_pristine_exit', 'demo_patched_exit', 'suite_ok', 'applies')},
                  res.get('suite_missing', [])[:3])


if __name__ == '__main__':
    main(sys.argv[1:])
