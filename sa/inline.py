"""Inlining of NEW private helpers (stated bound: one level per pass, two passes).

A behaviour-preserving "extract method / extract function" refactoring moves a block of an anchored function into a new
private function. The rules speak about the anchored functions, so before analysis every private method or module-level
function that is not part of the reference tree (sa/anchors.txt: the qualified names of the functions that existed when
the rules were written) is substituted for its call sites and its definition is dropped, provided that
  * every reference to it in its module is a call `self._h(..)` / `Cls._h(..)` (methods) or `_h(..)` (functions),
  * each such call is the only new-helper call of its statement and does not sit inside a lambda, a comprehension, a loop
    test or a nested function,
  * it is not recursive and has no *args / **kwargs.
A helper with several return statements is inlined as a synthetic single-iteration block (`while True: .. break`, marked
`_synthetic`, ignored by loop-sensitive queries) in which `return e` becomes `<ret> = e; break`. Anything else is left
alone and analysed as an ordinary function."""
import ast
import copy
import os

ANCHORS = os.path.join(os.path.dirname(os.path.abspath(__file__)), 'anchors.txt')
_counter = [0]


def known_functions():
    if not os.path.exists(ANCHORS):
        return None
    with open(ANCHORS) as f:
        return {l.strip() for l in f if l.strip() and not l.startswith('#')}


def _locals(fn):
    out = set()
    for n in ast.walk(fn):
        if isinstance(n, ast.Name) and isinstance(n.ctx, (ast.Store, ast.Del)):
            out.add(n.id)
        if isinstance(n, ast.ExceptHandler) and n.name:
            out.add(n.name)
    return out


def _params(fn):
    a = fn.args
    return [x.arg for x in a.posonlyargs + a.args + a.kwonlyargs]


class _Rename(ast.NodeTransformer):
    def __init__(self, mapping):
        self.mapping = mapping

    def visit_Name(self, node):
        if node.id in self.mapping:
            node.id = self.mapping[node.id]
        return node

    def visit_ExceptHandler(self, node):
        if node.name in self.mapping:
            node.name = self.mapping[node.name]
        self.generic_visit(node)
        return node

    def _scoped(self, node):
        # parameters of a lambda / nested function shadow the outer names in its body; their default values are outer expressions
        a = node.args
        params = {x.arg for x in a.posonlyargs + a.args + a.kwonlyargs} | ({a.vararg.arg} if a.vararg else set()) | ({a.kwarg.arg} if a.kwarg else set())
        a.defaults = [self.visit(d) for d in a.defaults]
        a.kw_defaults = [self.visit(d) if d is not None else None for d in a.kw_defaults]
        inner = _Rename({k: v for k, v in self.mapping.items() if k not in params})
        if isinstance(node, ast.Lambda):
            node.body = inner.visit(node.body)
        else:
            node.body = [inner.visit(s_) for s_ in node.body]
        return node

    def visit_Lambda(self, node):
        return self._scoped(node)

    def visit_FunctionDef(self, node):
        if node.name in self.mapping:
            node.name = self.mapping[node.name]
        return self._scoped(node)


def _returns(fn):
    out = []
    stack = list(fn.body)
    while stack:
        n = stack.pop()
        if isinstance(n, (ast.FunctionDef, ast.AsyncFunctionDef, ast.Lambda, ast.ClassDef)):
            continue
        if isinstance(n, ast.Return):
            out.append(n)
        stack.extend(ast.iter_child_nodes(n))
    return out


def _helper_calls(node, names, is_method):
    """Calls of new helpers inside `node`, each with a flag telling whether it sits in a hoistable position."""
    out = []

    def visit(n, ok):
        if isinstance(n, ast.Call):
            f = n.func
            name = None
            if is_method and isinstance(f, ast.Attribute) and isinstance(f.value, ast.Name) and f.attr in names:
                name = f.attr
            if not is_method and isinstance(f, ast.Name) and f.id in names:
                name = f.id
            if name is not None:
                bad = any(isinstance(a, ast.Starred) for a in n.args) or any(k.arg is None for k in n.keywords)
                out.append((name, n, ok and not bad))
        for fld, val in ast.iter_fields(n):
            children = val if isinstance(val, list) else [val]
            for c in children:
                if not isinstance(c, ast.AST):
                    continue
                nested = isinstance(n, (ast.Lambda, ast.ListComp, ast.SetComp, ast.DictComp, ast.GeneratorExp, ast.FunctionDef, ast.AsyncFunctionDef, ast.ClassDef))
                # short-circuit operands after the first, and IfExp branches, are conditionally evaluated: do not hoist
                cond = (isinstance(n, ast.BoolOp) and c is not n.values[0]) or (isinstance(n, ast.IfExp) and c is not n.test)
                visit(c, ok and not nested and not cond)
    visit(node, True)
    return out


def _bind(helper, call, drop_self):
    a = helper.args
    if a.kwarg or a.posonlyargs:
        return None
    pos = [x.arg for x in a.args][1 if drop_self else 0:]
    binds = {}
    extra = None
    if len(call.args) > len(pos):
        if not a.vararg:
            return None
        extra = call.args[len(pos):]
    for p, v in zip(pos, call.args):
        binds[p] = v
    names = pos + [x.arg for x in a.kwonlyargs]
    for k in call.keywords:
        if k.arg not in names or k.arg in binds:
            return None
        binds[k.arg] = k.value
    allpos = [x.arg for x in a.args]
    defaults = dict(zip(allpos[len(allpos) - len(a.defaults):], a.defaults))
    defaults.update({x.arg: d for x, d in zip(a.kwonlyargs, a.kw_defaults) if d is not None})
    for p in names:
        if p not in binds:
            if p not in defaults:
                return None
            binds[p] = defaults[p]
    out = [(p, binds[p]) for p in names]
    if a.vararg:
        out.append((a.vararg.arg, ast.Tuple(elts=list(extra or []), ctx=ast.Load())))
    return out


def _expand(helper, call, caller_names, drop_self, want_value, mode=None):
    """-> (statements, result expression or None) or None when the helper cannot be inlined here."""
    binds = _bind(helper, call, drop_self)
    if binds is None:
        return None
    if any(isinstance(n, (ast.Global, ast.Nonlocal)) for n in ast.walk(helper)):
        return None      # the helper writes module / enclosing state under its own declaration: left as a call
    body = helper.body
    if body and isinstance(body[0], ast.Expr) and isinstance(body[0].value, ast.Constant) and isinstance(body[0].value.value, str):
        body = body[1:]
    if not body:
        body = [ast.copy_location(ast.Pass(), helper)]      # a hook with nothing but its docstring
    rets = _returns(helper)
    final = body[-1] if isinstance(body[-1], ast.Return) else None
    early = [r for r in rets if r is not final]
    if want_value and (not rets or any(r.value is None for r in rets) or (final is None and not early)):
        return None
    new = [copy.deepcopy(s) for s in body]
    rebound = {n.id for s_ in body for n in ast.walk(s_) if isinstance(n, ast.Name) and isinstance(n.ctx, (ast.Store, ast.Del))}
    # (a parameter the helper rebinds needs its own copy: the caller's variable of the same name keeps its value)
    same = {p for p, v in binds if isinstance(v, ast.Name) and v.id == p and p not in rebound}
    hl = (_locals(helper) | {p for p, v in binds}) - same - {'self'}
    _counter[0] += 1
    clash = {n: '%s__i%d' % (n, _counter[0]) for n in hl}      # every expansion gets its own copies of the helper's locals
    if clash:
        new = [_Rename(clash).visit(s) for s in new]
    pre = []
    for p, v in binds:
        if p in same:
            continue
        tgt = ast.Name(id=clash.get(p, p), ctx=ast.Store())
        pre.append(ast.copy_location(ast.Assign(targets=[tgt], value=copy.deepcopy(v), lineno=call.lineno), call))
    _counter[0] += 1
    retname = '__inl_ret_%d' % _counter[0]
    result = None
    if mode == 'tail':
        # `return h(..)`: the helper's own returns are the caller's returns
        stmts = pre + new
        if not _terminates(new):
            stmts.append(ast.copy_location(ast.Return(value=ast.Constant(value=None)), call))
        for s in stmts:
            ast.fix_missing_locations(s)
        return stmts, None
    if mode == 'propagate':
        # `v = h(..)` followed by `if v is not None: return v`: returns of provably non-None values stay returns, a final
        # `return None` falls through
        last = new[-1] if isinstance(new[-1], ast.Return) else None
        if last is not None and (last.value is None or (isinstance(last.value, ast.Constant) and last.value.value is None)):
            new = new[:-1]
            last = None
        for r_ in [x for s_ in new for x in _returns_in(s_)]:
            if not _non_none(r_.value):
                return None
        if not new:
            return None
        stmts = pre + new
        for s in stmts:
            ast.fix_missing_locations(s)
        return stmts, None
    if not early:
        if final is not None:
            last = new[-1]
            new = new[:-1]
            if want_value:
                result = last.value
            elif last.value is not None and any(isinstance(x, ast.Call) for x in ast.walk(last.value)):
                new.append(ast.copy_location(ast.Expr(value=last.value), last))
        stmts = pre + new
    elif (structured := _structured(copy.deepcopy(new) + ([] if _terminates(new) or not want_value else [ast.Return(value=ast.Constant(value=None))]), retname, want_value)) is not None:
        stmts = pre + structured
        if want_value:
            result = ast.Name(id=retname, ctx=ast.Load())
            if structured and isinstance(structured[-1], ast.If):
                structured[-1]._retvar = retname
    else:
        class _R(ast.NodeTransformer):
            def visit_Return(self, node):
                out = []
                if want_value:
                    out.append(ast.copy_location(ast.Assign(targets=[ast.Name(id=retname, ctx=ast.Store())], value=node.value, lineno=node.lineno), node))
                elif node.value is not None and any(isinstance(x, ast.Call) for x in ast.walk(node.value)):
                    out.append(ast.copy_location(ast.Expr(value=node.value), node))
                out.append(ast.copy_location(ast.Break(), node))
                return out

            def visit_FunctionDef(self, node):
                return node

            def visit_Lambda(self, node):
                return node

            def visit_For(self, node):
                # a return inside a loop of the helper would need a double break: give up
                raise _GiveUp()

            visit_While = visit_For
        try:
            if any(isinstance(x, ast.Return) for s in new for x in ast.walk(s) if isinstance(s, (ast.For, ast.While))):
                return None
            tr = _R()
            body2 = []
            for s in new:
                if isinstance(s, (ast.For, ast.While)):
                    body2.append(s)
                    continue
                r = tr.visit(s)
                body2.extend(r if isinstance(r, list) else [r])
        except _GiveUp:
            return None
        if not isinstance(body2[-1], ast.Break):
            body2.append(ast.copy_location(ast.Break(), call))
        loop = ast.copy_location(ast.While(test=ast.Constant(value=True), body=body2, orelse=[]), call)
        loop._synthetic = True
        stmts = pre + [loop]
        if want_value:
            result = ast.Name(id=retname, ctx=ast.Load())
    for s in stmts:
        ast.fix_missing_locations(s)
    return stmts, result


class _GiveUp(Exception):
    pass


def _returns_in(node):
    out = []
    stack = [node]
    while stack:
        n = stack.pop()
        if isinstance(n, (ast.FunctionDef, ast.AsyncFunctionDef, ast.Lambda, ast.ClassDef)):
            continue
        if isinstance(n, ast.Return):
            out.append(n)
        stack.extend(ast.iter_child_nodes(n))
    return out


def _non_none(e):
    """Provably not None: a constructor call (capitalised callee), a non-None literal, a list / tuple / dict / set display."""
    if e is None:
        return False
    if isinstance(e, ast.Constant):
        return e.value is not None
    if isinstance(e, (ast.List, ast.Tuple, ast.Dict, ast.Set, ast.ListComp, ast.SetComp, ast.DictComp, ast.JoinedStr)):
        return True
    if isinstance(e, ast.Call) and isinstance(e.func, ast.Name) and (e.func.id[:1].isupper() or e.func.id in ('list', 'dict', 'set', 'tuple', 'sorted', 'str', 'frozenset')):
        return True
    if isinstance(e, ast.BinOp) and isinstance(e.op, ast.Add):
        return _non_none(e.left) or _non_none(e.right)      # a sum with a display is a display (or raises)
    return False


def _has_return(node):
    if isinstance(node, (ast.FunctionDef, ast.AsyncFunctionDef, ast.ClassDef)):
        return False
    stack = [node]
    while stack:
        n = stack.pop()
        if isinstance(n, (ast.FunctionDef, ast.AsyncFunctionDef, ast.Lambda, ast.ClassDef)) and n is not node:
            continue
        if isinstance(n, ast.Return):
            return True
        stack.extend(ast.iter_child_nodes(n))
    return False


def _terminates(block):
    if not block:
        return False
    last = block[-1]
    if isinstance(last, (ast.Return, ast.Raise)):
        return True
    if isinstance(last, ast.If):
        return _terminates(last.body) and _terminates(last.orelse)
    return False


def _structured(block, retname, want_value):
    """Guard clauses turned into if / else: `if c: return X` + rest becomes `if c: ret = X  else: rest'`. None when a return sits
    inside a loop / try / with, or when both branches of a conditional may fall through after a nested return."""
    out = []
    for i, s in enumerate(block):
        if isinstance(s, ast.Return):
            if want_value:
                if s.value is None:
                    return None
                out.append(ast.copy_location(ast.Assign(targets=[ast.Name(id=retname, ctx=ast.Store())], value=s.value, lineno=s.lineno), s))
            elif s.value is not None and any(isinstance(x, ast.Call) for x in ast.walk(s.value)):
                out.append(ast.copy_location(ast.Expr(value=s.value), s))
            return out
        if not _has_return(s):
            out.append(s)
            continue
        if isinstance(s, (ast.For, ast.While)) and not s.orelse and want_value:
            # `for ..: if c: return X` + rest  ->  `for ..: if c: ret = X; break` + `else: rest'` (the loop has no break of its own)
            inner = [x for st_ in s.body for x in ast.walk(st_)]
            if any(isinstance(x, (ast.Break, ast.For, ast.While, ast.Try, ast.With, ast.FunctionDef, ast.Lambda)) for x in inner):
                return None
            if any(r_.value is None for st_ in s.body for r_ in _returns_in(st_)):
                return None

            class _RB(ast.NodeTransformer):
                def visit_Return(self, node):
                    return [ast.copy_location(ast.Assign(targets=[ast.Name(id=retname, ctx=ast.Store())], value=node.value, lineno=node.lineno), node),
                            ast.copy_location(ast.Break(), node)]
            rest = _structured(block[i + 1:], retname, want_value)
            if rest is None or not _terminates(block[i + 1:]):
                return None
            s2 = copy.copy(s)
            s2.body = []
            for st_ in s.body:
                r_ = _RB().visit(st_)
                s2.body.extend(r_ if isinstance(r_, list) else [r_])
            s2.orelse = rest
            out.append(s2)
            return out
        if isinstance(s, ast.Try) and i == len(block) - 1 and not s.finalbody:
            # a try statement in tail position: each of its blocks is in tail position too
            s2 = copy.copy(s)
            parts = [_structured(s.body, retname, want_value) if not s.orelse else (None if _has_return(ast.Module(body=s.body, type_ignores=[])) else s.body)]
            if parts[0] is None:
                return None
            s2.body = parts[0] or [ast.copy_location(ast.Pass(), s)]
            if s.orelse:
                o_ = _structured(s.orelse, retname, want_value)
                if o_ is None:
                    return None
                s2.orelse = o_
            hs = []
            for h in s.handlers:
                hb = _structured(h.body, retname, want_value)
                if hb is None:
                    return None
                h2 = copy.copy(h)
                h2.body = hb or [ast.copy_location(ast.Pass(), h)]
                hs.append(h2)
            s2.handlers = hs
            out.append(s2)
            return out
        if not isinstance(s, ast.If):
            return None
        b = _structured(s.body, retname, want_value)
        o = _structured(s.orelse, retname, want_value)
        if b is None or o is None:
            return None
        bt, ot = _terminates(s.body), _terminates(s.orelse)
        rest = block[i + 1:]
        if not (bt and ot):
            if not bt and not ot:
                # both branches may fall through after a nested return: the continuation is copied into both (bounded)
                if sum(1 for st_ in rest for _x in ast.walk(st_) if isinstance(_x, ast.stmt)) > 120:
                    return None
                b = _structured(list(s.body) + [copy.deepcopy(st_) for st_ in rest], retname, want_value)
                o = _structured(list(s.orelse) + [copy.deepcopy(st_) for st_ in rest], retname, want_value)
                if b is None or o is None:
                    return None
                new = ast.copy_location(ast.If(test=s.test, body=b or [ast.copy_location(ast.Pass(), s)], orelse=o), s)
                out.append(new)
                return out
            rr = _structured(rest, retname, want_value)
            if rr is None:
                return None
            if bt:
                o = o + rr
            else:
                b = b + rr
        new = ast.copy_location(ast.If(test=s.test, body=b or [ast.copy_location(ast.Pass(), s)], orelse=o), s)
        out.append(new)
        return out
    return out


def _replace(stmt, call, result):
    """Replace `call` inside stmt by the result expression (in place)."""
    for n in ast.walk(stmt):
        for fld, val in ast.iter_fields(n):
            if val is call:
                setattr(n, fld, result)
                return True
            if isinstance(val, list):
                for i, c in enumerate(val):
                    if c is call:
                        val[i] = result
                        return True
    return False


class _Subst(ast.NodeTransformer):
    def __init__(self, mapping):
        self.mapping = mapping

    def visit_Name(self, node):
        if isinstance(node.ctx, ast.Load) and node.id in self.mapping:
            return copy.deepcopy(self.mapping[node.id])
        return node


def _expression_helper(helper, allow_scopes=False):
    """The returned expression when the helper is just `return <expr>` (after an optional docstring). Expressions that open a scope of
    their own (lambda, comprehension) qualify only on request: substituting into them is safe for constant arguments."""
    body = helper.body
    if body and isinstance(body[0], ast.Expr) and isinstance(body[0].value, ast.Constant) and isinstance(body[0].value.value, str):
        body = body[1:]
    if len(body) == 1 and isinstance(body[0], ast.Return) and body[0].value is not None:
        e = body[0].value
        if any(isinstance(x, (ast.NamedExpr, ast.Yield, ast.YieldFrom, ast.Await)) for x in ast.walk(e)):
            return None
        if allow_scopes or not any(isinstance(x, (ast.Lambda, ast.ListComp, ast.SetComp, ast.DictComp, ast.GeneratorExp)) for x in ast.walk(e)):
            return e
    return None


def _inline_expression_helpers(fn, helpers, names_ok, is_method):
    """Replace calls of one-expression helpers by that expression (arguments substituted), wherever they occur."""
    changed = True
    rounds = 0
    while changed and rounds < 4:
        changed = False
        rounds += 1
        for st in ast.walk(fn):
            for name, call, ok in (_helper_calls(st, names_ok, is_method) if isinstance(st, ast.stmt) and not isinstance(st, (ast.FunctionDef, ast.ClassDef)) else []):
                helper = helpers[name]
                e = _expression_helper(helper)
                if e is None and all(isinstance(a, ast.Constant) for a in call.args) and all(isinstance(k.value, ast.Constant) for k in call.keywords):
                    e = _expression_helper(helper, allow_scopes=True)
                    if e is not None:
                        pn_ = set(_params(helper))
                        inner_ = {a.arg for x in ast.walk(e) if isinstance(x, ast.Lambda) for a in x.args.args} | \
                            {t.id for x in ast.walk(e) if isinstance(x, ast.comprehension) for t in ast.walk(x.target) if isinstance(t, ast.Name)}
                        if pn_ & inner_:
                            e = None
                if e is None or any(isinstance(a, ast.Starred) for a in call.args) or any(k.arg is None for k in call.keywords):
                    continue
                drop_self = is_method and not any(isinstance(d, ast.Name) and d.id == 'staticmethod' for d in helper.decorator_list)
                binds = _bind(helper, call, drop_self)
                if binds is None:
                    continue
                # every argument is evaluated exactly once in the original; keep that property: parameters used more than once need simple arguments
                uses = {}
                for x in ast.walk(e):
                    if isinstance(x, ast.Name):
                        uses[x.id] = uses.get(x.id, 0) + 1
                if any(uses.get(p, 0) != 1 and not isinstance(v, (ast.Name, ast.Constant, ast.Attribute)) for p, v in binds):
                    continue
                new = _Subst(dict(binds)).visit(copy.deepcopy(e))
                if _replace(st, call, new):
                    ast.fix_missing_locations(st)
                    changed = True
                    break
            if changed:
                break


def _leaves(ifnode, r):
    """The blocks of an if / else nest that end by assigning r; None when some path ends otherwise (raise excepted)."""
    res = []
    for blk in (ifnode.body, ifnode.orelse):
        if not blk:
            return None
        last = blk[-1]
        if isinstance(last, ast.Assign) and len(last.targets) == 1 and isinstance(last.targets[0], ast.Name) and last.targets[0].id == r:
            res.append(blk)
        elif isinstance(last, ast.If):
            sub = _leaves(last, r)
            if sub is None:
                return None
            res += sub
        elif isinstance(last, ast.Raise):
            continue
        else:
            return None
    return res


def _decide(test, tv, v, scope):
    """Static truth value of `test` (which reads only tv) when tv holds the value of expression v; None when unknown."""
    from .cfg import atoms
    at = atoms(test, True)
    if len(at) != 1:
        return None
    op, l, r_ = at[0]
    if l != tv:
        return None
    is_none = isinstance(v, ast.Constant) and v.value is None
    non_none = _non_none(v)
    if isinstance(v, ast.Name):
        defs = [n.value for n in ast.walk(scope) if isinstance(n, ast.Assign) and any(isinstance(t, ast.Name) and t.id == v.id for t in n.targets)]
        others = [n for n in ast.walk(scope) if isinstance(n, (ast.For, ast.AugAssign, ast.With, ast.NamedExpr))
                  and any(isinstance(x, ast.Name) and x.id == v.id and isinstance(x.ctx, ast.Store) for x in ast.walk(n.target if isinstance(n, (ast.For, ast.AugAssign, ast.NamedExpr)) else n))]
        non_none = bool(defs) and not others and all(_non_none(d) for d in defs)
    if op in ('is', 'is not') and r_ == 'None':
        if is_none:
            return op == 'is'
        if non_none:
            return op == 'is not'
        return None
    if op in ('truthy', 'falsy') and r_ == '':
        if isinstance(v, ast.Constant):
            return bool(v.value) == (op == 'truthy')
        if isinstance(v, (ast.List, ast.Dict, ast.Tuple, ast.Set)):
            n_el = len(v.keys) if isinstance(v, ast.Dict) else len(v.elts)
            return (n_el > 0) == (op == 'truthy')
    return None


def _thread(block):
    """After a structured inlining `if ..: ret = A  else: ret = B` followed by `[x = ret]  if T(x): S`, the continuation is moved
    into every branch and decided there when the branch's value settles T (a form of jump threading; always behaviour preserving
    because the moved statements follow the conditional on every path)."""
    i = 0
    while i < len(block):
        st = block[i]
        r = getattr(st, '_retvar', None)
        if not (isinstance(st, ast.If) and r):
            i += 1
            continue
        leaves = _leaves(st, r)
        j = i + 1
        tv = r
        moved = []
        if j < len(block) and isinstance(block[j], ast.Assign) and len(block[j].targets) == 1 and isinstance(block[j].targets[0], ast.Name) \
                and isinstance(block[j].value, ast.Name) and block[j].value.id == r:
            tv = block[j].targets[0].id
            moved.append(block[j])
            j += 1
        ok = leaves and j < len(block) and isinstance(block[j], ast.If) and \
            {x.id for x in ast.walk(block[j].test) if isinstance(x, ast.Name)} - {'len', 'bool'} == {tv}
        if not ok:
            i += 1
            continue
        cont = block[j]
        for leaf in leaves:
            v = leaf[-1].value
            d = _decide(cont.test, tv, v, st)
            pre = [copy.deepcopy(m) for m in moved]
            if d is True:
                leaf.extend(pre + [copy.deepcopy(x) for x in cont.body])
            elif d is False:
                leaf.extend(pre + [copy.deepcopy(x) for x in cont.orelse])
            else:
                leaf.extend(pre + [copy.deepcopy(cont)])
        del block[i + 1:j + 1]
        st._retvar = None
        i += 1


def _rewrite_function(fn, helpers, names_ok, is_method, failed):
    caller_names = _locals(fn) | set(_params(fn))

    def head_exprs(st):
        """Expressions of a compound statement evaluated once before its body (hoistable); None for loop tests."""
        if isinstance(st, ast.If):
            return [st.test]
        if isinstance(st, ast.For):
            return [st.iter]
        if isinstance(st, ast.With):
            return [i.context_expr for i in st.items]
        if isinstance(st, ast.While):
            return None
        return None

    def propagate_pattern(st, nxt):
        """`v = h(..)` directly followed by `if v is not None: return v` (v not used elsewhere) -> the helper call"""
        if not (isinstance(st, ast.Assign) and len(st.targets) == 1 and isinstance(st.targets[0], ast.Name) and isinstance(st.value, ast.Call)):
            return None
        v = st.targets[0].id
        if not (isinstance(nxt, ast.If) and not nxt.orelse and len(nxt.body) == 1 and isinstance(nxt.body[0], ast.Return)
                and isinstance(nxt.body[0].value, ast.Name) and nxt.body[0].value.id == v):
            return None
        t = nxt.test
        if not (isinstance(t, ast.Compare) and isinstance(t.left, ast.Name) and t.left.id == v and len(t.ops) == 1 and isinstance(t.ops[0], ast.IsNot)
                and isinstance(t.comparators[0], ast.Constant) and t.comparators[0].value is None):
            return None
        if sum(1 for x in ast.walk(fn) if isinstance(x, ast.Name) and x.id == v) != 3:
            return None
        cs = _helper_calls(st, names_ok, is_method)
        if len(cs) == 1 and cs[0][1] is st.value and cs[0][2] and cs[0][0] not in failed:
            return cs[0]
        return None

    def rewrite(block):
        out = []
        skip = False
        for idx, st in enumerate(block):
            if skip:
                skip = False
                continue
            if isinstance(st, (ast.FunctionDef, ast.AsyncFunctionDef, ast.ClassDef)):
                out.append(st)
                continue
            pp = propagate_pattern(st, block[idx + 1]) if idx + 1 < len(block) else None
            if pp is not None:
                helper = helpers[pp[0]]
                drop_self = is_method and not any(isinstance(d, ast.Name) and d.id == 'staticmethod' for d in helper.decorator_list)
                exp = _expand(helper, pp[1], caller_names, drop_self, want_value=False, mode='propagate')
                if exp is not None:
                    out.extend(exp[0])
                    skip = True
                    continue
            if isinstance(st, ast.Return) and isinstance(st.value, ast.Call):
                cs = _helper_calls(st, names_ok, is_method)
                if len(cs) == 1 and cs[0][1] is st.value and cs[0][2] and cs[0][0] not in failed:
                    helper = helpers[cs[0][0]]
                    drop_self = is_method and not any(isinstance(d, ast.Name) and d.id == 'staticmethod' for d in helper.decorator_list)
                    if len(_returns(helper)) > 1 or any(isinstance(x, ast.Return) for s_ in helper.body if isinstance(s_, (ast.For, ast.While, ast.Try, ast.With)) for x in ast.walk(s_)):
                        exp = _expand(helper, cs[0][1], caller_names, drop_self, want_value=False, mode='tail')
                        if exp is not None:
                            out.extend(exp[0])
                            continue
            compound = isinstance(st, (ast.If, ast.For, ast.While, ast.With, ast.Try))
            scope = st if not compound else None
            calls = []
            if not compound:
                calls = _helper_calls(st, names_ok, is_method)
            else:
                hs = head_exprs(st)
                for h in hs or []:
                    calls += _helper_calls(h, names_ok, is_method)
                if isinstance(st, ast.While):
                    for c in _helper_calls(st.test, names_ok, is_method):
                        failed.add(c[0])      # (one-expression helpers were already substituted)
            calls = [c for c in calls if c[0] not in failed]
            # several helper calls in one statement: expand them one by one, in evaluation order, as long as each is hoistable
            while len(calls) > 1 and all(c[2] for c in calls) and not (isinstance(st, ast.Expr) and st.value is calls[0][1]):
                name, call, _ = calls[0]
                helper = helpers[name]
                drop_self = is_method and not any(isinstance(d, ast.Name) and d.id == 'staticmethod' for d in helper.decorator_list)
                exp = _expand(helper, call, caller_names, drop_self, want_value=True)
                if exp is None or exp[1] is None:
                    failed.add(name)
                    break
                _replace(st, call, exp[1])
                out.extend(exp[0])
                calls = calls[1:]
            calls = [c for c in calls if c[0] not in failed]
            if len(calls) == 1 and calls[0][2]:
                name, call, _ = calls[0]
                helper = helpers[name]
                drop_self = is_method and not any(isinstance(d, ast.Name) and d.id == 'staticmethod' for d in helper.decorator_list)
                whole_expr = isinstance(st, ast.Expr) and st.value is call
                whole_ret = isinstance(st, ast.Return) and st.value is call
                exp = _expand(helper, call, caller_names, drop_self, want_value=not whole_expr)
                if exp is None:
                    failed.add(name)
                else:
                    stmts, result = exp
                    if whole_expr:
                        out.extend(stmts or [ast.copy_location(ast.Pass(), st)])
                        continue
                    if result is None:
                        failed.add(name)
                    else:
                        _replace(st, call, result)
                        out.extend(stmts)
            elif calls:
                for c in calls:
                    failed.add(c[0])
            if compound:
                for fld in ('body', 'orelse', 'finalbody'):
                    blk = getattr(st, fld, None)
                    if isinstance(blk, list) and blk and isinstance(blk[0], ast.stmt):
                        setattr(st, fld, rewrite(blk))
                if isinstance(st, ast.Try):
                    for h in st.handlers:
                        h.body = rewrite(h.body)
            out.append(st)
        _thread(out)
        return out
    fn.body = rewrite(fn.body)


def _desugar_comprehensions(fn, names, is_method):
    """`x = [f(v) for v in it if c]` / `return [..]` whose element calls a new helper becomes an explicit accumulation loop, so that
    the helper call sits in a statement position and can be inlined (list comprehensions with one generator only)."""
    def rewrite(block):
        out = []
        for st in block:
            if isinstance(st, (ast.FunctionDef, ast.AsyncFunctionDef, ast.ClassDef)):
                out.append(st)
                continue
            for fld in ('body', 'orelse', 'finalbody'):
                blk = getattr(st, fld, None)
                if isinstance(blk, list) and blk and isinstance(blk[0], ast.stmt):
                    setattr(st, fld, rewrite(blk))
            if isinstance(st, ast.Try):
                for h in st.handlers:
                    h.body = rewrite(h.body)
            # x = h(..) if c else d   ->   if c: x = h(..)  else: x = d      (the helper call sits in a conditionally evaluated branch)
            if isinstance(st, (ast.Assign, ast.Return)) and isinstance(st.value, ast.IfExp) and (not isinstance(st, ast.Assign) or len(st.targets) == 1) and \
                    [c for c in _helper_calls(ast.Expr(value=st.value.body), names, is_method) + _helper_calls(ast.Expr(value=st.value.orelse), names, is_method) if c[2]] and \
                    not _helper_calls(ast.Expr(value=st.value.test), names, is_method):
                def mk(v_):
                    n_ = ast.Return(value=v_) if isinstance(st, ast.Return) else ast.Assign(targets=[copy.deepcopy(st.targets[0])], value=v_, lineno=st.lineno)
                    return ast.copy_location(n_, st)
                if_ = ast.copy_location(ast.If(test=st.value.test, body=[mk(st.value.body)], orelse=[mk(st.value.orelse)]), st)
                ast.fix_missing_locations(if_)
                out.extend(rewrite([if_]))
                continue
            comp = None
            if isinstance(st, ast.Expr) and isinstance(st.value, ast.Call) and isinstance(st.value.func, ast.Attribute) and st.value.func.attr == 'extend' \
                    and len(st.value.args) == 1 and not st.value.keywords and isinstance(st.value.args[0], (ast.GeneratorExp, ast.ListComp)) \
                    and isinstance(st.value.func.value, ast.Name):
                # acc.extend(h(x) for x in xs)  ->  for x in xs: acc.append(h(x))
                c_ = st.value.args[0]
                if len(c_.generators) == 1 and not c_.generators[0].is_async and [c for c in _helper_calls(ast.Expr(value=c_.elt), names, is_method) if c[2]]:
                    g = c_.generators[0]
                    app = ast.Expr(value=ast.Call(func=ast.Attribute(value=ast.Name(id=st.value.func.value.id, ctx=ast.Load()), attr='append', ctx=ast.Load()), args=[c_.elt], keywords=[]))
                    body = [app]
                    for cnd in reversed(g.ifs):
                        body = [ast.If(test=cnd, body=body, orelse=[])]
                    loop = ast.For(target=g.target, iter=g.iter, body=body, orelse=[], lineno=st.lineno)
                    ast.copy_location(loop, st)
                    ast.fix_missing_locations(loop)
                    out.append(loop)
                    continue
            if isinstance(st, ast.Return) and isinstance(st.value, ast.ListComp):
                comp = st.value
            elif isinstance(st, ast.Assign) and len(st.targets) == 1 and isinstance(st.value, ast.ListComp):
                comp = st.value
            if comp is None or len(comp.generators) != 1 or comp.generators[0].is_async or \
                    not [c for c in _helper_calls(ast.Expr(value=comp.elt), names, is_method) if c[2]]:
                out.append(st)
                continue
            g = comp.generators[0]
            _counter[0] += 1
            if isinstance(st, ast.Assign) and isinstance(st.targets[0], ast.Name) and not any(isinstance(x, ast.Name) and x.id == st.targets[0].id for x in ast.walk(comp)):
                acc = st.targets[0].id
            else:
                acc = '__comp_%d' % _counter[0]
            init = ast.Assign(targets=[ast.Name(id=acc, ctx=ast.Store())], value=ast.List(elts=[], ctx=ast.Load()), lineno=st.lineno)
            app = ast.Expr(value=ast.Call(func=ast.Attribute(value=ast.Name(id=acc, ctx=ast.Load()), attr='append', ctx=ast.Load()), args=[comp.elt], keywords=[]))
            body = [app]
            for c in reversed(g.ifs):
                body = [ast.If(test=c, body=body, orelse=[])]
            loop = ast.For(target=g.target, iter=g.iter, body=body, orelse=[], lineno=st.lineno)
            new = [init, loop]
            if isinstance(st, ast.Return):
                new.append(ast.Return(value=ast.Name(id=acc, ctx=ast.Load())))
            elif not (isinstance(st.targets[0], ast.Name) and acc == st.targets[0].id):
                new.append(ast.Assign(targets=st.targets, value=ast.Name(id=acc, ctx=ast.Load()), lineno=st.lineno))
            for n in new:
                ast.copy_location(n, st)
                ast.fix_missing_locations(n)
            out.extend(new)
        return out
    fn.body = rewrite(fn.body)


def _qualifies(tree, scope_funcs, helpers, is_method):
    """Helpers all of whose references are plain calls in hoistable positions inside scope_funcs."""
    names = set(helpers)
    refs = {n: 0 for n in names}
    # references from a module-level table that nothing reads any more (its loop was unrolled) do not count
    loaded = {x.id for x in ast.walk(tree) if isinstance(x, ast.Name) and isinstance(x.ctx, ast.Load)}
    dead = set()
    for st in getattr(tree, 'body', []):
        if isinstance(st, ast.Assign) and len(st.targets) == 1 and isinstance(st.targets[0], ast.Name) and st.targets[0].id not in loaded \
                and isinstance(st.value, (ast.Tuple, ast.List, ast.Dict)):
            dead |= {id(x) for x in ast.walk(st)}
    for n in ast.walk(tree):
        if id(n) in dead:
            continue
        if is_method and isinstance(n, ast.Attribute) and n.attr in refs:
            refs[n.attr] += 1
        if not is_method and isinstance(n, ast.Name) and n.id in refs and isinstance(n.ctx, ast.Load):
            refs[n.id] += 1
        if isinstance(n, ast.Constant) and isinstance(n.value, str) and n.value in refs:
            refs[n.value] += 100
    calls = {n: 0 for n in names}
    for f in scope_funcs:
        for st in f.body:
            for name, call, ok in _helper_calls(st, names, is_method):
                if name == f.name:
                    continue      # recursion: excluded below
                calls[name] += 1 if (ok or _expression_helper(helpers[name]) is not None) else 1000
    out = set()
    for n in names:
        h = helpers[n]
        selfrefs = [x for x in ast.walk(h) if (is_method and isinstance(x, ast.Attribute) and x.attr == n) or (not is_method and isinstance(x, ast.Name) and x.id == n)]
        calls_other = [c for st in h.body for c in _helper_calls(st, names - {n}, is_method)]
        if refs[n] == calls[n] and calls[n] > 0 and not selfrefs and not calls_other:
            out.add(n)
    return out


def _single_return(helper):
    """The returned expression of a function that consists of `return <expr>` only (after an optional docstring)."""
    body = helper.body
    if body and isinstance(body[0], ast.Expr) and isinstance(body[0].value, ast.Constant) and isinstance(body[0].value.value, str):
        body = body[1:]
    if len(body) == 1 and isinstance(body[0], ast.Return) and body[0].value is not None and \
            not any(isinstance(x, (ast.Yield, ast.YieldFrom, ast.Await, ast.NamedExpr)) for x in ast.walk(body[0].value)):
        return body[0].value
    return None


def local_functions_pass(tree):
    """Second run of the nested-function pass, after forward substitution has reduced `t = E; return f(t)` bodies to one expression."""
    done = []
    for fn in [n for n in ast.walk(tree) if isinstance(n, ast.FunctionDef)]:
        _inline_local_expression_functions(fn, done)
    return done


def _inline_local_expression_functions(fn, done):
    """A nested `def g(a, b): return <expr>` (or `g = lambda a, b: <expr>`) that is only ever called inside fn is substituted at
    its call sites (late binding of its free variables = evaluation at the call site) and dropped."""
    cands = {}
    for blk_owner in ast.walk(fn):
        for fld in ('body', 'orelse', 'finalbody'):
            blk = getattr(blk_owner, fld, None)
            if not isinstance(blk, list):
                continue
            for st in blk:
                if isinstance(st, ast.FunctionDef) and st is not fn and not st.decorator_list and _single_return(st) is not None:
                    cands[st.name] = (st, blk)
    for name, (g, blk) in list(cands.items()):
        refs = [n for n in ast.walk(fn) if isinstance(n, ast.Name) and n.id == name]
        callfuncs = {id(c.func) for c in ast.walk(fn) if isinstance(c, ast.Call) and isinstance(c.func, ast.Name) and c.func.id == name}
        binders = [n for n in ast.walk(fn) if isinstance(n, ast.FunctionDef) and n.name == name]
        inside = {id(n) for n in ast.walk(g)}
        if not refs or len(binders) != 1 or any(id(r_) in inside for r_ in refs):
            continue
        if any(id(r_) not in callfuncs for r_ in refs):
            # handed around as a value (a key function, an entry of a dict of predicates): it stands for the lambda of the same body
            a_ = g.args
            plain = not (a_.vararg or a_.kwarg or a_.kwonlyargs or a_.posonlyargs) and all(isinstance(r_.ctx, ast.Load) for r_ in refs)
            if plain and len(refs) <= 3:
                # the call sites first (the expression with the arguments substituted), then the remaining references become lambdas
                if callfuncs and _expression_helper(g, allow_scopes=True) is not None and \
                        not any(isinstance(a, ast.Starred) for c in ast.walk(fn) if isinstance(c, ast.Call) and id(c.func) in callfuncs for a in c.args):
                    _inline_expression_helpers(fn, {name: g}, {name}, False)
                    refs = [n for n in ast.walk(fn) if isinstance(n, ast.Name) and n.id == name and id(n) not in {id(x) for x in ast.walk(g)}]
                    still_called = {id(c.func) for c in ast.walk(fn) if isinstance(c, ast.Call) and isinstance(c.func, ast.Name) and c.func.id == name}
                    if any(id(r_) in still_called for r_ in refs):
                        continue
                for r_ in refs:
                    lam = ast.Lambda(args=copy.deepcopy(a_), body=copy.deepcopy(_single_return(g)))
                    for x in lam.args.args:
                        x.annotation = None
                    for par in ast.walk(fn):
                        for fld, val in ast.iter_fields(par):
                            if val is r_:
                                setattr(par, fld, ast.copy_location(lam, r_))
                            elif isinstance(val, list):
                                for i_, c_ in enumerate(val):
                                    if c_ is r_:
                                        val[i_] = ast.copy_location(lam, r_)
                    ast.fix_missing_locations(lam)
                if not any(isinstance(n, ast.Name) and n.id == name for n in ast.walk(fn)):
                    blk.remove(g)
                    if not blk:
                        blk.append(ast.copy_location(ast.Pass(), g))
                    done.append('%s.<locals>.%s' % (fn.name, name))
            continue
        if any(isinstance(a, ast.Starred) for c in ast.walk(fn) if isinstance(c, ast.Call) and id(c.func) in callfuncs for a in c.args):
            continue
        if _expression_helper(g, allow_scopes=True) is None:
            continue
        _inline_expression_helpers(fn, {name: g}, {name}, False)
        if not any(isinstance(n, ast.Name) and n.id == name for n in ast.walk(fn)):
            blk.remove(g)
            if not blk:
                blk.append(ast.copy_location(ast.Pass(), g))
            done.append('%s.<locals>.%s' % (fn.name, name))


def inline_new_helpers(tree, modname, known):
    """Rewrite tree in place. Returns the list of helpers that were inlined (for the evidence)."""
    done = []
    if known is None:
        return done
    for fn in [n for n in ast.walk(tree) if isinstance(n, ast.FunctionDef)]:
        _inline_local_expression_functions(fn, done)
    for _pass in range(2):
        # methods
        for cls in [n for n in tree.body if isinstance(n, ast.ClassDef)]:
            methods = {m.name: m for m in cls.body if isinstance(m, ast.FunctionDef)}
            new = {name: m for name, m in methods.items()
                   if name.startswith('_') and not name.startswith('__') and ('%s:%s.%s' % (modname, cls.name, name)) not in known
                   and all(isinstance(d, ast.Name) and d.id == 'staticmethod' for d in m.decorator_list)}
            if not new:
                continue
            for m in methods.values():
                _desugar_comprehensions(m, set(new), True)
            ok = _qualifies(tree, list(methods.values()), new, True)
            if not ok:
                continue
            failed = set()
            for m in methods.values():
                if m.name not in ok:
                    _inline_expression_helpers(m, new, ok, True)
                    _rewrite_function(m, new, ok, True, failed)
            for name in sorted(ok):
                left = any(isinstance(x, ast.Attribute) and x.attr == name for m in methods.values() if m.name != name for x in ast.walk(m))
                if not left and new[name] in cls.body:
                    cls.body.remove(new[name])
                    done.append('%s.%s' % (cls.name, name))
        # module-level functions
        funcs = {f.name: f for f in tree.body if isinstance(f, ast.FunctionDef)}
        new = {name: f for name, f in funcs.items() if name.startswith('_') and not name.startswith('__') and ('%s:%s' % (modname, name)) not in known and not f.decorator_list}
        if new:
            allf = [n for n in ast.walk(tree) if isinstance(n, ast.FunctionDef)]
            for f in allf:
                _desugar_comprehensions(f, set(new), False)
            ok = _qualifies(tree, allf, new, False)
            if ok:
                failed = set()
                for f in allf:
                    if f.name not in ok:
                        _inline_expression_helpers(f, new, ok, False)
                        _rewrite_function(f, new, ok, False, failed)
                for name in sorted(ok):
                    left = any(isinstance(x, ast.Name) and x.id == name and isinstance(x.ctx, ast.Load) for f in allf if f.name != name for x in ast.walk(f))
                    if not left and new[name] in tree.body:
                        tree.body.remove(new[name])
                        done.append(name)
    return done
