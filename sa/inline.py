"""Inlining of NEW private helpers (stated bound: one level, statement-level calls only).

A behaviour-preserving "extract method" refactoring moves a block of an anchored method into a new private method of the
same class. The rules speak about the anchored methods, so before analysis every private method that is not part of the
reference tree (sa/anchors.txt: the qualified names of the functions that existed when the rules were written) and that is
only ever called as `self._h(..)` at statement level from methods of its own class is substituted for its call sites, and
its definition is dropped. Anything else (recursive helpers, helpers with early returns outside a loop-body tail position,
helpers used as values, helpers called from other classes) is left alone and analysed as an ordinary function."""
import ast
import copy
import os

ANCHORS = os.path.join(os.path.dirname(os.path.abspath(__file__)), 'anchors.txt')


def known_functions():
    if not os.path.exists(ANCHORS):
        return None
    with open(ANCHORS) as f:
        return {l.strip() for l in f if l.strip() and not l.startswith('#')}


def _locals(fn):
    out = set()
    for n in ast.walk(fn):
        if isinstance(n, ast.Name) and isinstance(n.ctx, (ast.Store, ast.Del)):
            out.add(n.id)
    return out


def _params(fn):
    a = fn.args
    return [x.arg for x in a.posonlyargs + a.args + a.kwonlyargs]


class _Rename(ast.NodeTransformer):
    def __init__(self, mapping):
        self.mapping = mapping

    def visit_Name(self, node):
        if node.id in self.mapping:
            node.id = self.mapping[node.id]
        return node

    def visit_arg(self, node):
        return node


def _returns(fn):
    out = []
    stack = list(fn.body)
    while stack:
        n = stack.pop()
        if isinstance(n, (ast.FunctionDef, ast.AsyncFunctionDef, ast.Lambda, ast.ClassDef)):
            continue
        if isinstance(n, ast.Return):
            out.append(n)
        stack.extend(ast.iter_child_nodes(n))
    return out


def _call_of(stmt, cls_methods):
    """(helper name, call node, kind) when stmt is `self._h(..)`, `x = self._h(..)` or `return self._h(..)`."""
    call = None
    kind = None
    if isinstance(stmt, ast.Expr) and isinstance(stmt.value, ast.Call):
        call, kind = stmt.value, 'expr'
    elif isinstance(stmt, ast.Assign) and isinstance(stmt.value, ast.Call) and len(stmt.targets) == 1:
        call, kind = stmt.value, 'assign'
    elif isinstance(stmt, ast.Return) and isinstance(stmt.value, ast.Call):
        call, kind = stmt.value, 'return'
    if call is None:
        return None
    f = call.func
    if isinstance(f, ast.Attribute) and isinstance(f.value, ast.Name) and f.value.id == 'self' and f.attr in cls_methods:
        if any(isinstance(a, ast.Starred) for a in call.args) or any(k.arg is None for k in call.keywords):
            return None
        return f.attr, call, kind
    return None


def _bind(helper, call):
    """[(param, arg expr)] or None."""
    a = helper.args
    if a.vararg or a.kwarg or a.posonlyargs:
        return None
    pos = [x.arg for x in a.args][1:]          # drop self
    binds = {}
    if len(call.args) > len(pos):
        return None
    for p, v in zip(pos, call.args):
        binds[p] = v
    names = pos + [x.arg for x in a.kwonlyargs]
    for k in call.keywords:
        if k.arg not in names or k.arg in binds:
            return None
        binds[k.arg] = k.value
    defaults = dict(zip(pos[len(pos) - len(a.defaults):], a.defaults))
    defaults.update({x.arg: d for x, d in zip(a.kwonlyargs, a.kw_defaults) if d is not None})
    for p in names:
        if p not in binds:
            if p not in defaults:
                return None
            binds[p] = defaults[p]
    return [(p, binds[p]) for p in names]


def _inline_body(helper, call, kind, stmt, caller_names, in_loop_tail):
    binds = _bind(helper, call)
    if binds is None:
        return None
    rets = _returns(helper)
    body = helper.body
    if body and isinstance(body[0], ast.Expr) and isinstance(body[0].value, ast.Constant) and isinstance(body[0].value.value, str):
        body = body[1:]
    final = body[-1] if body and isinstance(body[-1], ast.Return) else None
    early = [r for r in rets if r is not final]
    if early and not (kind == 'expr' and in_loop_tail and all(r.value is None for r in early)):
        return None
    if kind in ('assign', 'return') and (final is None or final.value is None):
        return None
    new = [copy.deepcopy(s) for s in body]
    # rename helper locals that clash with names of the caller (parameters bound to a same-named argument keep their name)
    same = {p for p, v in binds if isinstance(v, ast.Name) and v.id == p}
    hl = (_locals(helper) | {p for p, v in binds}) - same - {'self'}
    clash = {n: n + '__inl' for n in hl if n in caller_names}
    if clash:
        new = [_Rename(clash).visit(s) for s in new]
    pre = []
    for p, v in binds:
        if p in same:
            continue
        tgt = ast.Name(id=clash.get(p, p), ctx=ast.Store())
        pre.append(ast.copy_location(ast.Assign(targets=[tgt], value=copy.deepcopy(v), lineno=stmt.lineno), stmt))
    out = pre + new
    if final is not None:
        last = out[-1]
        if kind == 'expr':
            out = out[:-1] + ([ast.copy_location(ast.Expr(value=last.value), last)] if last.value is not None and any(isinstance(x, ast.Call) for x in ast.walk(last.value)) else [])
        elif kind == 'assign':
            out = out[:-1] + [ast.copy_location(ast.Assign(targets=copy.deepcopy(stmt.targets), value=last.value, lineno=last.lineno), last)]
        # kind == 'return': keep the return
    if early:
        class _R2C(ast.NodeTransformer):
            def visit_Return(self, node):
                return ast.copy_location(ast.Continue(), node)

            def visit_FunctionDef(self, node):
                return node

            def visit_Lambda(self, node):
                return node
        out = [_R2C().visit(s) for s in out]
    for s in out:
        ast.fix_missing_locations(s)
    return out or [ast.copy_location(ast.Pass(), stmt)]


def inline_new_helpers(tree, modname, known):
    """Rewrite tree in place. Returns the list of helpers that were inlined (for the evidence)."""
    done = []
    if known is None:
        return done
    for cls in [n for n in tree.body if isinstance(n, ast.ClassDef)]:
        methods = {m.name: m for m in cls.body if isinstance(m, ast.FunctionDef)}
        new_helpers = {name: m for name, m in methods.items()
                       if name.startswith('_') and not name.startswith('__') and ('%s:%s.%s' % (modname, cls.name, name)) not in known
                       and not m.decorator_list}
        if not new_helpers:
            continue
        # a helper qualifies when every reference to it in the module is a statement-level self-call inside this class
        refs = {name: 0 for name in new_helpers}
        for n in ast.walk(tree):
            if isinstance(n, ast.Attribute) and n.attr in refs:
                refs[n.attr] += 1
            if isinstance(n, ast.Constant) and isinstance(n.value, str) and n.value in refs:
                refs[n.value] += 100
        stmt_calls = {name: 0 for name in new_helpers}
        for m in methods.values():
            for n in ast.walk(m):
                for fld in ('body', 'orelse', 'finalbody'):
                    blk = getattr(n, fld, None)
                    if isinstance(blk, list):
                        for st in blk:
                            if isinstance(st, ast.stmt):
                                c = _call_of(st, new_helpers)
                                if c:
                                    stmt_calls[c[0]] += 1
        ok = {name for name in new_helpers if refs[name] == stmt_calls[name] and stmt_calls[name] > 0
              and not any(isinstance(x, ast.Attribute) and x.attr == name for x in ast.walk(new_helpers[name]))}     # not recursive
        # helpers calling other new helpers: inline innermost first, bounded to one level (a helper that still calls a new helper is skipped)
        ok = {name for name in ok if not any(_call_of(st, new_helpers) for n in ast.walk(new_helpers[name])
                                             for fld in ('body', 'orelse') for st in (getattr(n, fld, None) or []) if isinstance(st, ast.stmt))}
        if not ok:
            continue
        failed = set()
        for m in methods.values():
            if m.name in ok:
                continue
            caller_names = _locals(m) | set(_params(m))

            def rewrite(block, loop_tail):
                out = []
                for i, st in enumerate(block):
                    c = _call_of(st, ok)
                    if c and c[0] not in failed:
                        body = _inline_body(new_helpers[c[0]], c[1], c[2], st, caller_names, loop_tail and i == len(block) - 1)
                        if body is None:
                            failed.add(c[0])
                            out.append(st)
                        else:
                            out.extend(body)
                        continue
                    for fld in ('body', 'orelse', 'finalbody'):
                        blk = getattr(st, fld, None)
                        if isinstance(blk, list) and blk and isinstance(blk[0], ast.stmt):
                            setattr(st, fld, rewrite(blk, isinstance(st, (ast.For, ast.While)) and fld == 'body'))
                    if isinstance(st, ast.Try):
                        for h in st.handlers:
                            h.body = rewrite(h.body, False)
                    out.append(st)
                return out
            m.body = rewrite(m.body, False)
        for name in sorted(ok - failed):
            # drop the definition only when no call is left
            left = any(isinstance(x, ast.Attribute) and x.attr == name for m in methods.values() if m.name != name for x in ast.walk(m))
            if not left:
                cls.body.remove(new_helpers[name])
                done.append('%s.%s' % (cls.name, name))
    return done
