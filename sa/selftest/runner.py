"""Sensitivity exploration: apply registered variants to the CURRENT tree as in-memory overlays and re-run the rules.
broken variants must produce a finding; twin variants (behaviour-preserving refactorings) must produce none.
Nothing is executed: a variant is only parsed with compile()."""
import importlib
import json
import os
import sys
import time
import traceback
from concurrent.futures import ProcessPoolExecutor

from ..loader import AnalysisError, Tree, REPO
from ..report import Run, load_known


def apply_edits(edits):
    """edits: [(relpath, old, new)] -> overlay dict or None when an anchor text is not (uniquely) present."""
    overlay = {}
    for rel, old, new in edits:
        src = overlay.get(rel)
        if src is None:
            path = os.path.join(REPO, rel)
            if not os.path.exists(path):
                return None
            with open(path, encoding='utf-8') as f:
                src = f.read()
        if src.count(old) != 1:
            return None
        src = src.replace(old, new)
        try:
            compile(src, rel, 'exec')
        except SyntaxError:
            return None
        overlay[rel] = src
    return overlay


def apply_patch(text):
    """Apply a unified diff (as written by `git diff`) to the current files of the repository, in memory: -> overlay or None when a hunk
    does not match the current text exactly (the tree has moved on: the patch is inapplicable, not a verdict)."""
    import re
    overlay = {}
    files = re.split(r'^diff --git .*$', text, flags=re.M)[1:]
    for block in files:
        m = re.search(r'^\+\+\+ b/(\S+)', block, flags=re.M)
        mo = re.search(r'^--- (?:a/(\S+)|/dev/null)', block, flags=re.M)
        if not m or not mo or mo.group(1) is None:
            return None     # new or deleted files are not part of the corpora
        rel = m.group(1)
        if not rel.endswith('.py'):
            continue        # documentation changed along with the code: not analysed
        path = os.path.join(REPO, rel)
        if not os.path.exists(path):
            return None
        with open(path, encoding='utf-8') as f:
            lines = f.read().split('\n')
        out = []
        pos = 0
        hunks = re.split(r'^@@ -(\d+)(?:,(\d+))? \+\d+(?:,\d+)? @@.*$', block, flags=re.M)
        for i in range(1, len(hunks), 3):
            start = int(hunks[i]) - 1
            body = hunks[i + 2].split('\n')[1:]
            if start < pos:
                return None
            out += lines[pos:start]
            pos = start
            for l in body:
                if l.startswith('\\'):
                    continue
                if l.startswith('+'):
                    out.append(l[1:])
                elif l.startswith('-') or l.startswith(' '):
                    if pos >= len(lines) or lines[pos] != l[1:]:
                        return None
                    if l.startswith(' '):
                        out.append(l[1:])
                    pos += 1
                elif l == '':
                    # a blank context line whose leading space was stripped, or the end of the hunk
                    if pos < len(lines) and lines[pos] == '' and body[-1] is not l:
                        out.append('')
                        pos += 1
        out += lines[pos:]
        src = '\n'.join(out)
        try:
            compile(src, rel, 'exec')
        except SyntaxError:
            return None
        overlay[rel] = src
    return overlay or None


def corpus_variants(prop):
    """The committed corpora as variants: seeded changes of this property must be reported, every refactoring twin must stay silent."""
    base = os.path.dirname(os.path.dirname(os.path.dirname(os.path.abspath(__file__))))
    out = []
    for kind, sub in (('broken', 'seeded'), ('twin', 'twins')):
        d = os.path.join(base, sub)
        if not os.path.isdir(d):
            continue
        for name in sorted(os.listdir(d)):
            pf = os.path.join(d, name, 'patch.diff')
            if not os.path.exists(pf) or (sub == 'seeded' and not name.startswith(prop + '-')):
                continue
            with open(pf, encoding='utf-8') as f:
                out.append({'name': '%s/%s' % (sub, name), 'kind': kind, 'prop': prop, 'overlay': apply_patch(f.read())})
    return out


_BASE = {}


def baseline_keys(prop):
    if prop not in _BASE:
        try:
            mod = importlib.import_module('sa.rules.' + prop.lower())
            run = Run(prop, Tree())
            run.guard(mod.check, run)
            _BASE[prop] = {f.key for f in run.findings}
        except Exception:
            _BASE[prop] = set()
    return _BASE[prop]


def eval_variant(prop, variant):
    name, kind = variant['name'], variant['kind']
    overlay = variant['overlay'] if 'overlay' in variant else apply_edits(variant['edits'])
    if overlay is None:
        return {'name': name, 'kind': kind, 'result': 'inapplicable'}
    try:
        mod = importlib.import_module('sa.rules.' + prop.lower())
        run = Run(prop, Tree(overlay=overlay))
        run.guard(mod.check, run)
        known = {k['key'] for k in load_known() if k.get('property') == prop and k.get('status') == 'known'}
        base = baseline_keys(prop)
        new = [f for f in run.findings if f.key not in known and f.key not in base]
        if run.analysis_errors and not new:
            return {'name': name, 'kind': kind, 'result': 'analysis-error', 'error': '; '.join(run.analysis_errors)[:200]}
        return {'name': name, 'kind': kind, 'result': 'fired' if new else 'silent',
                'findings': [f.key for f in new][:6], 'analysis_errors': run.analysis_errors[:2]}
    except AnalysisError as e:
        return {'name': name, 'kind': kind, 'result': 'analysis-error', 'error': str(e)[:200]}
    except Exception:
        return {'name': name, 'kind': kind, 'result': 'crash', 'error': traceback.format_exc()[-400:]}


def _job(args):
    return args[0], eval_variant(*args)


def variants_for(prop):
    from . import variants
    return [v for v in variants.VARIANTS if v['prop'] == prop]


def explore(prop, seed=0, pool=None):
    vs = variants_for(prop)
    t0 = time.time()
    from . import autotwins as at
    auto = at.variants()
    corp = corpus_variants(prop)
    with ProcessPoolExecutor(max_workers=min(16, os.cpu_count() or 4)) as ex:
        results = [r for _, r in ex.map(_job, [(prop, v) for v in vs])]
        auto_results = [r for _, r in ex.map(_job, [(prop, v) for v in auto], chunksize=2)]
        corp_results = [r for _, r in ex.map(_job, [(prop, v) for v in corp], chunksize=2)]
    br = [r for r in results if r['kind'] == 'broken']
    tw = [r for r in results if r['kind'] == 'twin']
    cb = [r for r in corp_results if r['kind'] == 'broken']
    ct = [r for r in corp_results if r['kind'] == 'twin']
    return {
        'seeded_changes': len(cb),
        'seeded_reported': sum(1 for r in cb if r['result'] == 'fired'),
        'seeded_not_reported': [r for r in cb if r['result'] not in ('fired', 'inapplicable')],
        'refactoring_twins': len(ct),
        'refactoring_twins_silent': sum(1 for r in ct if r['result'] == 'silent'),
        'refactoring_twins_not_silent': [r for r in ct if r['result'] not in ('silent', 'inapplicable')],
        'corpus_inapplicable': [r['name'] for r in corp_results if r['result'] == 'inapplicable'],
        'variants': len(vs),
        'broken_fired': sum(1 for r in br if r['result'] == 'fired'),
        'broken_silent': [r['name'] for r in br if r['result'] == 'silent'],
        'broken_analysis_error': [r['name'] for r in br if r['result'] in ('analysis-error', 'crash')],
        'twins_silent': sum(1 for r in tw if r['result'] == 'silent'),
        'twins_fired': [r['name'] for r in tw if r['result'] not in ('silent', 'inapplicable')],
        'inapplicable': [r['name'] for r in results if r['result'] == 'inapplicable'],
        'autotwins': len(auto_results),
        'autotwins_silent': sum(1 for r in auto_results if r['result'] == 'silent'),
        'autotwins_not_silent': [r for r in auto_results if r['result'] not in ('silent', 'inapplicable')],
        'details': results,
        'wall_s': round(time.time() - t0, 2),
    }


def autotwins(props):
    """Every automatic twin of every module against every selected property."""
    from . import autotwins as at
    vs = at.variants()
    jobs = [(p, v) for v in vs for p in props]
    bad = []
    t0 = time.time()
    with ProcessPoolExecutor(max_workers=min(16, os.cpu_count() or 4)) as ex:
        for p, r in ex.map(_job, jobs, chunksize=4):
            if r['result'] not in ('silent', 'inapplicable'):
                bad.append((p, r))
    print('autotwins: %d twins x %d properties = %d runs, %d not silent (%.0fs)' % (len(vs), len(props), len(jobs), len(bad), time.time() - t0))
    for p, r in bad:
        print('   %s %s -> %s %s' % (p, r['name'], r['result'], r.get('findings') or r.get('error')))
    return len(bad)


def main(props, seed=0):
    from ..main import PROPS
    if props and props[0] == 'auto':
        return 1 if autotwins([p.upper() for p in props[1:]] or PROPS) else 0
    props = [p.upper() for p in props] or PROPS
    bad = 0
    for p in props:
        res = explore(p, seed)
        print('%s: %d variants; broken fired %d, silent %s, analysis-error %s; twins silent %d, fired %s; inapplicable %s; autotwins %d/%d silent (%.1fs)' % (
            p, res['variants'], res['broken_fired'], res['broken_silent'], res['broken_analysis_error'],
            res['twins_silent'], res['twins_fired'], res['inapplicable'], res['autotwins_silent'], res['autotwins'], res['wall_s']))
        for r in res['autotwins_not_silent']:
            print('   ', r)
        bad += len(res['autotwins_not_silent'])
        print('    corpora: seeded %d/%d reported, refactorings %d/%d silent, inapplicable %d' % (
            res['seeded_reported'], res['seeded_changes'], res['refactoring_twins_silent'], res['refactoring_twins'], len(res['corpus_inapplicable'])))
        for r in res['seeded_not_reported'] + res['refactoring_twins_not_silent']:
            print('   ', r)
        bad += len(res['seeded_not_reported']) + len(res['refactoring_twins_not_silent'])
        for r in res['details']:
            if r['result'] in ('crash',) or (r['kind'] == 'twin' and r['result'] != 'silent'):
                print('   ', r)
        bad += len(res['broken_silent']) + len(res['twins_fired']) + len(res['broken_analysis_error'])
    return 1 if bad else 0
