"""Sensitivity exploration: apply registered variants to the CURRENT tree as in-memory overlays and re-run the rules.
broken variants must produce a finding; twin variants (behaviour-preserving refactorings) must produce none.
Nothing is executed: a variant is only parsed with compile()."""
import importlib
import json
import os
import sys
import time
import traceback
from concurrent.futures import ProcessPoolExecutor

from ..loader import AnalysisError, Tree, REPO
from ..report import Run, load_known


def apply_edits(edits):
    """edits: [(relpath, old, new)] -> overlay dict or None when an anchor text is not (uniquely) present."""
    overlay = {}
    for rel, old, new in edits:
        src = overlay.get(rel)
        if src is None:
            path = os.path.join(REPO, rel)
            if not os.path.exists(path):
                return None
            with open(path, encoding='utf-8') as f:
                src = f.read()
        if src.count(old) != 1:
            return None
        src = src.replace(old, new)
        try:
            compile(src, rel, 'exec')
        except SyntaxError:
            return None
        overlay[rel] = src
    return overlay


_BASE = {}


def baseline_keys(prop):
    if prop not in _BASE:
        try:
            mod = importlib.import_module('sa.rules.' + prop.lower())
            run = Run(prop, Tree())
            run.guard(mod.check, run)
            _BASE[prop] = {f.key for f in run.findings}
        except Exception:
            _BASE[prop] = set()
    return _BASE[prop]


def eval_variant(prop, variant):
    name, kind = variant['name'], variant['kind']
    overlay = variant['overlay'] if 'overlay' in variant else apply_edits(variant['edits'])
    if overlay is None:
        return {'name': name, 'kind': kind, 'result': 'inapplicable'}
    try:
        mod = importlib.import_module('sa.rules.' + prop.lower())
        run = Run(prop, Tree(overlay=overlay))
        run.guard(mod.check, run)
        known = {k['key'] for k in load_known() if k.get('property') == prop and k.get('status') == 'known'}
        base = baseline_keys(prop)
        new = [f for f in run.findings if f.key not in known and f.key not in base]
        if run.analysis_errors and not new:
            return {'name': name, 'kind': kind, 'result': 'analysis-error', 'error': '; '.join(run.analysis_errors)[:200]}
        return {'name': name, 'kind': kind, 'result': 'fired' if new else 'silent',
                'findings': [f.key for f in new][:6], 'analysis_errors': run.analysis_errors[:2]}
    except AnalysisError as e:
        return {'name': name, 'kind': kind, 'result': 'analysis-error', 'error': str(e)[:200]}
    except Exception:
        return {'name': name, 'kind': kind, 'result': 'crash', 'error': traceback.format_exc()[-400:]}


def _job(args):
    return args[0], eval_variant(*args)


def variants_for(prop):
    from . import variants
    return [v for v in variants.VARIANTS if v['prop'] == prop]


def explore(prop, seed=0, pool=None):
    vs = variants_for(prop)
    t0 = time.time()
    from . import autotwins as at
    auto = at.variants()
    with ProcessPoolExecutor(max_workers=min(16, os.cpu_count() or 4)) as ex:
        results = [r for _, r in ex.map(_job, [(prop, v) for v in vs])]
        auto_results = [r for _, r in ex.map(_job, [(prop, v) for v in auto], chunksize=2)]
    br = [r for r in results if r['kind'] == 'broken']
    tw = [r for r in results if r['kind'] == 'twin']
    return {
        'variants': len(vs),
        'broken_fired': sum(1 for r in br if r['result'] == 'fired'),
        'broken_silent': [r['name'] for r in br if r['result'] == 'silent'],
        'broken_analysis_error': [r['name'] for r in br if r['result'] in ('analysis-error', 'crash')],
        'twins_silent': sum(1 for r in tw if r['result'] == 'silent'),
        'twins_fired': [r['name'] for r in tw if r['result'] not in ('silent', 'inapplicable')],
        'inapplicable': [r['name'] for r in results if r['result'] == 'inapplicable'],
        'autotwins': len(auto_results),
        'autotwins_silent': sum(1 for r in auto_results if r['result'] == 'silent'),
        'autotwins_not_silent': [r for r in auto_results if r['result'] not in ('silent', 'inapplicable')],
        'details': results,
        'wall_s': round(time.time() - t0, 2),
    }


def autotwins(props):
    """Every automatic twin of every module against every selected property."""
    from . import autotwins as at
    vs = at.variants()
    jobs = [(p, v) for v in vs for p in props]
    bad = []
    t0 = time.time()
    with ProcessPoolExecutor(max_workers=min(16, os.cpu_count() or 4)) as ex:
        for p, r in ex.map(_job, jobs, chunksize=4):
            if r['result'] not in ('silent', 'inapplicable'):
                bad.append((p, r))
    print('autotwins: %d twins x %d properties = %d runs, %d not silent (%.0fs)' % (len(vs), len(props), len(jobs), len(bad), time.time() - t0))
    for p, r in bad:
        print('   %s %s -> %s %s' % (p, r['name'], r['result'], r.get('findings') or r.get('error')))
    return len(bad)


def main(props, seed=0):
    from ..main import PROPS
    if props and props[0] == 'auto':
        return 1 if autotwins([p.upper() for p in props[1:]] or PROPS) else 0
    props = [p.upper() for p in props] or PROPS
    bad = 0
    for p in props:
        res = explore(p, seed)
        print('%s: %d variants; broken fired %d, silent %s, analysis-error %s; twins silent %d, fired %s; inapplicable %s; autotwins %d/%d silent (%.1fs)' % (
            p, res['variants'], res['broken_fired'], res['broken_silent'], res['broken_analysis_error'],
            res['twins_silent'], res['twins_fired'], res['inapplicable'], res['autotwins_silent'], res['autotwins'], res['wall_s']))
        for r in res['autotwins_not_silent']:
            print('   ', r)
        bad += len(res['autotwins_not_silent'])
        for r in res['details']:
            if r['result'] in ('crash',) or (r['kind'] == 'twin' and r['result'] != 'silent'):
                print('   ', r)
        bad += len(res['broken_silent']) + len(res['twins_fired']) + len(res['broken_analysis_error'])
    return 1 if bad else 0
