"""Automatically generated behaviour-preserving twins of the CURRENT tree (metamorphic tests of the checker itself):
  reformat:<module>   the module re-printed by ast.unparse (formatting, parentheses, comments, quote style change)
  rename:<module>     every local variable of every function of the module consistently renamed (parameters, globals and attributes kept)
  logging:<module>    an inert statement inserted at the top of every function body
A twin must not change any verdict. Nothing is executed."""
import ast
import builtins
import os

from ..loader import Tree, REPO


def _locals_of(fn):
    """Names bound inside fn (not parameters, not global/nonlocal), including by nested comprehensions but not nested defs."""
    params = {a.arg for a in fn.args.posonlyargs + fn.args.args + fn.args.kwonlyargs}
    if fn.args.vararg:
        params.add(fn.args.vararg.arg)
    if fn.args.kwarg:
        params.add(fn.args.kwarg.arg)
    declared = set()
    bound = set()
    stack = list(fn.body)
    while stack:
        n = stack.pop()
        if isinstance(n, (ast.FunctionDef, ast.AsyncFunctionDef, ast.ClassDef)):
            bound.add(n.name) if False else None
            continue
        if isinstance(n, ast.Lambda):
            continue
        if isinstance(n, (ast.Global, ast.Nonlocal)):
            declared |= set(n.names)
        if isinstance(n, ast.Name) and isinstance(n.ctx, (ast.Store, ast.Del)):
            bound.add(n.id)
        if isinstance(n, ast.ExceptHandler) and n.name:
            bound.add(n.name)
        if isinstance(n, (ast.Import, ast.ImportFrom)):
            continue
        stack.extend(ast.iter_child_nodes(n))
    return {b for b in bound if b not in params and b not in declared and not b.startswith('__')}


class _Renamer(ast.NodeTransformer):
    def __init__(self, mapping):
        self.mapping = mapping

    def visit_Name(self, node):
        if node.id in self.mapping:
            node.id = self.mapping[node.id]
        return node

    def visit_ExceptHandler(self, node):
        if node.name in self.mapping:
            node.name = self.mapping[node.name]
        self.generic_visit(node)
        return node

    def _nested(self, node, params):
        shadow = {k: v for k, v in self.mapping.items() if k not in params}
        saved = self.mapping
        self.mapping = shadow
        self.generic_visit(node)
        self.mapping = saved
        return node

    def visit_Lambda(self, node):
        return self._nested(node, {a.arg for a in node.args.args + node.args.kwonlyargs})

    def visit_FunctionDef(self, node):
        # nested function: its own params shadow; its own locals are renamed separately
        params = {a.arg for a in node.args.posonlyargs + node.args.args + node.args.kwonlyargs}
        own = _locals_of(node)
        return self._nested(node, params | own)


def rename_locals(src):
    tree = ast.parse(src)
    for fn in [n for n in ast.walk(tree) if isinstance(n, (ast.FunctionDef, ast.AsyncFunctionDef))]:
        names = _locals_of(fn)
        # nested function names that are called by name must keep working: they are bound by def, not renamed
        mapping = {n: n + '_rn' for n in names if not hasattr(builtins, n)}
        if not mapping:
            continue
        r = _Renamer(mapping)
        fn.body = [r.visit(st) for st in fn.body]
    return ast.unparse(tree)


def reformat(src):
    return ast.unparse(ast.parse(src))


def add_logging(src):
    tree = ast.parse(src)
    for fn in [n for n in ast.walk(tree) if isinstance(n, (ast.FunctionDef, ast.AsyncFunctionDef))]:
        stmt = ast.parse('_verif_trace = None').body[0]
        i = 1 if fn.body and isinstance(fn.body[0], ast.Expr) and isinstance(fn.body[0].value, ast.Constant) and isinstance(fn.body[0].value.value, str) else 0
        fn.body.insert(i, stmt)
    return ast.unparse(tree)


KINDS = {'reformat': reformat, 'rename': rename_locals, 'logging': add_logging}


def variants():
    tree = Tree()
    out = []
    for mod in tree.modules.values():
        if mod.name == 'sismic.code.context' or mod.relpath.endswith('__init__.py'):
            continue
        for kind, f in KINDS.items():
            try:
                new = f(mod.src)
                compile(new, mod.relpath, 'exec')
            except Exception as e:
                continue
            if new != mod.src:
                out.append({'name': '%s:%s' % (kind, mod.relpath), 'kind': 'twin', 'overlay': {mod.relpath: new}})
    return out
