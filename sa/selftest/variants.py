"""Variant corpus: one-instance-broken variants (must fire) and refactoring twins (must stay silent).
Each edit is (relative path, exact text occurring once in today's file, replacement)."""
D = 'sismic/interpreter/default.py'
PY = 'sismic/code/python.py'
EV = 'sismic/code/evaluator.py'
SC = 'sismic/model/statechart.py'
EL = 'sismic/model/elements.py'
ST = 'sismic/model/steps.py'
DD = 'sismic/io/datadict.py'
YM = 'sismic/io/yaml.py'
CK = 'sismic/clock/clock.py'
LI = 'sismic/interpreter/listener.py'
RU = 'sismic/runner/runner.py'
BS = 'sismic/bdd/steps.py'
BE = 'sismic/bdd/environment.py'
TE = 'sismic/testing.py'
UT = 'sismic/utilities.py'

VARIANTS = []


def V(prop, name, kind, *edits):
    VARIANTS.append({'prop': prop, 'name': name, 'kind': kind, 'edits': list(edits)})


def B(prop, name, *edits):
    V(prop, name, 'broken', *edits)


def T(prop, name, *edits):
    V(prop, name, 'twin', *edits)


# ---------------------------------------------------------------- C05
B('C05', 'bisect_left', (D, 'bisect.bisect_right(', 'bisect.bisect_left('))
B('C05', 'strict due test', (D, 'if time <= self.time:', 'if time < self.time:'))
B('C05', 'external first', (D, '(self._internal_queue, self._external_queue)):', '(self._external_queue, self._internal_queue)):'))
B('C05', 'pop last', (D, 'queue.pop(0)', 'queue.pop()'))
B('C05', 'due from clock', (D, "time = self.time + getattr(event, 'delay', 0)", "time = self.clock.time + getattr(event, 'delay', 0)"))
B('C05', 'unmatched event never consumed', (D, 'return [MicroStep(event=event)]', 'return []'))
B('C05', 'insert at head', (D, 'queue.insert(position, (time, event))', 'queue.insert(0, (time, event))'))
B('C05', 'unconditional consume', (D, 'if computed_steps[0].event is not None:\n                event = self._select_event(consume=True)',
                                    'if True:\n                event = self._select_event(consume=True)'))
B('C05', 'always pop', (D, 'if consume:\n                        queue.pop(0)', 'if True:\n                        queue.pop(0)'))
B('C05', 'send makes plain Event', (PY, "sent_events.append(InternalEvent(name, **kwargs))", "sent_events.append(Event(name, **kwargs))"))
B('C05', 'send drops kwargs', (PY, "sent_events.append(InternalEvent(name, **kwargs))", "sent_events.append(InternalEvent(name))"))
B('C05', 'queue writer elsewhere', (D, "self._listeners.remove(listener)", "self._listeners.remove(listener)\n        self._external_queue.clear()"))
B('C05', 'eventless step keeps event', (D, 'event = None if transitions[0].event is None else event', 'event = event'))
B('C05', 'internal events into external queue', (D, 'if isinstance(event, InternalEvent):\n            queue = cast(List[Tuple[float, Event]], self._internal_queue)',
                                               'if not isinstance(event, InternalEvent):\n            queue = cast(List[Tuple[float, Event]], self._internal_queue)'))
B('C05', 'peek second entry', (D, 'time, event = queue[0]', 'time, event = queue[-1]'))
T('C05', 'flipped due comparison', (D, 'if time <= self.time:', 'if self.time >= time:'))
T('C05', 'truthiness for len', (D, 'for queue in cast(\n                Tuple[List[Tuple[float, Event]]],\n                (self._internal_queue, self._external_queue)):\n            if len(queue) > 0:',
                                 'for queue in cast(\n                Tuple[List[Tuple[float, Event]]],\n                (self._internal_queue, self._external_queue)):\n            if queue:'))
T('C05', 'merged ifs', (D, 'if time <= self.time:\n                    if consume:\n                        queue.pop(0)\n                    return event',
                         'if time <= self.time and consume:\n                    queue.pop(0)\n                if time <= self.time:\n                    return event'))
T('C05', 'renamed position', (D, 'position = bisect.bisect_right(', 'idx = bisect.bisect_right('), (D, 'queue.insert(position, (time, event))', 'queue.insert(idx, (time, event))'))

# ---------------------------------------------------------------- C01
B('C01', 'drop priority-class exit', (D, "                            ignored_states.add(source)\n                            break\n", "                            ignored_states.add(source)\n"))
B('C01', 'hoist ignore-add out of found branch', (D, "                        if has_found_transitions:\n                            for state in ignored_state_selector(source):\n                                ignored_states.add(state)",
   "                        if True:\n                            for state in ignored_state_selector(source):\n                                ignored_states.add(state)"))
B('C01', 'exposed_event = event', (D, 'exposed_event = event if has_event else None', 'exposed_event = event'))
B('C01', 'priority direction flipped', (D, 'transitions, key=priority_order, reverse=True):', 'transitions, key=priority_order, reverse=False):'))
B('C01', 'drop previous-class exit', (D, "            if len(selected_transitions) > 0:\n                break\n", "            if len(selected_transitions) > 0:\n                pass\n"))
B('C01', 'drop event=None for eventless', (D, 'event = None if transitions[0].event is None else event', 'event = event if transitions else None'))
B('C01', 'drop source-in-states filter', (D, 'if transition.source in states:', 'if transition.source is not None:'))
B('C01', 'sorted_groupby ignores reverse', (UT, 'return sorted(groups.items(), key=sort_key, reverse=reverse)', 'return sorted(groups.items(), key=sort_key)'))
B('C01', 'depth direction flipped', (D, 'sorted_groupby(transitions, key=depth_order, reverse=inner_first)', 'sorted_groupby(transitions, key=depth_order, reverse=not inner_first)'))
B('C01', 'event name test dropped', (D, "if transition.event is None or transition.event == getattr(event, 'name', None):", "if transition.event is None or event is not None:"))
B('C01', 'eventless_first default off', (D, 'eventless_first=True, inner_first=True) -> List[Transition]:', 'eventless_first=False, inner_first=True) -> List[Transition]:'))
B('C01', 'found flag never reset per source', (D, "                    has_found_transitions = False\n\n                    # Group and sort transitions based on their priority", "                    # Group and sort transitions based on their priority"),
                                              (D, "        ignored_states = set()  # type: Set[str]\n", "        ignored_states = set()  # type: Set[str]\n        has_found_transitions = False\n"))
B('C01', 'guard ignored when selecting', (D, "if transition.guard is None or self._evaluator.evaluate_guard(\n                                    transition, exposed_event):", "if transition.guard is None or self._evaluator.evaluate_guard(\n                                    transition, exposed_event) is not None:"))
B('C01', 'ignored sources not skipped', (D, "                    if source in ignored_states:\n                        continue\n", "                    if source in ignored_states:\n                        pass\n"))
B('C01', 'source not added to ignore set', (D, "                            ignored_states.add(source)\n                            break", "                            break"))
B('C01', 'descendants ignored under inner-first', (D, "        if inner_first:\n            ignored_state_selector = self._statechart.ancestors_for\n        else:\n            ignored_state_selector = self._statechart.descendants_for",
    "        if not inner_first:\n            ignored_state_selector = self._statechart.ancestors_for\n        else:\n            ignored_state_selector = self._statechart.descendants_for"))
B('C01', 'python evaluator hides event', (PY, "                >= self._interpreter._idle_time[transition.source]\n            ),\n            'event': event,", "                >= self._interpreter._idle_time[transition.source]\n            ),\n            'event': None,"))
B('C01', 'groupby drops falsy items', (UT, "    for value in iterable:\n        groups[key(value)].append(value)", "    for value in iterable:\n        if key(value):\n            groups[key(value)].append(value)"))
B('C01', 'selection over leaves only', (D, 'transitions = self._select_transitions(event, states=self._configuration)', 'transitions = self._select_transitions(event, states=self._statechart.leaf_for(self._configuration))'))
T('C01', 'negated priority key', (D, "                        return t.priority\n", "                        return -t.priority\n"), (D, 'transitions, key=priority_order, reverse=True):', 'transitions, key=priority_order, reverse=False):'))
T('C01', 'truthiness of selection', (D, "            if len(selected_transitions) > 0:\n                break", "            if selected_transitions:\n                break"))
T('C01', 'renamed flag', (D, "                    has_found_transitions = False", "                    hit = False"), (D, "                                has_found_transitions = True", "                                hit = True"), (D, "                        if has_found_transitions:", "                        if hit:"))
T('C01', 'nested filter merged', (D, "            if transition.source in states:\n                if transition.event is None or transition.event == getattr(event, 'name', None):\n                    # Compute order based on depth\n                    if transition.source not in _state_depth_cache:\n                        _state_depth_cache[transition.source] = self._statechart.depth_for(\n                            transition.source)\n\n                    considered_transitions.append(transition)",
   "            if transition.source in states and (\n                    transition.event is None or transition.event == getattr(event, 'name', None)):\n                if transition.source not in _state_depth_cache:\n                    _state_depth_cache[transition.source] = self._statechart.depth_for(\n                        transition.source)\n                considered_transitions.append(transition)"))
T('C01', 'early continue filter', (D, "            if transition.source in states:\n                if transition.event is None or transition.event == getattr(event, 'name', None):\n                    # Compute order based on depth\n                    if transition.source not in _state_depth_cache:\n                        _state_depth_cache[transition.source] = self._statechart.depth_for(\n                            transition.source)\n\n                    considered_transitions.append(transition)",
   "            if transition.source not in states:\n                continue\n            if transition.event is not None and transition.event != getattr(event, 'name', None):\n                continue\n            if transition.source not in _state_depth_cache:\n                _state_depth_cache[transition.source] = self._statechart.depth_for(\n                    transition.source)\n            considered_transitions.append(transition)"))

# ---------------------------------------------------------------- C03
_ACTION = "            sent_events.extend(self._evaluator.execute_action(step.transition, step.event))\n"
B('C03', 'action before the exit loop',
  (D, "        # Exit states\n        for state in exited_states:", "        if step.transition:\n            sent_events.extend(self._evaluator.execute_action(step.transition, step.event))\n        # Exit states\n        for state in exited_states:"),
  (D, _ACTION + "\n            # Postconditions and invariants", "\n            # Postconditions and invariants"))
B('C03', 'entry code result dropped', (D, "sent_events.extend(self._evaluator.execute_on_entry(state))", "self._evaluator.execute_on_entry(state)"))
B('C03', 'append instead of insert(0)', (D, "entered_states.insert(0, state)", "entered_states.append(state)"))
B('C03', 'exit list reversal removed (after F5 fix: sort by +depth)', (D, "key=lambda s: (-self._statechart.depth_for(s), s)):\n                # Only leave states", "key=lambda s: (self._statechart.depth_for(s), s)):\n                # Only leave states"))
B('C03', 'MacroStep.exited_states reads entered_states', (ST, "            states += step.exited_states", "            states += step.entered_states"))
B('C03', 'stabilize result dropped', (D, "executed_steps.extend(self._stabilize())", "self._stabilize()"))
B('C03', 'returned MicroStep without sent_events', (D, "entered_states=step.entered_states, exited_states=step.exited_states,\n                         sent_events=sent_events)", "entered_states=step.entered_states, exited_states=step.exited_states)"))
B('C03', 'entry loop reversed', (D, "        for state in entered_states:\n            # Preconditions", "        for state in reversed(entered_states):\n            # Preconditions"))
B('C03', 'configuration updated before entry code', (D, "            sent_events.extend(self._evaluator.execute_on_entry(state))\n\n            # Update configuration\n            self._configuration.add(state.name)", "            self._configuration.add(state.name)\n            sent_events.extend(self._evaluator.execute_on_entry(state))\n"))
B('C03', 'state removed before exit code', (D, "            # Execute exit action\n            sent_events.extend(self._evaluator.execute_on_exit(state))\n", "            self._configuration.discard(state.name)\n            sent_events.extend(self._evaluator.execute_on_exit(state))\n"))
B('C03', 'stabilisation after all transitions', (D, "                executed_steps.append(self._apply_step(step))\n                executed_steps.extend(self._stabilize())", "                executed_steps.append(self._apply_step(step))\n            executed_steps.extend(self._stabilize())"))
B('C03', 'returned entered list differs', (D, "entered_states=step.entered_states, exited_states=step.exited_states,\n                         sent_events", "entered_states=step.exited_states, exited_states=step.exited_states,\n                         sent_events"))
B('C03', 'transitions sorted shallowest first', (D, "transitions, key=lambda t: (-self._statechart.depth_for(t.source), t.source))", "transitions, key=lambda t: (self._statechart.depth_for(t.source), t.source))"))
B('C03', 'stabilization step unreported', (D, "            steps.append(self._apply_step(step))\n            step = self._create_stabilization_step", "            self._apply_step(step)\n            step = self._create_stabilization_step"))
B('C03', 'MacroStep.sent_events reversed', (ST, "            for event in step.sent_events:\n                events.append(event)", "            for event in reversed(step.sent_events):\n                events.append(event)"))
B('C03', 'MacroStep.transitions keeps None', (ST, "return [step.transition for step in self._steps if step.transition]", "return [step.transition for step in self._steps]"))
B('C03', 'events raised before entry', (D, "        # Enter states\n        for state in entered_states:", "        for event in sent_events:\n            self._raise_event(event)\n        sent_events = []\n        # Enter states\n        for state in entered_states:"))
B('C03', 'history sorted deepest first', (D, "states_to_enter.sort(key=lambda x: (self._statechart.depth_for(x), x))", "states_to_enter.sort(key=lambda x: (-self._statechart.depth_for(x), x))"))
T('C03', 'renamed collection list', (D, "        sent_events = []  # type: List[Event]\n\n        # Exit states", "        sent_events = collected = []  # type: List[Event]\n\n        # Exit states"))
T('C03', 'independent statements swapped', (D, "            self._entry_time[state.name] = self.time\n            self._idle_time[state.name] = self.time", "            self._idle_time[state.name] = self.time\n            self._entry_time[state.name] = self.time"))
T('C03', 'list comprehension for map', (D, "entered_states = list(map(self._statechart.state_for, step.entered_states))", "entered_states = [self._statechart.state_for(n) for n in step.entered_states]"))

# ---------------------------------------------------------------- C07
B('C07', 'stabilisation leaves unsorted', (D, "        leaves = sorted([self._statechart.state_for(name) for name in leaves_names],\n                        key=lambda s: (-self._statechart.depth_for(s.name), s.name))", "        leaves = [self._statechart.state_for(name) for name in leaves_names]"))
B('C07', 'orthogonal children unsorted', (D, "return MicroStep(entered_states=sorted(self._statechart.children_for(leaf.name)))", "return MicroStep(entered_states=list(self._statechart.children_for(leaf.name)))"))
B('C07', 'configuration unsorted', (D, "return sorted(self._configuration, key=lambda s: (self._statechart.depth_for(s), s))", "return list(self._configuration)"))
B('C07', 'transition sort key without the source name', (D, "transitions, key=lambda t: (-self._statechart.depth_for(t.source), t.source))", "transitions, key=lambda t: -self._statechart.depth_for(t.source))"))
B('C07', 'history restoration unsorted', (D, "                states_to_enter.sort(key=lambda x: (self._statechart.depth_for(x), x))\n", ""))
B('C07', 'history sorted by depth only', (D, "states_to_enter.sort(key=lambda x: (self._statechart.depth_for(x), x))", "states_to_enter.sort(key=lambda x: self._statechart.depth_for(x))"))
B('C07', 'leaves sorted by depth only', (D, "key=lambda s: (-self._statechart.depth_for(s.name), s.name))", "key=lambda s: -self._statechart.depth_for(s.name))"))
B('C07', 'id() in a sort key', (D, "transitions, key=lambda t: (-self._statechart.depth_for(t.source), t.source))", "transitions, key=lambda t: (-self._statechart.depth_for(t.source), t.source, id(t)))"))
B('C07', 'invariants over the raw set', (D, "configuration = self.configuration  # Use self.configuration to benefit from the sorting", "configuration = self._configuration"))
B('C07', 'F5 (after fix): exit order from children lists', (D, "            for descendant in sorted(\n                    self._statechart.descendants_for(last_before_lca),\n                    key=lambda s: (-self._statechart.depth_for(s), s)):", "            for descendant in self._statechart.descendants_for(last_before_lca)[::-1]:"))
T('C07', 'sorted with reverse and negated key', (D, "return sorted(self._configuration, key=lambda s: (self._statechart.depth_for(s), s))", "return sorted(list(self._configuration), key=lambda s: (self._statechart.depth_for(s), s))"))
T('C07', 'leaves sorted via named key function', (D, "        leaves = sorted([self._statechart.state_for(name) for name in leaves_names],\n                        key=lambda s: (-self._statechart.depth_for(s.name), s.name))", "        def _leaf_key(s):\n            return (-self._statechart.depth_for(s.name), s.name)\n        leaves = sorted([self._statechart.state_for(name) for name in leaves_names], key=_leaf_key)"))

# ---------------------------------------------------------------- C02
B('C02', 'drop stabilize after apply', (D, "                executed_steps.extend(self._stabilize())\n", ""))
B('C02', 'stabilize as a single if', (D, "        while step is not None:\n            steps.append(self._apply_step(step))", "        if step is not None:\n            steps.append(self._apply_step(step))"))
B('C02', 'remove orthogonal leaf branch', (D, "            elif isinstance(leaf, OrthogonalState) and self._statechart.children_for(leaf.name):\n                return MicroStep(entered_states=sorted(self._statechart.children_for(leaf.name)))\n", ""))
B('C02', 'compound enters all children', (D, "return MicroStep(entered_states=[leaf.initial])", "return MicroStep(entered_states=sorted(self._statechart.children_for(leaf.name)))"))
B('C02', 'final branch exits only the leaf', (D, "return MicroStep(exited_states=[leaf.name, cast(str, self._statechart.root)])", "return MicroStep(exited_states=[leaf.name])"))
B('C02', 'second writer of _configuration', (D, "        self._listeners.remove(listener)", "        self._listeners.remove(listener)\n        self._configuration.clear()"))
B('C02', 'exit filter removed', (D, "                if descendant in self._configuration:\n                    exited_states.append(descendant)", "                if True:\n                    exited_states.append(descendant)"))
B('C02', 'F8 reverted (orthogonal completion removed)', (D, "                if len(missing) > 0:\n                    return MicroStep(entered_states=sorted(missing))", "                if len(missing) > 0:\n                    pass"))
B('C02', 'entry walk does not stop at the LCA', (D, "            for state in to_ancestors:\n                if state == lca:\n                    break\n                entered_states.insert(0, state)", "            for state in to_ancestors:\n                entered_states.insert(0, state)"))
B('C02', 'final ignores initialisation', (D, "return self._initialized and len(self._configuration) == 0", "return len(self._configuration) == 0"))
B('C02', 'history state not exited', (D, "return MicroStep(entered_states=states_to_enter, exited_states=[leaf.name])", "return MicroStep(entered_states=states_to_enter)"))
B('C02', 'lca of source and source', (D, "lca = self._statechart.least_common_ancestor(transition.source, transition.target)", "lca = self._statechart.least_common_ancestor(transition.source, transition.source)"))
B('C02', 'stabilisation recomputed conditionally', (D, "            steps.append(self._apply_step(step))\n            step = self._create_stabilization_step(self._configuration)", "            steps.append(self._apply_step(step))\n            step = self._create_stabilization_step(self._configuration) if len(steps) < 3 else None"))
T('C02', 'while step:', (D, "        while step is not None:", "        while step:"))
T('C02', 'discard for remove', (D, "            self._configuration.remove(state.name)", "            self._configuration.discard(state.name)"))

# ---------------------------------------------------------------- C04
B('C04', 'same-source test removed (F3 reverted)', (D, "                if t1.source == t2.source:\n                    raise NonDeterminismError(", "                if False:\n                    raise NonDeterminismError("))
B('C04', 'error classes swapped', (D, "                if not isinstance(lca_state, OrthogonalState):\n                    raise NonDeterminismError(", "                if not isinstance(lca_state, OrthogonalState):\n                    raise ConflictingTransitionsError("))
B('C04', 'adjacent pairs only', (D, "for t1, t2 in combinations(transitions, 2):", "for t1, t2 in zip(transitions, transitions[1:]):"))
B('C04', 'sort after create', (D, "        transitions = self._sort_transitions(transitions)\n\n        # Should the step consume an event?\n        event = None if transitions[0].event is None else event\n\n        return self._create_steps(event, transitions)",
   "        event = None if transitions[0].event is None else event\n        steps = self._create_steps(event, transitions)\n        transitions = self._sort_transitions(transitions)\n        return steps"))
B('C04', 'consume before compute', (D, "        # Compute steps\n        computed_steps = self._compute_steps()\n", "        self._select_event(consume=True)\n        computed_steps = self._compute_steps()\n"))

# a memo that lives during one call of _sort_transitions: sound when the key determines the value, a defect when it does not (the LCA differs per pair)
T('C04', 'per-call memo of the allowed targets keyed by (source, lca)', (D, '            for t1, t2 in combinations(transitions, 2):\n', '            allowed_targets = dict()\n            for t1, t2 in combinations(transitions, 2):\n'), (D, '                for transition in [t1, t2]:\n                    last_before_lca = transition.source\n                    for state in self._statechart.ancestors_for(transition.source):\n                        if state == lca:\n                            break\n                        last_before_lca = state\n                    # Target must be a descendant (or self) of this state\n                    if (transition.target and (transition.target not in [\n                            last_before_lca] + self._statechart.descendants_for(last_before_lca))):\n', '                for transition in [t1, t2]:\n                    region = (transition.source, lca)\n                    if region not in allowed_targets:\n                        last_before_lca = transition.source\n                        for state in self._statechart.ancestors_for(transition.source):\n                            if state == lca:\n                                break\n                            last_before_lca = state\n                        allowed_targets[region] = [last_before_lca] + self._statechart.descendants_for(last_before_lca)\n                    # Target must be a descendant (or self) of this state\n                    if (transition.target and (transition.target not in allowed_targets[region])):\n'))
B('C04', 'per-call memo of the allowed targets keyed by the source only', (D, '            for t1, t2 in combinations(transitions, 2):\n', '            allowed_targets = dict()\n            for t1, t2 in combinations(transitions, 2):\n'), (D, '                for transition in [t1, t2]:\n                    last_before_lca = transition.source\n                    for state in self._statechart.ancestors_for(transition.source):\n                        if state == lca:\n                            break\n                        last_before_lca = state\n                    # Target must be a descendant (or self) of this state\n                    if (transition.target and (transition.target not in [\n                            last_before_lca] + self._statechart.descendants_for(last_before_lca))):\n', '                for transition in [t1, t2]:\n                    region = transition.source\n                    if region not in allowed_targets:\n                        last_before_lca = transition.source\n                        for state in self._statechart.ancestors_for(transition.source):\n                            if state == lca:\n                                break\n                            last_before_lca = state\n                        allowed_targets[region] = [last_before_lca] + self._statechart.descendants_for(last_before_lca)\n                    # Target must be a descendant (or self) of this state\n                    if (transition.target and (transition.target not in allowed_targets[region])):\n'))
B('C04', 'conflict test for t1 only', (D, "for transition in [t1, t2]:", "for transition in [t1]:"))
B('C04', 'swallow execution errors', (D, "        # Compute steps\n        computed_steps = self._compute_steps()\n", "        try:\n            computed_steps = self._compute_steps()\n        except Exception:\n            computed_steps = []\n"))
B('C04', 'decision phase writes memory', (D, "        # Compute transitions order\n        transitions = self._sort_transitions(transitions)", "        self._memory.clear()\n        transitions = self._sort_transitions(transitions)"))
B('C04', 'check only for three or more', (D, "        if len(transitions) > 1:\n            # If more than one transition, we check", "        if len(transitions) > 2:\n            # If more than one transition, we check"))
B('C04', 'conflict ignores targets', (D, "                    if (transition.target and (transition.target not in [\n                            last_before_lca] + self._statechart.descendants_for(last_before_lca))):", "                    if (transition.target and transition.internal and (transition.target not in [\n                            last_before_lca] + self._statechart.descendants_for(last_before_lca))):"))
B('C04', 'guard evaluation raises events', (PY, "        return self._evaluate_code(\n            getattr(transition, 'guard', None),\n            additional_context=additional_context)", "        self._interpreter._sent_events.append(event)\n        return self._evaluate_code(\n            getattr(transition, 'guard', None),\n            additional_context=additional_context)"))
T('C04', 'distinct-sources conjunct', (D, "                if not isinstance(lca_state, OrthogonalState):\n                    raise NonDeterminismError(", "                if t1.source != t2.source and not isinstance(lca_state, OrthogonalState):\n                    raise NonDeterminismError("))

# ---------------------------------------------------------------- C06
B('C06', 'deep/shallow scopes swapped',
  (D, "                        active = active_configuration.intersection(\n                            self._statechart.descendants_for(state.name))", "                        active = active_configuration.intersection(\n                            self._statechart.children_for(state.name))"),
  (D, "                        active = active_configuration.intersection(\n                            self.statechart.children_for(state.name))", "                        active = active_configuration.intersection(\n                            self.statechart.descendants_for(state.name))"))
B('C06', 'live configuration instead of the snapshot', (D, "active_configuration = set(self._configuration)  # Copy", "active_configuration = self._configuration"))
B('C06', 'default fallback dropped', (D, "self._memory.get(leaf.name, [leaf.memory])", "self._memory.get(leaf.name, [])"))
B('C06', 'restoration deepest first', (D, "states_to_enter.sort(key=lambda x: (self._statechart.depth_for(x), x))", "states_to_enter.sort(key=lambda x: (-self._statechart.depth_for(x), x))"))
B('C06', 'history state not exited', (D, "return MicroStep(entered_states=states_to_enter, exited_states=[leaf.name])", "return MicroStep(entered_states=states_to_enter, exited_states=[])"))
B('C06', 'first-write-wins memory', (D, "                        assert len(active) >= 1\n                        self._memory[child.name] = list(active)", "                        assert len(active) >= 1\n                        self._memory.setdefault(child.name, list(active))"))
B('C06', 'save only when the exited state is the transition source', (D, "            if isinstance(state, CompoundState):\n                # Look for an HistoryStateMixin", "            if isinstance(state, CompoundState) and step.transition and step.transition.source == state.name:\n                # Look for an HistoryStateMixin"))
B('C06', 'snapshot taken inside the exit loop', (D, "        active_configuration = set(self._configuration)  # Copy\n", ""), (D, "            # Deal with history\n            if isinstance(state, CompoundState):", "            active_configuration = set(self._configuration)\n            if isinstance(state, CompoundState):"))
B('C06', 'memory keyed by the parent', (D, "                        assert len(active) == 1\n                        self._memory[child.name] = list(active)", "                        assert len(active) == 1\n                        self._memory[state.name] = list(active)"))
B('C06', 'memory written at entry', (D, "            # Update configuration\n            self._configuration.add(state.name)", "            self._memory.pop(state.name, None)\n            self._configuration.add(state.name)"))
B('C06', 'only shallow history restored', (D, "if isinstance(leaf, (ShallowHistoryState, DeepHistoryState)):", "if isinstance(leaf, ShallowHistoryState):"))
B('C06', 'shallow history saves only once', (D, "                        assert len(active) == 1\n                        self._memory[child.name] = list(active)", "                        assert len(active) == 1\n                        if child.name not in self._memory:\n                            self._memory[child.name] = list(active)"))
T('C06', 'frozenset snapshot', (D, "active_configuration = set(self._configuration)  # Copy", "active_configuration = frozenset(self._configuration)"))
T('C06', 'renamed snapshot', (D, "active_configuration = set(self._configuration)  # Copy", "snapshot = active_configuration = set(self._configuration)"))

# ---------------------------------------------------------------- C08
B('C08', 'state postconditions before exit code',
  (D, "            # Execute exit action\n            sent_events.extend(self._evaluator.execute_on_exit(state))\n", "            self._evaluate_contract_conditions(state, 'postconditions', step)\n            sent_events.extend(self._evaluator.execute_on_exit(state))\n"),
  (D, "            # Postconditions\n            self._evaluate_contract_conditions(state, 'postconditions', step)\n", ""))
B('C08', 'transition preconditions after the action',
  (D, "            self._evaluate_contract_conditions(step.transition, 'preconditions', step)\n            self._evaluate_contract_conditions(step.transition, 'invariants', step)\n\n            sent_events.extend(self._evaluator.execute_action(step.transition, step.event))\n",
      "            self._evaluate_contract_conditions(step.transition, 'invariants', step)\n\n            sent_events.extend(self._evaluator.execute_action(step.transition, step.event))\n            self._evaluate_contract_conditions(step.transition, 'preconditions', step)\n"))
B('C08', 'second transition invariant check dropped', (D, "            self._evaluate_contract_conditions(step.transition, 'postconditions', step)\n            self._evaluate_contract_conditions(step.transition, 'invariants', step)\n", "            self._evaluate_contract_conditions(step.transition, 'postconditions', step)\n"))
B('C08', 'state preconditions after entry code',
  (D, "            # Preconditions\n            self._evaluate_contract_conditions(state, 'preconditions', step)\n\n            # Execute entry action\n            sent_events.extend(self._evaluator.execute_on_entry(state))\n",
      "            sent_events.extend(self._evaluator.execute_on_entry(state))\n            self._evaluate_contract_conditions(state, 'preconditions', step)\n"))
B('C08', 'end-of-step invariants only for non-empty steps',
  (D, "        # Check state invariants\n        configuration = self.configuration  # Use self.configuration to benefit from the sorting\n        for name in configuration:\n            state = self._statechart.state_for(name)\n            self._evaluate_contract_conditions(state, 'invariants', macro_step)\n",
      "        if macro_step is not None:\n            for name in self.configuration:\n                state = self._statechart.state_for(name)\n                self._evaluate_contract_conditions(state, 'invariants', macro_step)\n"))
B('C08', 'error classes swapped', (D, "{'preconditions': PreconditionError,\n                                                          'postconditions': PostconditionError,", "{'preconditions': PostconditionError,\n                                                          'postconditions': PreconditionError,"))
B('C08', 'eager evaluation', (PY, "        return filter(\n            lambda c: not self._evaluate_code(c, additional_context=additional_context),\n            getattr(obj, 'invariants', [])\n        )", "        return list(filter(\n            lambda c: not self._evaluate_code(c, additional_context=additional_context),\n            getattr(obj, 'invariants', [])\n        ))"))
B('C08', 'evaluate_postconditions reads invariants', (PY, "            getattr(obj, 'postconditions', [])\n        )", "            getattr(obj, 'invariants', [])\n        )"))
B('C08', 'snapshot taken lazily', (PY, "        if len(getattr(obj, 'invariants', [])) > 0 or len(getattr(obj, 'postconditions', [])) > 0:\n            self._memory[self._memory_key(obj)] = FrozenContext(self._context)\n\n        return filter(\n            lambda c: not self._evaluate_code(c, additional_context=additional_context),",
                                       "        def _snap():\n            self._memory[self._memory_key(obj)] = FrozenContext(self._context)\n            return True\n\n        return filter(\n            lambda c: _snap() and not self._evaluate_code(c, additional_context=additional_context),"))
B('C08', 'error carries the step as obj', (D, "raise exception_klass(configuration=self.configuration, step=step, obj=obj,", "raise exception_klass(configuration=self.configuration, step=step, obj=step,"))
B('C08', 'raise only for the last unsatisfied condition', (D, "        for condition in unsatisfied_conditions:\n            raise exception_klass(", "        for condition in list(unsatisfied_conditions)[-1:]:\n            raise exception_klass("))
B('C08', 'snapshot only for invariants', (PY, "if len(getattr(obj, 'invariants', [])) > 0 or len(getattr(obj, 'postconditions', [])) > 0:", "if len(getattr(obj, 'invariants', [])) > 0:"))
B('C08', 'snapshot shares the live context', (PY, "self.__frozencontext = {k: copy.copy(v) for k, v in context.items()}", "self.__frozencontext = context"))
B('C08', 'dummy-side evaluator keeps satisfied conditions', (EV, "        return filter(\n            lambda c: not self._evaluate_code(\n                c, additional_context=event_d), getattr(obj, 'preconditions', [])\n        )", "        return filter(\n            lambda c: self._evaluate_code(\n                c, additional_context=event_d), getattr(obj, 'preconditions', [])\n        )"))
B('C08', 'contract errors swallowed by execute', (D, "        macro_step = self.execute_once()\n        while macro_step:", "        try:\n            macro_step = self.execute_once()\n        except Exception:\n            macro_step = None\n        while macro_step:"))
B('C08', 'end-of-step invariants after step ended', (D, "            self._evaluate_contract_conditions(state, 'invariants', macro_step)\n\n        self._raise_event(MetaEvent('step ended'))\n", "            pass\n\n        self._raise_event(MetaEvent('step ended'))\n        for name in configuration:\n            self._evaluate_contract_conditions(self._statechart.state_for(name), 'invariants', macro_step)\n"))
T('C08', 'generator for filter', (PY, "        return filter(\n            lambda c: not self._evaluate_code(c, additional_context=additional_context),\n            getattr(obj, 'invariants', [])\n        )", "        return (c for c in getattr(obj, 'invariants', []) if not self._evaluate_code(c, additional_context=additional_context))"))
T('C08', 'iterate self.configuration directly', (D, "        configuration = self.configuration  # Use self.configuration to benefit from the sorting\n        for name in configuration:", "        for name in self.configuration:"))

# ---------------------------------------------------------------- C09
B('C09', 'gate removed', (D, "        if self._ignore_contract:\n            return\n\n        exception_klass", "        exception_klass"))
B('C09', 'gate after evaluation', (D, "        if self._ignore_contract:\n            return\n\n        exception_klass", "        exception_klass"),
  (D, "        for condition in unsatisfied_conditions:\n            raise exception_klass(", "        if self._ignore_contract:\n            return\n        for condition in unsatisfied_conditions:\n            raise exception_klass("))
B('C09', 'contract path writes an interpreter field', (PY, "        state_name = obj.source if isinstance(obj, Transition) else obj.name\n\n        additional_context = {\n            '__old__': self._memory.get(\n                self._memory_key(obj),\n                None),\n            'after': (\n                lambda seconds: self._interpreter.time - seconds\n                >= self._interpreter._entry_time[state_name]\n            ),\n            'idle': (\n                lambda seconds: self._interpreter.time - seconds\n                >= self._interpreter._idle_time[state_name]\n            ),\n            'received': lambda name: name == getattr(\n                event,\n                'name',\n                None),\n            'sent': lambda name: name in [\n                e.name for e in self._interpreter._sent_events],\n            'event': event,\n        }\n\n        return filter(\n            lambda c: not self._evaluate_code(c, additional_context=additional_context),\n            getattr(obj, 'invariants', [])",
   "        state_name = obj.source if isinstance(obj, Transition) else obj.name\n        self._interpreter._idle_time[state_name] = self._interpreter.time\n\n        additional_context = {\n            '__old__': self._memory.get(\n                self._memory_key(obj),\n                None),\n            'after': (\n                lambda seconds: self._interpreter.time - seconds\n                >= self._interpreter._entry_time[state_name]\n            ),\n            'idle': (\n                lambda seconds: self._interpreter.time - seconds\n                >= self._interpreter._idle_time[state_name]\n            ),\n            'received': lambda name: name == getattr(\n                event,\n                'name',\n                None),\n            'sent': lambda name: name in [\n                e.name for e in self._interpreter._sent_events],\n            'event': event,\n        }\n\n        return filter(\n            lambda c: not self._evaluate_code(c, additional_context=additional_context),\n            getattr(obj, 'invariants', [])"))
B('C09', 'direct evaluator call bypassing the gate', (D, "            # Preconditions\n            self._evaluate_contract_conditions(state, 'preconditions', step)\n", "            # Preconditions\n            self._evaluate_contract_conditions(state, 'preconditions', step)\n            list(self._evaluator.evaluate_invariants(state))\n"))
B('C09', 'conditions compiled in exec mode', (PY, "compile(code, '<string>', 'eval'))", "compile(code, '<string>', 'exec'))"))
B('C09', 'ignore_contract flipped later', (D, "        self._listeners.remove(listener)", "        self._listeners.remove(listener)\n        self._ignore_contract = False"))
B('C09', 'contract context exposes setdefault', (PY, "        additional_context = {\n            'received': lambda name: name == getattr(event, 'name', None),\n            'sent': lambda name: name in [e.name for e in self._interpreter._sent_events],\n            'event': event,\n        }", "        additional_context = {\n            'received': lambda name: name == getattr(event, 'name', None),\n            'sent': lambda name: name in [e.name for e in self._interpreter._sent_events],\n            'event': event,\n            'setdefault': self._setdefault,\n        }"))
B('C09', 'contracts ignored by default', (D, "                 ignore_contract: bool = False) -> None:", "                 ignore_contract: bool = True) -> None:"))
B('C09', 'gate inverted', (D, "        if self._ignore_contract:\n            return\n\n        exception_klass", "        if not self._ignore_contract:\n            return\n\n        exception_klass"))
B('C09', 'evaluating a contract records a sent event', (PY, "        if code is None:\n            return True\n", "        if code is None:\n            return True\n        self._interpreter._sent_events.append(None)\n"))
T('C09', 'gate with explicit None', (D, "        if self._ignore_contract:\n            return\n\n        exception_klass", "        if self._ignore_contract:\n            return None\n\n        exception_klass"))

# ---------------------------------------------------------------- C10
B('C10', 'state exited emission dropped', (D, "            # Notify properties\n            self._raise_event(MetaEvent('state exited', state=state.name))\n", ""))
B('C10', 'attribute renamed', (D, "self._raise_event(MetaEvent('state entered', state=state.name))", "self._raise_event(MetaEvent('state entered', name=state.name))"))
B('C10', 'emission before its action', (D, "            # Update configuration\n            self._configuration.add(state.name)\n            self._entry_time[state.name] = self.time\n            self._idle_time[state.name] = self.time\n\n            # Notify properties\n            self._raise_event(MetaEvent('state entered', state=state.name))",
   "            self._raise_event(MetaEvent('state entered', state=state.name))\n            self._configuration.add(state.name)\n            self._entry_time[state.name] = self.time\n            self._idle_time[state.name] = self.time"))
B('C10', 'delivery loop with early exit', (D, "            for listener in self._listeners:\n                listener(event)", "            for listener in self._listeners:\n                listener(event)\n                break"))
B('C10', 'listener without the raise', (LI, "        if self._interpreter.final:\n            raise PropertyStatechartError(self._interpreter)", "        if self._interpreter.final:\n            pass"))
B('C10', 'try/except around the listener call', (D, "            for listener in self._listeners:\n                listener(event)", "            for listener in self._listeners:\n                try:\n                    listener(event)\n                except Exception:\n                    pass"))
B('C10', 'SimulatedClock for the property interpreter', (D, "interpreter = interpreter_klass(statechart, clock=SynchronizedClock(self))", "interpreter = interpreter_klass(statechart, clock=SimulatedClock())"))
B('C10', 'SynchronizedClock reads clock.time', (CK, "        return self._interpreter.time", "        return self._interpreter.clock.time"))
B('C10', 'duplicated emission', (D, "        self._raise_event(MetaEvent('step ended'))\n\n        return macro_step", "        self._raise_event(MetaEvent('step ended'))\n        self._raise_event(MetaEvent('step ended'))\n\n        return macro_step"))
B('C10', 'step started carries clock time', (D, "self._raise_event(MetaEvent('step started', time=self.time))", "self._raise_event(MetaEvent('step started', time=self.clock.time))"))
B('C10', 'event consumed carries the peeked name only', (D, "self._raise_event(MetaEvent('event consumed', event=event))", "self._raise_event(MetaEvent('event consumed', event=event.name))"))
B('C10', 'step ended skipped for empty steps', (D, "        self._raise_event(MetaEvent('step ended'))\n\n        return macro_step", "        if macro_step is not None:\n            self._raise_event(MetaEvent('step ended'))\n\n        return macro_step"))
B('C10', 'listener executes a single step', (LI, "        self._interpreter.execute()", "        self._interpreter.execute(max_steps=1)"))
B('C10', 'listeners called in reverse order', (D, "            for listener in self._listeners:\n                listener(event)", "            for listener in reversed(self._listeners):\n                listener(event)"))
B('C10', 'property interpreter given the monitored one', (D, "        listener = PropertyStatechartListener(interpreter)\n        self.attach(listener)", "        interpreter._monitored = self\n        listener = PropertyStatechartListener(interpreter)\n        self.attach(listener)"))
B('C10', 'transition processed before the action', (D, "            sent_events.extend(self._evaluator.execute_action(step.transition, step.event))\n\n            # Postconditions and invariants", "            self._raise_event(MetaEvent('transition processed', source=step.transition.source, target=step.transition.target, event=step.event))\n            sent_events.extend(self._evaluator.execute_action(step.transition, step.event))\n\n            # Postconditions and invariants"))
B('C10', 'attach inserts at the front', (D, "        self._listeners.append(listener)", "        self._listeners.insert(0, listener)"))
B('C10', 'property error swallowed by execute', (D, "        macro_step = self.execute_once()\n        while macro_step:", "        try:\n            macro_step = self.execute_once()\n        except Exception:\n            macro_step = None\n        while macro_step:"))
T('C10', 'named listener variable', (D, "            for listener in self._listeners:\n                listener(event)", "            for callback in self._listeners:\n                callback(event)"))

# ---------------------------------------------------------------- C13
B('C13', 'second time sample inside the step', (D, "        # Compute steps\n        computed_steps = self._compute_steps()\n", "        computed_steps = self._compute_steps()\n        self._time = self.clock.time\n"))
B('C13', 'evaluator reads clock.time', (PY, "        exposed_context = {\n            'active': lambda s: s in self._interpreter.configuration,\n            'time': self._interpreter.time,", "        exposed_context = {\n            'active': lambda s: s in self._interpreter.configuration,\n            'time': self._interpreter.clock.time,"))
B('C13', 'after reads _idle_time', (PY, "            'after': (\n                lambda seconds: self._interpreter.time - seconds\n                >= self._interpreter._entry_time[transition.source]\n            ),", "            'after': (\n                lambda seconds: self._interpreter.time - seconds\n                >= self._interpreter._idle_time[transition.source]\n            ),"))
B('C13', 'strict comparison in idle', (PY, "            'idle': (\n                lambda seconds: self._interpreter.time - seconds\n                >= self._interpreter._idle_time[transition.source]\n            ),", "            'idle': (\n                lambda seconds: self._interpreter.time - seconds\n                > self._interpreter._idle_time[transition.source]\n            ),"))
B('C13', 'idle stamp only for external transitions', (D, "            # Update idle time\n            self._idle_time[step.transition.source] = self.time", "            # Update idle time\n            if step.transition.target is not None:\n                self._idle_time[step.transition.source] = self.time"))
B('C13', 'entry stamp dropped', (D, "            self._entry_time[state.name] = self.time\n", ""))
B('C13', 'MacroStep time from the clock', (D, "macro_step = MacroStep(time=self.time, steps=executed_steps)", "macro_step = MacroStep(time=self.clock.time, steps=executed_steps)"))
B('C13', 'after keyed by the target', (PY, "            'after': (\n                lambda seconds: self._interpreter.time - seconds\n                >= self._interpreter._entry_time[transition.source]\n            ),", "            'after': (\n                lambda seconds: self._interpreter.time - seconds\n                >= self._interpreter._entry_time[transition.target]\n            ),"))
B('C13', 'sample after step started', (D, "        self._time = self.clock.time\n\n        # Reset the list of events that were sent\n        self._sent_events.clear()\n\n        # Notify listeners\n        self._raise_event(MetaEvent('step started', time=self.time))", "        self._sent_events.clear()\n        self._raise_event(MetaEvent('step started', time=self.time))\n        self._time = self.clock.time"))
B('C13', 'idle stamp before the action', (D, "            sent_events.extend(self._evaluator.execute_action(step.transition, step.event))\n\n            # Postconditions and invariants", "            self._idle_time[step.transition.source] = self.time\n            sent_events.extend(self._evaluator.execute_action(step.transition, step.event))\n\n            # Postconditions and invariants"), (D, "            # Update idle time\n            self._idle_time[step.transition.source] = self.time\n", ""))
B('C13', 'preconditions see after()', (PY, "            'received': lambda name: name == getattr(event, 'name', None),\n            'sent': lambda name: name in [e.name for e in self._interpreter._sent_events],\n            'event': event,\n        }", "            'received': lambda name: name == getattr(event, 'name', None),\n            'sent': lambda name: name in [e.name for e in self._interpreter._sent_events],\n            'event': event,\n            'after': lambda seconds: True,\n        }"))
B('C13', 'time added instead of subtracted', (PY, "            'after': (\n                lambda seconds: self._interpreter.time - seconds\n                >= self._interpreter._entry_time[transition.source]\n            ),", "            'after': (\n                lambda seconds: self._interpreter.time + seconds\n                >= self._interpreter._entry_time[transition.source]\n            ),"))
B('C13', 'entry stamp with the clock', (D, "            self._entry_time[state.name] = self.time\n", "            self._entry_time[state.name] = self.clock.time\n"))
T('C13', 'rearranged predicate', (PY, "            'after': (\n                lambda seconds: self._interpreter.time - seconds\n                >= self._interpreter._entry_time[transition.source]\n            ),", "            'after': (\n                lambda seconds: self._interpreter.time - self._interpreter._entry_time[transition.source] >= seconds\n            ),"))
T('C13', 'flipped predicate', (PY, "            'idle': (\n                lambda seconds: self._interpreter.time - seconds\n                >= self._interpreter._idle_time[transition.source]\n            ),", "            'idle': (\n                lambda seconds: self._interpreter._idle_time[transition.source] + seconds <= self._interpreter.time\n            ),"))

# ---------------------------------------------------------------- C15
B('C15', 'forwarding every meta-event', (LI, "        if event.name == 'event sent':\n            self._callable(", "        if hasattr(event, 'event'):\n            self._callable("))
B('C15', 're-creating an InternalEvent', (LI, "self._callable(Event(event.event.name, **event.event.data))", "self._callable(type(event.event)(event.event.name, **event.event.data))"))
B('C15', 'dropping **data', (LI, "self._callable(Event(event.event.name, **event.event.data))", "self._callable(Event(event.event.name))"))
B('C15', 'bind without attach', (D, "        self.attach(listener)\n\n        return listener\n\n    def bind_property_statechart", "        return listener\n\n    def bind_property_statechart"))
B('C15', 'event sent for meta-events', (D, "        elif isinstance(event, MetaEvent):\n            for listener in self._listeners:", "        elif isinstance(event, MetaEvent):\n            if not event.name.startswith('s'):\n                self._raise_event(MetaEvent('event sent', event=event))\n            for listener in self._listeners:"))
B('C15', 'sender not queueing for itself', (D, "        if isinstance(event, InternalEvent):\n            self._queue_event(event)\n", "        if isinstance(event, InternalEvent):\n"))
B('C15', 'forwarding the original object', (LI, "self._callable(Event(event.event.name, **event.event.data))", "self._callable(event.event)"))
B('C15', 'bind wraps execute instead of queue', (D, "listener = InternalEventListener(interpreter_or_callable.queue)", "listener = InternalEventListener(interpreter_or_callable._queue_event)"))
B('C15', 'forwarded twice', (LI, "            self._callable(Event(event.event.name, **event.event.data))", "            self._callable(Event(event.event.name, **event.event.data))\n            self._callable(Event(event.event.name, **event.event.data))"))
B('C15', 'also forwards consumed events', (LI, "        if event.name == 'event sent':", "        if event.name in ('event sent', 'event consumed'):"))
B('C15', 'queue drops all but the first event', (D, "            event = Event(event, **parameters) if isinstance(event, str) else event\n            self._queue_event(event)", "            event = Event(event, **parameters) if isinstance(event, str) else event\n            self._queue_event(event)\n            break"))
T('C15', 'flipped equality', (LI, "        if event.name == 'event sent':", "        if 'event sent' == event.name:"))

# ---------------------------------------------------------------- C14
B('C14', 'start() re-bases while running', (CK, "        if not self._play:\n            self._base = time()\n            self._play = True", "        self._base = time()\n        self._play = True"))
B('C14', 'speed written before the fold', (CK, "        self._time += self._elapsed\n        self._base = time()\n        self._speed = speed", "        self._speed = speed\n        self._time += self._elapsed\n        self._base = time()"))
B('C14', 'stop() clears _play before the fold', (CK, "            self._time += self._elapsed\n            self._play = False", "            self._play = False\n            self._time += self._elapsed"))
B('C14', 'write before the ValueError', (CK, "        current_time = self.time\n        if new_time < current_time:", "        current_time = self.time\n        self._base = time()\n        if new_time < current_time:"))
B('C14', '<= in the monotonicity test', (CK, "if new_time < current_time:", "if new_time <= current_time:"))
B('C14', '_elapsed not gated by _play', (CK, "return (time() - self._base) * self._speed if self._play else 0", "return (time() - self._base) * self._speed"))
B('C14', 'SynchronizedClock reads the followed clock', (CK, "        return self._interpreter.time", "        return self._interpreter.clock.time"))
B('C14', 'assignment without re-base', (CK, "        self._time = new_time\n        self._base = time()", "        self._time = new_time"))
B('C14', 'speed change without re-base', (CK, "        self._time += self._elapsed\n        self._base = time()\n        self._speed = speed", "        self._time += self._elapsed\n        self._speed = speed"))
B('C14', 'speed change without fold', (CK, "        self._time += self._elapsed\n        self._base = time()\n        self._speed = speed", "        self._base = time()\n        self._speed = speed"))
B('C14', 'monotonicity checked against _time only', (CK, "        current_time = self.time\n        if new_time < current_time:", "        current_time = self._time\n        if new_time < current_time:"))
B('C14', 'elapsed divides by speed', (CK, "return (time() - self._base) * self._speed if self._play else 0", "return (time() - self._base) / self._speed if self._play else 0"))
B('C14', 'stop without fold', (CK, "            self._time += self._elapsed\n            self._play = False", "            self._play = False"))
T('C14', 'flipped monotonicity test', (CK, "if new_time < current_time:", "if current_time > new_time:"))
T('C14', 'commuted elapsed', (CK, "return (time() - self._base) * self._speed if self._play else 0", "return self._speed * (time() - self._base) if self._play else 0"))

# ---------------------------------------------------------------- C11
B('C11', 'on entry / on exit swapped in the importer', (DD, "    on_entry = state_d.get('on entry', None)  # type: Optional[str]", "    on_entry = state_d.get('on exit', None)  # type: Optional[str]"), (DD, "    on_exit = state_d.get('on exit', None)  # type: Optional[str]", "    on_exit = state_d.get('on entry', None)  # type: Optional[str]"))
B('C11', 'before/after swapped in the state importer', (DD, "        if condition.get('before', None):\n            state.preconditions.append(condition['before'].strip())\n        elif condition.get('after', None):\n            state.postconditions.append(condition['after'].strip())", "        if condition.get('before', None):\n            state.postconditions.append(condition['before'].strip())\n        elif condition.get('after', None):\n            state.preconditions.append(condition['after'].strip())"))
B('C11', 'before/after swapped in the transition exporter', (DD, "                    for condition in preconditions:\n                        conditions.append({'before': condition})\n                    for condition in postconditions:\n                        conditions.append({'after': condition})\n                    for condition in invariants:\n                        conditions.append({'always': condition})\n                    transition_data['contract'] = conditions", "                    for condition in preconditions:\n                        conditions.append({'after': condition})\n                    for condition in postconditions:\n                        conditions.append({'before': condition})\n                    for condition in invariants:\n                        conditions.append({'always': condition})\n                    transition_data['contract'] = conditions"))
B('C11', 'memory not exported for deep history', (DD, "        data['type'] = 'deep history'\n        if state.memory:\n            data['memory'] = state.memory", "        data['type'] = 'deep history'"))
B('C11', 'low mapped to high', (DD, "    if priority == 'low':\n        priority = Transition.LOW_PRIORITY", "    if priority == 'low':\n        priority = Transition.HIGH_PRIORITY"))
B('C11', 'target stripped but not name', (DD, "        transition_d.get('target', None),\n        event.strip()", "        transition_d.get('target', None).strip() if transition_d.get('target', None) else None,\n        event.strip()"))
B('C11', 'F1 reverted', (EL, "return self.on_entry == other.on_entry and self.on_exit == other.on_exit", "return self.on_entry == other.on_exit and self.on_exit == other.on_exit"))
B('C11', 'key missing from SCHEMA', (YM, "        schema.Optional('memory'): schema.Use(str),\n", ""))
B('C11', 'initial not exported', (DD, "    if isinstance(state, CompoundState):\n        if state.initial:\n            data['initial'] = state.initial\n", ""))
B('C11', 'type strings swapped on export', (DD, "    if isinstance(state, ShallowHistoryState):\n        data['type'] = 'shallow history'", "    if isinstance(state, ShallowHistoryState):\n        data['type'] = 'deep history'"), (DD, "    elif isinstance(state, DeepHistoryState):\n        data['type'] = 'deep history'", "    elif isinstance(state, DeepHistoryState):\n        data['type'] = 'shallow history'"))
B('C11', 'guard exported under action', (DD, "                if transition.guard:\n                    transition_data['guard'] = transition.guard", "                if transition.guard:\n                    transition_data['guard'] = transition.action"))
B('C11', 'parallel states exported for compound', (DD, "        if isinstance(state, CompoundState):\n            data['states'] = children_data\n        elif isinstance(state, OrthogonalState):\n            data['parallel states'] = children_data", "        if isinstance(state, CompoundState):\n            data['parallel states'] = children_data\n        elif isinstance(state, OrthogonalState):\n            data['states'] = children_data"))
B('C11', 'Transition equality ignores priority', (EL, "                and self.action == other.action\n                and self.priority == other.priority", "                and self.action == other.action"))
B('C11', 'event not stripped', (DD, "        event.strip() if event else None,", "        event if event else None,"))
B('C11', 'preamble imported as description', (DD, "                            description=data.get('description', None),\n                            preamble=data.get('preamble', None))", "                            description=data.get('preamble', None),\n                            preamble=data.get('description', None))"))
B('C11', 'schema priority admits medium', (YM, "schema.Or(schema.Use(int), 'high', 'low')", "schema.Or(schema.Use(int), 'high', 'low', 'medium')"))
B('C11', 'BasicState equality ignores actions', (EL, "        if isinstance(other, BasicState):\n            return (\n                ContractMixin.__eq__(self, other)\n                and StateMixin.__eq__(self, other)\n                and ActionStateMixin.__eq__(self, other)\n", "        if isinstance(other, BasicState):\n            return (\n                ContractMixin.__eq__(self, other)\n                and StateMixin.__eq__(self, other)\n"))
B('C11', 'exit code exported when entry code is set', (DD, "        if state.on_exit:\n            data['on exit'] = state.on_exit", "        if state.on_entry:\n            data['on exit'] = state.on_exit"))
T('C11', 'renamed importer locals', (DD, "    event = transition_d.get('event', None)\n", "    evt = event = transition_d.get('event', None)\n"))

# ---------------------------------------------------------------- C12
B('C12', 'duplicate-name check deleted', (SC, "        if state.name in self._states.keys():\n            raise StatechartError('State {} already exists!'.format(state))\n", ""))
B('C12', 'memory-is-sibling check deleted', (SC, "                if state.memory not in self.children_for(self.parent_for(name)):\n                    raise StatechartError(\n                        'Initial memory {} of {} must be a parent\\'s child'.format(\n                            state.memory, state)\n                    )\n", ""))
B('C12', 'memory-self check deleted', (SC, "                if memory == name:\n                    raise StatechartError(\n                        'Initial memory {} of {} cannot target itself'.format(state.memory, state))\n", ""))
B('C12', 'F11 reverted', (SC, "            if isinstance(state, HistoryStateMixin):\n                raise StatechartError('{} cannot be used as a root state'.format(state))\n", ""))
B('C12', 'schema call unwrapped', (YM, "        try:\n            data = schema.Schema(SCHEMA.statechart).validate(data)\n        except schema.SchemaError as e:\n            raise StatechartError('YAML validation failed') from e", "        data = schema.Schema(SCHEMA.statechart).validate(data)"))
B('C12', 'validate skips one sub-validator', (SC, "        self._validate_compoundstate_initial()\n        self._validate_historystate_memory()\n\n        return True", "        self._validate_compoundstate_initial()\n\n        return True"))
B('C12', 'ValueError raised instead', (SC, "            raise StatechartError('Unknown target state for {}'.format(transition))", "            raise ValueError('Unknown target state for {}'.format(transition))"))
B('C12', 'target-exists check deleted', (SC, "        if transition.target is not None and transition.target not in self._states:\n            raise StatechartError('Unknown target state for {}'.format(transition))\n", ""))
B('C12', 'both-kinds check deleted', (DD, "        if substates and parallel_substates:\n            raise StatechartError(\n                '{} cannot declare both a \"states\" and a \"parallel states\" property'.format(name))\n        elif substates:", "        if substates:"))
B('C12', 'validation off by default', (YM, "ignore_validation: bool = False) -> Statechart:", "ignore_validation: bool = True) -> Statechart:"))
B('C12', 'root check only when the root has children', (SC, "            if self.root:\n                raise StatechartError(\n                    'Root already defined", "            if self.root and self._children[self.root]:\n                raise StatechartError(\n                    'Root already defined"))
B('C12', 'schema admits unknown keys', (YM, "data = schema.Schema(SCHEMA.statechart).validate(data)", "data = schema.Schema(SCHEMA.statechart, ignore_extra_keys=True).validate(data)"))
B('C12', 'initial child check deleted', (SC, "                if state.initial not in self.children_for(name):\n                    raise StatechartError(\n                        'Initial state {} of {} must be a child state'.format(state.initial, state))\n", ""))
B('C12', 'transitions allowed on any state', (SC, "        if not isinstance(from_state, TransitionStateMixin):\n            raise StatechartError('Cannot add {} on {}'.format(transition, from_state))\n", ""))
B('C12', 'builder errors escape', (DD, "        try:\n            state = _import_state_from_dict(state_data)\n        except StatechartError:\n            raise\n        except Exception as e:\n            raise StatechartError('Unable to load given YAML') from e", "        state = _import_state_from_dict(state_data)"))
B('C12', 'unknown type becomes a basic state', (DD, "    else:\n        raise StatechartError('Unknown type {} for state {}'.format(stype, name))", "    else:\n        state = BasicState(name, on_entry=on_entry, on_exit=on_exit)"))
B('C12', 'name optional in schema', (YM, "    state.update({\n        'name': schema.Use(str),", "    state.update({\n        schema.Optional('name'): schema.Use(str),"))
B('C12', 'history parent check accepts orthogonal', (SC, "if isinstance(state, HistoryStateMixin) and not isinstance(parent_state, CompoundState):", "if isinstance(state, HistoryStateMixin) and not isinstance(parent_state, CompositeStateMixin):"))
B('C12', 'memory validation stops at first history state', (SC, "                if memory is None:\n                    continue", "                if memory is None:\n                    break"))
B('C12', 'last transition of a state dropped', (DD, "            transitions.append(transition)\n", "            if transition_data is not state_data.get('transitions', [])[-1] or len(state_data.get('transitions', [])) == 1:\n                transitions.append(transition)\n"))
T('C12', 'membership in dict instead of keys()', (SC, "        if state.name in self._states.keys():", "        if state.name in self._states:"))

# ---------------------------------------------------------------- C16
B('C16', 'F9 reverted', (SC, "        if new_target != '' and new_target is not None:\n            new_target_state = self.state_for(new_target)\n\n        # Rotate using source\n        if new_source != '':\n            transition._source = new_source_state.name", "        if new_source != '':\n            transition._source = new_source_state.name\n        if new_target != '' and new_target is not None:\n            new_target_state = self.state_for(new_target)"))
B('C16', 'remove_state leaves _children[name]', (SC, "        parent = self._parent.pop(name)\n        self._children.pop(name)\n", "        parent = self._parent.pop(name)\n"))
B('C16', 'transitions to a removed state kept', (SC, "            if transition.source == state.name or transition.target == state.name:\n                self.remove_transition(transition)", "            if transition.source == state.name:\n                self.remove_transition(transition)"))
B('C16', 'move_state writes before the descendant test', (SC, "        # Check that parent is not a descendant (or self) of given state\n        if new_parent in [name] + self.descendants_for(name):", "        self._parent[name] = new_parent\n        if new_parent in [name] + self.descendants_for(name):"))
B('C16', 'iteration over the live children list', (SC, "        for child in list(self.children_for(state.name)):\n            self.remove_state(child)", "        for child in self.children_for(state.name):\n            self.remove_state(child)"))
B('C16', 'initial not reset on removal', (SC, "            if isinstance(o_state, CompoundState) and o_state.initial == name:\n                o_state.initial = None\n            elif", "            if False:\n                pass\n            elif"))
B('C16', 'rename writes before the existence check', (SC, "        # Check state exists\n        state = self.state_for(old_name)\n\n        # Change transitions\n        for transition in self.transitions:", "        for transition in self.transitions:"), (SC, "        # Adapt structures\n        parent_name = self._parent[old_name]", "        state = self.state_for(old_name)\n        parent_name = self._parent[old_name]"))
B('C16', 'add_state registers before the parent check', (SC, "        if not parent:\n            # Check root state", "        self._states[state.name] = state\n        if not parent:\n            # Check root state"), (SC, "        # Save state\n        self._states[state.name] = state\n", "        # Save state\n"))
B('C16', 'rotate target validated after write', (SC, "        if new_target != '' and new_target is not None:\n            new_target_state = self.state_for(new_target)\n\n        # Rotate using source", "        # Rotate using source"), (SC, "            else:\n                transition._target = new_target_state.name", "            else:\n                transition._target = self.state_for(new_target).name"))
B('C16', 'memory not reset on move', (SC, "            if isinstance(other_state, HistoryStateMixin):\n                if other_state.memory == name:\n                    other_state.memory = None\n\n    def copy_from_statechart", "    def copy_from_statechart"))
B('C16', 'move into a descendant allowed', (SC, "        if new_parent in [name] + self.descendants_for(name):", "        if new_parent == name:"))
B('C16', 'remove_state forgets the parent link', (SC, "        self._children[parent].remove(name)\n\n    def rename_state", "    def rename_state"))
T('C16', 'extra validation before writes', (SC, "        # Check that both states exist\n        state = self.state_for(name)\n        self.state_for(new_parent)", "        # Check that both states exist\n        state = self.state_for(name)\n        self.state_for(new_parent)\n        self.parent_for(name)"))

# ---------------------------------------------------------------- C17
B('C17', 'F2 reverted', (SC, "            if transition.source == old_name:\n                transition._source = new_name", "            if transition.source == old_name:\n                if transition.internal:\n                    transition._target = new_name\n                transition._source = new_name"))
B('C17', 'memory not rewritten', (SC, "            # Change memory (HistoryState)\n            if isinstance(other_state, HistoryStateMixin):\n                if other_state.memory == old_name:\n                    other_state.memory = new_name\n\n            # Adapt parent", "            # Adapt parent"))
B('C17', '_parent values not rewritten', (SC, "            if self._parent[other_state.name] == old_name:\n                self._parent[other_state.name] = new_name\n", ""))
B('C17', 'copy without deepcopy', (SC, "statechart_copy = deepcopy(statechart)  # type: Statechart", "statechart_copy = statechart  # type: Statechart"))
B('C17', 'unconditional _target = new_name', (SC, "            if transition.target == old_name:\n                transition._target = new_name", "            if transition.target is not None:\n                transition._target = new_name"))
B('C17', 'initial rewritten for the wrong slot', (SC, "                if other_state.initial == old_name:\n                    other_state.initial = new_name", "                if other_state.name == old_name:\n                    other_state.initial = new_name"))
B('C17', 'state object keeps its old name', (SC, "        # Rename state!\n        state._name = new_name\n", ""))
B('C17', 'children key not moved', (SC, "        self._children[new_name] = self._children.pop(old_name)\n", ""))
B('C17', 'copy registers before renaming', (SC, "            statechart_copy.rename_state(name, new_name)\n            self.add_state(statechart_copy.state_for(new_name),\n                           statechart_copy.parent_for(new_name))", "            self.add_state(statechart_copy.state_for(name),\n                           statechart_copy.parent_for(name))\n            statechart_copy.rename_state(name, new_name)"))
B('C17', 'copy misses incoming transitions', (SC, "            transitions.update(statechart_copy.transitions_from(name))\n            transitions.update(statechart_copy.transitions_to(name))", "            transitions.update(statechart_copy.transitions_from(name))"))
B('C17', 'only first matching transition renamed', (SC, "            if transition.target == old_name:\n                transition._target = new_name\n", "            if transition.target == old_name:\n                transition._target = new_name\n                break\n"))
T('C17', 'flipped comparison', (SC, "            if transition.target == old_name:\n                transition._target = new_name", "            if old_name == transition.target:\n                transition._target = new_name"))

# ---------------------------------------------------------------- C18
B('C18', 'F4 reverted (identity keyed snapshot)', (PY, "            self._memory[self._memory_key(obj)] = FrozenContext(self._context)", "            self._memory[id(obj)] = FrozenContext(self._context)"))
B('C18', '__setstate__ order swapped', ('sismic/model/events.py', "        self.name, self.data = state", "        self.data, self.name = state"))
B('C18', '__getstate__ mutating self.__dict__', (PY, "        attributes = self.__dict__.copy()", "        attributes = self.__dict__"))
B('C18', 'a lambda stored on the interpreter', (D, "        # Bound listeners\n        self._listeners = []  # type: List[Callable[[MetaEvent], Any]]", "        # Bound listeners\n        self._listeners = []  # type: List[Callable[[MetaEvent], Any]]\n        self._depth = lambda s: self._statechart.depth_for(s)"))
B('C18', 'compiled code read with [code]', (PY, "        compiled_code = self._evaluable_code.get(code, None)\n        if compiled_code is None:\n            compiled_code = self._evaluable_code.setdefault(code, compile(code, '<string>', 'eval'))", "        if code not in self._evaluable_code:\n            self._evaluable_code[code] = compile(code, '<string>', 'eval')\n        compiled_code = self._evaluable_code[code]"))
B('C18', 'getstate drops the snapshots too', (PY, "        attributes['_evaluable_code'] = dict()  # Code fragment cannot be pickled", "        attributes['_evaluable_code'] = dict()  # Code fragment cannot be pickled\n        attributes['_memory'] = dict()"))
B('C18', 'getstate clears the live cache', (PY, "        attributes = self.__dict__.copy()", "        attributes = self.__dict__.copy()\n        self._evaluable_code = dict()"))
B('C18', 'a lock stored on the interpreter', (D, "        # Bound listeners\n        self._listeners = []  # type: List[Callable[[MetaEvent], Any]]", "        # Bound listeners\n        self._listeners = []  # type: List[Callable[[MetaEvent], Any]]\n        self._lock = threading.Lock()"), (D, "import bisect\nimport warnings", "import bisect\nimport threading\nimport warnings"))
B('C18', 'entry times keyed by identity', (D, "            self._entry_time[state.name] = self.time", "            self._entry_time[id(state)] = self.time"))
B('C18', 'event data not pickled', ('sismic/model/events.py', "        return self.name, self.data", "        return self.name, {}"))
T('C18', 'dict() for copy', (PY, "        attributes = self.__dict__.copy()", "        attributes = dict(self.__dict__)"))

# ---------------------------------------------------------------- C19
B('C19', 'assert True', (BS, "    test = testing.state_is_entered(context.monitored_trace, name)\n    assert test, 'State {} is not entered'.format(name)", "    test = testing.state_is_entered(context.monitored_trace, name)\n    assert True, 'State {} is not entered'.format(name)"))
B('C19', 'context.trace', (BS, "    test = testing.state_is_exited(context.monitored_trace, name)\n    assert test, 'State {} is not exited'.format(name)", "    test = testing.state_is_exited(context.trace, name)\n    assert test, 'State {} is not exited'.format(name)"))
B('C19', 'a dropped not', (BS, "    test = not testing.state_is_entered(context.monitored_trace, name)", "    test = testing.state_is_entered(context.monitored_trace, name)"))
B('C19', 'state_is_exited reads entered_states', (TE, "        if name in step.exited_states:", "        if name in step.entered_states:"))
B('C19', 'monitored trace never reset', (BE, "        if not context._monitoring:\n            context._monitoring = True\n            context.monitored_trace = []", "        if context.monitored_trace is None:\n            context._monitoring = True\n            context.monitored_trace = []"))
B('C19', 'when result dropped', (BE, "        macrosteps = context.interpreter.execute()\n", "        context.interpreter.execute()\n        macrosteps = []\n"))
B('C19', 'F12 reverted', (BS, "@then('expression \"{expression}\" holds')\n", ""))
B('C19', 'variable_equals with !=', (BS, "    assert current_value == expected_value, 'Variable {} equals {}, not {}'", "    assert current_value != expected_value, 'Variable {} equals {}, not {}'"))
B('C19', 'active judged on the trace', (BS, "    assert name in context.interpreter.configuration, 'State {} is not active'.format(name)", "    assert testing.state_is_entered(context.monitored_trace, name), 'State {} is not active'.format(name)"))
B('C19', 'final ignores the interpreter', (BS, "    assert context.interpreter.final, 'Statechart is not in a final configuration: {}'", "    assert context.interpreter is not None, 'Statechart is not in a final configuration: {}'"))
B('C19', 'event fired ignores parameters', (BS, "    test = testing.event_is_fired(context.monitored_trace, name, parameters)", "    test = testing.event_is_fired(context.monitored_trace, name)"))
B('C19', 'wait ignores its argument', (BS, "    context.interpreter.clock.time += seconds", "    context.interpreter.clock.time += 1"))
B('C19', 'send_event drops table parameters', (BS, "    if context.table:\n        for row in context.table:\n            parameters[row['parameter'].strip()] = eval(row['value'].strip(), {}, {})\n\n    if parameter and value:", "    if parameter and value:"))
B('C19', 'given steps recorded too', (BE, "    if step.step_type == 'given':\n        context.interpreter.execute()", "    if step.step_type == 'given':\n        context.monitored_trace = context.interpreter.execute()"))
B('C19', 'then does not stop monitoring', (BE, "        # Stop monitoring\n        context._monitoring = False\n", ""))
B('C19', 'event_is_fired returns on first step', (TE, "                if matching_parameters:\n                    return True\n    return False\n\n\ndef event_is_consumed", "                if matching_parameters:\n                    return True\n        return False\n    return False\n\n\ndef event_is_consumed"))
B('C19', 'no_event_is_fired only looks at the first step', (BS, "    for macrostep in context.monitored_trace:\n        if len(macrostep.sent_events) > 0:", "    for macrostep in context.monitored_trace[:1]:\n        if len(macrostep.sent_events) > 0:"))
B('C19', 'quoted spelling shadowed', (BS, "@then('expression {expression} holds')\n@then('expression \"{expression}\" holds')\n", "@then('expression \"{expression}\" holds')\n@then('expression {expression} holds')\n"))
B('C19', 'reproduce ignores the keyword', (BS, "                    context.execute_steps('{} {}'.format(keyword, step.name))", "                    context.execute_steps('{} {}'.format('Given', step.name))"))
B('C19', 'not exited checks entered', (BS, "    test = not testing.state_is_exited(context.monitored_trace, name)", "    test = not testing.state_is_entered(context.monitored_trace, name)"))
T('C19', 'inline assertion', (BS, "    test = testing.state_is_entered(context.monitored_trace, name)\n    assert test, 'State {} is not entered'.format(name)", "    assert testing.state_is_entered(context.monitored_trace, name), 'State {} is not entered'.format(name)"))

# ---------------------------------------------------------------- C20
B('C20', 'F6 reverted', (RU, "            steps.append(step)\n\n            if not self._execute_all:\n                break\n\n            step = self.interpreter.execute_once()", "            steps.append(step)\n            step = self.interpreter.execute_once()\n\n            if not self._execute_all:\n                break"))
B('C20', 'stop() without _unpaused.set()', (RU, "        self._stop.set()\n        self._unpaused.set()\n        self.wait()", "        self._stop.set()\n        self.wait()"))
B('C20', 'after_run inside the loop', (RU, "            time.sleep(max(0, self.interval - elapsed))\n            self._unpaused.wait()\n", "            time.sleep(max(0, self.interval - elapsed))\n            self._unpaused.wait()\n            self.after_run()\n"), (RU, "        self._stop.set()\n\n        self.after_run()\n", "        self._stop.set()\n"))
B('C20', 'loop ignoring _stop', (RU, "while not self.interpreter.final and not self._stop.is_set():", "while not self.interpreter.final:"))
B('C20', 'after_execute not given the result', (RU, "            self.after_execute(r)", "            self.after_execute([])"))
B('C20', 'no pause point at the end of a cycle', (RU, "            time.sleep(max(0, self.interval - elapsed))\n            self._unpaused.wait()\n", "            time.sleep(max(0, self.interval - elapsed))\n"))
B('C20', 'stop wakes before setting the flag', (RU, "        self._stop.set()\n        self._unpaused.set()\n        self.wait()", "        self._unpaused.set()\n        self._stop.set()\n        self.wait()"))
B('C20', 'before_execute after execute', (RU, "            self.before_execute()\n            r = self.execute()", "            r = self.execute()\n            self.before_execute()"))
B('C20', 'first step never appended', (RU, "        while step:\n            steps.append(step)\n", "        while step:\n"))
B('C20', 'pause sets instead of clearing', (RU, "        Pause the execution.\n        \"\"\"\n        self._unpaused.clear()", "        Pause the execution.\n        \"\"\"\n        self._unpaused.set()"))
B('C20', 'stop does not join', (RU, "        self._stop.set()\n        self._unpaused.set()\n        self.wait()", "        self._stop.set()\n        self._unpaused.set()"))
B('C20', 'restart of a stopped runner allowed', (RU, "        if self._stop.is_set():\n            raise RuntimeError('Cannot restart a stopped runner.')\n        elif self._thread.is_alive():", "        if self._thread.is_alive():"))
B('C20', 'execute_all by default', (RU, "interval: float = 0.1, execute_all=False) -> None:", "interval: float = 0.1, execute_all=True) -> None:"))
T('C20', 'while with is not None', (RU, "        while step:\n            steps.append(step)", "        while step is not None:\n            steps.append(step)"))

# ---------------------------------------------------------------- extract-method twins (served by sa/inline.py), checked against every property that anchors on the method
_EXIT_BODY_OLD = """        for state in exited_states:
            # Execute exit action
            sent_events.extend(self._evaluator.execute_on_exit(state))

            # Deal with history
            if isinstance(state, CompoundState):
                # Look for an HistoryStateMixin among its children
                for child_name in self._statechart.children_for(state.name):
                    child = self._statechart.state_for(child_name)
                    if isinstance(child, DeepHistoryState):
                        # This MUST contain at least one element!
                        active = active_configuration.intersection(
                            self._statechart.descendants_for(state.name))
                        assert len(active) >= 1
                        self._memory[child.name] = list(active)
                    elif isinstance(child, ShallowHistoryState):
                        # This MUST contain exactly one element!
                        active = active_configuration.intersection(
                            self.statechart.children_for(state.name))
                        assert len(active) == 1
                        self._memory[child.name] = list(active)

            # Remove state from active configuration
            self._configuration.remove(state.name)

            # Postconditions
            self._evaluate_contract_conditions(state, 'postconditions', step)

            # Notify properties
            self._raise_event(MetaEvent('state exited', state=state.name))
"""
_EXIT_BODY_NEW = """        for state in exited_states:
            self._exit_state(state, step, active_configuration, sent_events)
"""
_EXIT_HELPER = """    def _exit_state(self, state, step, active_configuration, sent_events):
        sent_events.extend(self._evaluator.execute_on_exit(state))
        if isinstance(state, CompoundState):
            for child_name in self._statechart.children_for(state.name):
                child = self._statechart.state_for(child_name)
                if isinstance(child, DeepHistoryState):
                    active = active_configuration.intersection(
                        self._statechart.descendants_for(state.name))
                    assert len(active) >= 1
                    self._memory[child.name] = list(active)
                elif isinstance(child, ShallowHistoryState):
                    active = active_configuration.intersection(
                        self.statechart.children_for(state.name))
                    assert len(active) == 1
                    self._memory[child.name] = list(active)
        self._configuration.remove(state.name)
        self._evaluate_contract_conditions(state, 'postconditions', step)
        self._raise_event(MetaEvent('state exited', state=state.name))

    def _stabilize(self) -> List[MicroStep]:"""
_ENTER_OLD = """        for state in entered_states:
            # Preconditions
            self._evaluate_contract_conditions(state, 'preconditions', step)

            # Execute entry action
            sent_events.extend(self._evaluator.execute_on_entry(state))

            # Update configuration
            self._configuration.add(state.name)
            self._entry_time[state.name] = self.time
            self._idle_time[state.name] = self.time

            # Notify properties
            self._raise_event(MetaEvent('state entered', state=state.name))
"""
_ENTER_NEW = """        for state in entered_states:
            self._enter_state(state, step, sent_events)
"""
_ENTER_HELPER = """    def _enter_state(self, state, step, sent_events):
        self._evaluate_contract_conditions(state, 'preconditions', step)
        sent_events.extend(self._evaluator.execute_on_entry(state))
        self._configuration.add(state.name)
        self._entry_time[state.name] = self.time
        self._idle_time[state.name] = self.time
        self._raise_event(MetaEvent('state entered', state=state.name))

    def _stabilize(self) -> List[MicroStep]:"""
_INV_OLD = """        # Check state invariants
        configuration = self.configuration  # Use self.configuration to benefit from the sorting
        for name in configuration:
            state = self._statechart.state_for(name)
            self._evaluate_contract_conditions(state, 'invariants', macro_step)
"""
_INV_NEW = """        self._check_state_invariants(macro_step)
"""
_INV_HELPER = """    def _check_state_invariants(self, macro_step):
        configuration = self.configuration
        for name in configuration:
            state = self._statechart.state_for(name)
            self._evaluate_contract_conditions(state, 'invariants', macro_step)

    def _stabilize(self) -> List[MicroStep]:"""
_ALLP = ['C01', 'C02', 'C03', 'C04', 'C05', 'C06', 'C07', 'C08', 'C09', 'C10', 'C13', 'C15', 'C18', 'C20']
for _p in _ALLP:
    T(_p, 'extract _exit_state helper', (D, _EXIT_BODY_OLD, _EXIT_BODY_NEW), (D, "    def _stabilize(self) -> List[MicroStep]:", _EXIT_HELPER))
    T(_p, 'extract _enter_state helper', (D, _ENTER_OLD, _ENTER_NEW), (D, "    def _stabilize(self) -> List[MicroStep]:", _ENTER_HELPER))
    T(_p, 'extract _check_state_invariants helper', (D, _INV_OLD, _INV_NEW), (D, "    def _stabilize(self) -> List[MicroStep]:", _INV_HELPER))
_CHK_OLD = """        # Check state has a name
        if state.name is None:
            raise StatechartError('State {} must have a name'.format(state))

        # Check name unicity
        if state.name in self._states.keys():
            raise StatechartError('State {} already exists!'.format(state))
"""
_CHK_NEW = """        self._check_new_name(state)
"""
_CHK_HELPER = """    def _check_new_name(self, state):
        if state.name is None:
            raise StatechartError('State {} must have a name'.format(state))
        if state.name in self._states.keys():
            raise StatechartError('State {} already exists!'.format(state))

    def remove_state(self, name: str) -> None:"""
for _p in ('C12', 'C16', 'C17', 'C11'):
    T(_p, 'extract _check_new_name helper', (SC, _CHK_OLD, _CHK_NEW), (SC, "    def remove_state(self, name: str) -> None:", _CHK_HELPER))
# an extracted helper with a defect inside must still be reported
B('C03', 'extracted _exit_state removes before running the exit code', (D, _EXIT_BODY_OLD, _EXIT_BODY_NEW),
  (D, "    def _stabilize(self) -> List[MicroStep]:", _EXIT_HELPER.replace("        sent_events.extend(self._evaluator.execute_on_exit(state))\n        if isinstance(state, CompoundState):", "        self._configuration.discard(state.name)\n        sent_events.extend(self._evaluator.execute_on_exit(state))\n        if isinstance(state, CompoundState):")))
B('C10', 'extracted _enter_state forgets the emission', (D, _ENTER_OLD, _ENTER_NEW), (D, "    def _stabilize(self) -> List[MicroStep]:", _ENTER_HELPER.replace("        self._raise_event(MetaEvent('state entered', state=state.name))\n", "")))
