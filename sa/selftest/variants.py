"""Variant corpus: one-instance-broken variants (must fire) and refactoring twins (must stay silent).
Each edit is (relative path, exact text occurring once in today's file, replacement)."""
D = 'sismic/interpreter/default.py'
PY = 'sismic/code/python.py'
EV = 'sismic/code/evaluator.py'
SC = 'sismic/model/statechart.py'
EL = 'sismic/model/elements.py'
ST = 'sismic/model/steps.py'
DD = 'sismic/io/datadict.py'
YM = 'sismic/io/yaml.py'
CK = 'sismic/clock/clock.py'
LI = 'sismic/interpreter/listener.py'
RU = 'sismic/runner/runner.py'
BS = 'sismic/bdd/steps.py'
BE = 'sismic/bdd/environment.py'
TE = 'sismic/testing.py'
UT = 'sismic/utilities.py'

VARIANTS = []


def V(prop, name, kind, *edits):
    VARIANTS.append({'prop': prop, 'name': name, 'kind': kind, 'edits': list(edits)})


def B(prop, name, *edits):
    V(prop, name, 'broken', *edits)


def T(prop, name, *edits):
    V(prop, name, 'twin', *edits)


# ---------------------------------------------------------------- C05
B('C05', 'bisect_left', (D, 'bisect.bisect_right(', 'bisect.bisect_left('))
B('C05', 'strict due test', (D, 'if time <= self.time:', 'if time < self.time:'))
B('C05', 'external first', (D, '(self._internal_queue, self._external_queue)):', '(self._external_queue, self._internal_queue)):'))
B('C05', 'pop last', (D, 'queue.pop(0)', 'queue.pop()'))
B('C05', 'due from clock', (D, "time = self.time + getattr(event, 'delay', 0)", "time = self.clock.time + getattr(event, 'delay', 0)"))
B('C05', 'unmatched event never consumed', (D, 'return [MicroStep(event=event)]', 'return []'))
B('C05', 'insert at head', (D, 'queue.insert(position, (time, event))', 'queue.insert(0, (time, event))'))
B('C05', 'unconditional consume', (D, 'if computed_steps[0].event is not None:\n                event = self._select_event(consume=True)',
                                    'if True:\n                event = self._select_event(consume=True)'))
B('C05', 'always pop', (D, 'if consume:\n                        queue.pop(0)', 'if True:\n                        queue.pop(0)'))
B('C05', 'send makes plain Event', (PY, "sent_events.append(InternalEvent(name, **kwargs))", "sent_events.append(Event(name, **kwargs))"))
B('C05', 'send drops kwargs', (PY, "sent_events.append(InternalEvent(name, **kwargs))", "sent_events.append(InternalEvent(name))"))
B('C05', 'queue writer elsewhere', (D, "self._listeners.remove(listener)", "self._listeners.remove(listener)\n        self._external_queue.clear()"))
B('C05', 'eventless step keeps event', (D, 'event = None if transitions[0].event is None else event', 'event = event'))
B('C05', 'internal events into external queue', (D, 'if isinstance(event, InternalEvent):\n            queue = cast(List[Tuple[float, Event]], self._internal_queue)',
                                               'if not isinstance(event, InternalEvent):\n            queue = cast(List[Tuple[float, Event]], self._internal_queue)'))
B('C05', 'peek second entry', (D, 'time, event = queue[0]', 'time, event = queue[-1]'))
T('C05', 'flipped due comparison', (D, 'if time <= self.time:', 'if self.time >= time:'))
T('C05', 'truthiness for len', (D, 'for queue in cast(\n                Tuple[List[Tuple[float, Event]]],\n                (self._internal_queue, self._external_queue)):\n            if len(queue) > 0:',
                                 'for queue in cast(\n                Tuple[List[Tuple[float, Event]]],\n                (self._internal_queue, self._external_queue)):\n            if queue:'))
T('C05', 'merged ifs', (D, 'if time <= self.time:\n                    if consume:\n                        queue.pop(0)\n                    return event',
                         'if time <= self.time and consume:\n                    queue.pop(0)\n                if time <= self.time:\n                    return event'))
T('C05', 'renamed position', (D, 'position = bisect.bisect_right(', 'idx = bisect.bisect_right('), (D, 'queue.insert(position, (time, event))', 'queue.insert(idx, (time, event))'))
