"""Query helpers shared by the rules (all work on resolved facts, never on positions)."""
import ast

from .cfg import build_cfg, guards, atoms, guard_atoms
from .prog import chain, dotted, strip_cast, own_nodes, enclosing, enclosing_stmt
from .loader import AnalysisError


def walk(fnode, nested=True):
    return list(own_nodes(fnode, include_nested=nested))


def calls(fnode, nested=True):
    return [n for n in walk(fnode, nested) if isinstance(n, ast.Call)]


def callee_shorts(run, call):
    fi = run.prog.func_of(call)
    targets, ext, ok = run.prog.resolve_call(call, fi)
    return [t.short for t in targets], ext


def calls_to(run, fnode, names, nested=True):
    """Call nodes whose resolved callee has a short name in `names`, or whose method name is in `names`
    ('execute_on_exit' matches every implementation of the slot)."""
    out = []
    for c in calls(fnode, nested):
        shorts, ext = callee_shorts(run, c)
        hit = any(s in names or s.split('.')[-1] in names for s in shorts)
        if not hit and ext:
            hit = ext in names or ext.split('.')[-1] in names or ext.split(':')[-1] in names
        if hit:
            out.append(c)
    return sorted(out, key=lambda n: (n.lineno, n.col_offset))


def const_str(node):
    node = strip_cast(node)
    if isinstance(node, ast.Constant) and isinstance(node.value, str):
        return node.value
    return None


def kwargs_of(call):
    return {k.arg: k.value for k in call.keywords if k.arg}


def arg(call, index, name=None):
    if name is not None:
        for k in call.keywords:
            if k.arg == name:
                return k.value
    if index is not None and index < len(call.args):
        return call.args[index]
    return None


def meta_events(run, fnode):
    """MetaEvent('name', k=v, ..) constructions: [(name, {attr: expr}, call node)]."""
    out = []
    for c in calls(fnode):
        f = strip_cast(c.func)
        if isinstance(f, ast.Name) and f.id == 'MetaEvent' and c.args:
            name = const_str(c.args[0])
            if name is None:
                name = '?' + unparse(c.args[0])[:60]      # a name computed at run time
            out.append((name, kwargs_of(c), c))
    return sorted(out, key=lambda t: (t[2].lineno, t[2].col_offset))


def emissions(run, fnode):
    """self._raise_event(MetaEvent('name', ..)) statements: [(name, kwargs, raise-call node)]."""
    out = []
    for c in calls_to(run, fnode, {'Interpreter._raise_event'}):
        if c.args:
            a = strip_cast(c.args[0])
            if isinstance(a, ast.Call) and isinstance(a.func, ast.Name) and a.func.id == 'MetaEvent' and a.args:
                out.append((const_str(a.args[0]) or '?' + unparse(a.args[0])[:60], kwargs_of(a), c))
    return out


def contract_calls(run, fnode):
    """self._evaluate_contract_conditions(obj, 'kind', step): [(obj expr, kind, step expr, call)]."""
    out = []
    for c in calls_to(run, fnode, {'Interpreter._evaluate_contract_conditions'}):
        out.append((arg(c, 0, 'obj'), const_str(arg(c, 1, 'cond_type')) if arg(c, 1, 'cond_type') is not None else None,
                    arg(c, 2, 'step'), c))
    return out


def loops_over(fnode, pred):
    """For statements whose iterable satisfies pred(iter expr)."""
    return [n for n in walk(fnode, nested=False) if isinstance(n, ast.For) and pred(strip_cast(n.iter))]


def in_node(node, container):
    p = node
    while p is not None:
        if p is container:
            return True
        p = getattr(p, '_parent', None)
    return False


def block_of(stmt):
    """The statement list (body / orelse / finalbody / handler body) that directly contains stmt."""
    par = getattr(stmt, '_parent', None)
    for f_ in ('body', 'orelse', 'finalbody'):
        b = getattr(par, f_, None)
        if isinstance(b, list) and stmt in b:
            return b
    return []


def in_block(node, block):
    return any(in_node(node, st) for st in block)


def cfgnode(fnode, node):
    cfg = build_cfg(fnode)
    n = cfg.node_of(node)
    if n is None:
        raise AnalysisError('no CFG node for %s in %s' % (ast.unparse(node)[:50], fnode.name))
    return n


def dominates(fnode, a, b):
    cfg = build_cfg(fnode)
    return cfg.dominates(cfgnode(fnode, a), cfgnode(fnode, b))


def strictly_before(fnode, a, b):
    """a executes before b on every path reaching b (different statements)."""
    cfg = build_cfg(fnode)
    na, nb = cfgnode(fnode, a), cfgnode(fnode, b)
    if na.id == nb.id:
        return _before_in_stmt(a, b)
    return cfg.dominates(na, nb)


def _before_in_stmt(a, b):
    return (a.lineno, a.col_offset) < (b.lineno, b.col_offset)


def always_followed_by(fnode, a, b):
    """every normal path from a to the function exit passes b."""
    cfg = build_cfg(fnode)
    na, nb = cfgnode(fnode, a), cfgnode(fnode, b)
    if na.id == nb.id:
        return True
    return cfg.postdominates(nb, na)


def never_after(fnode, a, b):
    """Whenever a and b both execute in one iteration of their innermost common loop (or in the function),
    a comes first: a can reach b, and b cannot reach a without passing that loop's head."""
    cfg = build_cfg(fnode)
    na, nb = cfgnode(fnode, a), cfgnode(fnode, b)
    if na.id == nb.id:
        return _before_in_stmt(a, b)
    la, lb = cfg.loop_of.get(na.id, []), cfg.loop_of.get(nb.id, [])
    common = [x for x in la if x in lb]
    avoid = [common[-1]] if common else []
    if not cfg.reaches(na, nb, avoiding=avoid):
        return False
    return not cfg.reaches(nb, na, avoiding=avoid)


def ordered(fnode, a, b):
    """a before b on all paths to b, and b after a on all normal paths from a: a ≺ b."""
    return strictly_before(fnode, a, b) and always_followed_by(fnode, a, b)


def name_uses(node, name):
    return [n for n in ast.walk(node) if isinstance(n, ast.Name) and n.id == name]


def reads_name(node, name):
    return any(isinstance(n, ast.Name) and n.id == name and isinstance(n.ctx, ast.Load) for n in ast.walk(node))


def assigned_value(fnode, name, nested=False):
    """All value expressions assigned to local `name` in fnode."""
    out = []
    for n in walk(fnode, nested):
        if isinstance(n, ast.Assign):
            for t in n.targets:
                if isinstance(t, ast.Name) and t.id == name:
                    out.append((n, n.value))
                elif isinstance(t, (ast.Tuple, ast.List)):
                    for i, el in enumerate(t.elts):
                        if isinstance(el, ast.Name) and el.id == name:
                            out.append((n, n.value))
        elif isinstance(n, ast.AugAssign) and isinstance(n.target, ast.Name) and n.target.id == name:
            out.append((n, n.value))
        elif isinstance(n, ast.AnnAssign) and isinstance(n.target, ast.Name) and n.target.id == name and n.value:
            out.append((n, n.value))
    return out


def for_targets(fnode, name):
    return [n for n in walk(fnode, nested=False) if isinstance(n, ast.For)
            and any(isinstance(t, ast.Name) and t.id == name for t in ast.walk(n.target))]


def unparse(n):
    if n is None:
        return '<missing>'
    return ' '.join(ast.unparse(n).split())


def is_self_attr(node, attr=None):
    node = strip_cast(node)
    return isinstance(node, ast.Attribute) and isinstance(node.value, ast.Name) and node.value.id == 'self' and \
        (attr is None or node.attr == attr)


def fields_read(run, node, fi):
    """(class, field) pairs read inside expression/statement `node`."""
    out = []
    for n in ast.walk(node):
        if isinstance(n, ast.Attribute) and isinstance(n.ctx, ast.Load):
            for c in run.prog.expr_types(n.value, fi):
                out.append((c, n.attr))
    return out


def raises_in(fnode, nested=True):
    return [n for n in walk(fnode, nested) if isinstance(n, ast.Raise)]


def raised_class(r):
    """Name of the exception class of a raise statement (None for bare re-raise)."""
    if r.exc is None:
        return None
    e = r.exc
    if isinstance(e, ast.Call):
        e = e.func
        if isinstance(e, ast.Name):
            # a local error factory: a nested def (or lambda) all of whose results are K(..)
            par = getattr(r, '_parent', None)
            while par is not None:
                if isinstance(par, (ast.FunctionDef, ast.AsyncFunctionDef)):
                    for n in par.body:
                        vals = None
                        if isinstance(n, ast.FunctionDef) and n.name == e.id:
                            vals = [x.value for x in ast.walk(n) if isinstance(x, ast.Return)]
                        elif isinstance(n, ast.Assign) and len(n.targets) == 1 and isinstance(n.targets[0], ast.Name) and n.targets[0].id == e.id \
                                and isinstance(n.value, ast.Lambda):
                            vals = [n.value.body]
                        if vals:
                            ks = {dotted(v.func) if isinstance(v, ast.Call) else None for v in vals}
                            if len(ks) == 1 and None not in ks:
                                return next(iter(ks)).split('.')[-1]
                par = getattr(par, '_parent', None)
    d = dotted(e)
    return d.split('.')[-1] if d else None


def local_origin(fnode, expr, depth=0):
    """Follow a local name back through single plain assignments: returns the set of origin expressions."""
    expr = strip_cast(expr)
    if depth > 8 or not isinstance(expr, ast.Name):
        return [expr]
    vals = assigned_value(fnode, expr.id)
    if not vals:
        return [expr]
    out = []
    for st, v in vals:
        if isinstance(st, ast.Assign) and len(st.targets) == 1 and isinstance(st.targets[0], ast.Name) \
                and not reads_name(v, expr.id):
            out += local_origin(fnode, v, depth + 1)
        else:
            out.append(v)
    return out


# ------------------------------------------------------------------ boolean abstraction of guards
_NEGOP = {'==': '!=', '!=': '==', '<': '>=', '>=': '<', '>': '<=', '<=': '>', 'is': 'is not', 'is not': 'is',
          'in': 'not in', 'not in': 'in', 'truthy': 'falsy', 'falsy': 'truthy'}
_POSOPS = ('==', '<', '<=', 'is', 'in', 'truthy')


def canon_atom(expr):
    """Canonical (op, left, right, polarity) of an atomic condition: op is always a 'positive' operator."""
    a = atoms(expr, True)
    if len(a) != 1:
        return None
    op, l, r = a[0]
    if op in ('>', '>='):
        # atoms() already swapped > and >= ; defensive
        op, l, r = {'>': '<', '>=': '<='}[op], r, l
    if op in _POSOPS:
        return (op, l, r, True)
    return (_NEGOP[op], l, r, False)


def _finite_items(a):
    """The finitely many operand expressions of any(..) / all(..) when they can be enumerated syntactically."""
    if isinstance(a, (ast.List, ast.Tuple, ast.Set)):
        return list(a.elts)
    if isinstance(a, (ast.GeneratorExp, ast.ListComp)) and len(a.generators) == 1:
        g = a.generators[0]
        it = strip_cast(g.iter)
        if isinstance(g.target, ast.Name) and not g.ifs and isinstance(it, (ast.List, ast.Tuple, ast.Set)) and it.elts \
                and all(isinstance(x, ast.Constant) for x in it.elts):
            out = []
            for c in it.elts:
                class _S(ast.NodeTransformer):
                    def visit_Name(self, node):
                        if node.id == g.target.id and isinstance(node.ctx, ast.Load):
                            return ast.copy_location(ast.Constant(value=c.value), node)
                        return node
                import copy as _copy
                out.append(ast.fix_missing_locations(_S().visit(_copy.deepcopy(a.elt))))
            return out
    return None


class BoolAbs:
    """Evaluate guard conditions as propositional formulas over classified atoms.
    classify(op, left, right, expr) -> variable name or None (unknown atoms become their own variables '?text')."""

    def __init__(self, classify):
        self.classify = classify
        self.vars = []

    def _var(self, e):
        e = strip_cast(e)
        c = canon_atom(e)
        if c is None:
            name, pol = '?' + unparse(e), True
        else:
            op, l, r, pol = c
            name = self.classify(op, l, r, e)
            if name is None:
                name = '?%s %s %s' % (l, op, r)
            elif isinstance(name, tuple):
                name, p2 = name
                pol = pol == p2
        if name not in self.vars:
            self.vars.append(name)
        return name, pol

    def ev(self, e, val):
        e = strip_cast(e)
        if isinstance(e, ast.UnaryOp) and isinstance(e.op, ast.Not):
            return not self.ev(e.operand, val)
        if isinstance(e, ast.BoolOp):
            rs = [self.ev(v, val) for v in e.values]
            return all(rs) if isinstance(e.op, ast.And) else any(rs)
        if isinstance(e, ast.Constant):
            return bool(e.value)
        if isinstance(e, ast.Call) and isinstance(e.func, ast.Name) and e.func.id == 'bool' and len(e.args) == 1 and not e.keywords:
            return self.ev(e.args[0], val)
        if isinstance(e, ast.IfExp):
            t_, b_, o_ = self.ev(e.test, val), self.ev(e.body, val), self.ev(e.orelse, val)      # (all three are visited so that every atom gets its variable)
            return b_ if t_ else o_
        if isinstance(e, ast.Compare) and len(e.ops) == 1:
            l_, r_ = strip_cast(e.left), strip_cast(e.comparators[0])
            # a conditional expression as operand: the comparison distributes over its two cases
            if isinstance(l_, ast.IfExp):
                t_ = self.ev(l_.test, val)
                b_ = self.ev(ast.Compare(left=l_.body, ops=e.ops, comparators=e.comparators), val)
                o_ = self.ev(ast.Compare(left=l_.orelse, ops=e.ops, comparators=e.comparators), val)
                return b_ if t_ else o_
            if isinstance(r_, ast.IfExp):
                t_ = self.ev(r_.test, val)
                b_ = self.ev(ast.Compare(left=e.left, ops=e.ops, comparators=[r_.body]), val)
                o_ = self.ev(ast.Compare(left=e.left, ops=e.ops, comparators=[r_.orelse]), val)
                return b_ if t_ else o_
            if isinstance(l_, ast.Constant) and isinstance(r_, ast.Constant):
                a_, b_ = l_.value, r_.value
                op_ = e.ops[0]
                if isinstance(op_, (ast.Is, ast.Eq)) and (a_ is None or b_ is None or isinstance(op_, ast.Eq)):
                    return a_ == b_ if isinstance(op_, ast.Eq) else a_ is b_
                if isinstance(op_, (ast.IsNot, ast.NotEq)) and (a_ is None or b_ is None or isinstance(op_, ast.NotEq)):
                    return a_ != b_ if isinstance(op_, ast.NotEq) else a_ is not b_
        if isinstance(e, ast.Call) and isinstance(e.func, ast.Name) and e.func.id in ('any', 'all') and len(e.args) == 1 and not e.keywords:
            # any / all over a display, or over a generator ranging over a display of constants: a finite disjunction / conjunction
            items = _finite_items(strip_cast(e.args[0]))
            if items is not None:
                rs = [self.ev(i, val) for i in items]
                return any(rs) if e.func.id == 'any' else all(rs)
        if isinstance(e, ast.Call) and isinstance(e.func, ast.Name) and e.func.id == 'isinstance' and len(e.args) == 2 \
                and isinstance(e.args[1], ast.Tuple) and e.args[1].elts:
            # isinstance(x, (A, B)) is the disjunction of the per-class tests, unless the rule classifies the tuple test as a whole
            c = canon_atom(e)
            if c is None or self.classify(c[0], c[1], c[2], e) is None:
                return any(self.ev(ast.Call(func=e.func, args=[e.args[0], k], keywords=[]), val) for k in e.args[1].elts)
        name, pol = self._var(e)
        return val.get(name, False) == pol

    def table(self, guard_list):
        """-> (vars, set of frozensets of true variables under which every guard holds)."""
        for g in guard_list:
            self.ev(g[0], {})
        vs = list(self.vars)
        sat = set()
        for mask in range(1 << len(vs)):
            val = {v: bool(mask >> i & 1) for i, v in enumerate(vs)}
            if all(self.ev(g[0], val) == g[1] for g in guard_list):
                sat.add(frozenset(v for v in vs if val[v]))
        return vs, sat


def table_equals(vs, sat, spec):
    """spec(val: dict) -> bool must coincide with membership in sat for every valuation over vs."""
    bad = []
    for mask in range(1 << len(vs)):
        val = {v: bool(mask >> i & 1) for i, v in enumerate(vs)}
        got = frozenset(v for v in vs if val[v]) in sat
        if got != bool(spec(val)):
            bad.append(({k: v for k, v in val.items()}, got))
    return bad


def const_eval(expr, env):
    """Evaluate a small constant expression over known names (defaults of keyword parameters)."""
    expr = strip_cast(expr)
    if isinstance(expr, ast.Constant):
        return expr.value
    if isinstance(expr, ast.Name):
        if expr.id in env:
            return env[expr.id]
        raise KeyError(expr.id)
    if isinstance(expr, ast.UnaryOp) and isinstance(expr.op, ast.Not):
        return not const_eval(expr.operand, env)
    if isinstance(expr, ast.UnaryOp) and isinstance(expr.op, ast.USub):
        return -const_eval(expr.operand, env)
    if isinstance(expr, ast.BoolOp):
        vals = [const_eval(v, env) for v in expr.values]
        return all(vals) if isinstance(expr.op, ast.And) else any(vals)
    if isinstance(expr, ast.IfExp):
        return const_eval(expr.body if const_eval(expr.test, env) else expr.orelse, env)
    if isinstance(expr, ast.Compare) and len(expr.ops) == 1:
        l, r = const_eval(expr.left, env), const_eval(expr.comparators[0], env)
        op = expr.ops[0]
        return {ast.Eq: l == r, ast.NotEq: l != r, ast.Is: l is r, ast.IsNot: l is not r}.get(type(op))
    raise KeyError(unparse(expr))


def param_defaults(fnode):
    env = {}
    a = fnode.args
    pos = a.posonlyargs + a.args
    for p, d in zip(pos[len(pos) - len(a.defaults):], a.defaults):
        if isinstance(d, ast.Constant):
            env[p.arg] = d.value
    for p, d in zip(a.kwonlyargs, a.kw_defaults):
        if d is not None and isinstance(d, ast.Constant):
            env[p.arg] = d.value
    return env


def param_names(fnode):
    a = fnode.args
    return [p.arg for p in a.posonlyargs + a.args + a.kwonlyargs]


def _getter(v):
    """operator.attrgetter('a') / attrgetter('a.b') / itemgetter(k) written as the expression it computes on `_item`."""
    v = strip_cast(v)
    if isinstance(v, ast.Call) and len(v.args) == 1 and not v.keywords and isinstance(v.args[0], ast.Constant):
        base = (dotted(v.func) or '').split('.')[-1]
        if base == 'attrgetter' and isinstance(v.args[0].value, str) and all(p_.isidentifier() for p_ in v.args[0].value.split('.')):
            return '_item', ast.parse('_item.' + v.args[0].value, mode='eval').body
        if base == 'itemgetter' and isinstance(v.args[0].value, (int, str)):
            return '_item', ast.parse('_item[%r]' % (v.args[0].value,), mode='eval').body
    return None


def key_function(run, fnode, keyexpr):
    """The expression a `key=` argument computes and the name of its parameter: (param, expr) or None."""
    keyexpr = strip_cast(keyexpr)
    if isinstance(keyexpr, ast.Lambda):
        return keyexpr.args.args[0].arg, keyexpr.body
    if _getter(keyexpr) is not None:
        return _getter(keyexpr)
    if isinstance(keyexpr, ast.Call) and len(keyexpr.args) == 1 and isinstance(keyexpr.args[0], ast.Constant) and isinstance(keyexpr.args[0].value, int):
        fi = run.prog.func_of(keyexpr)
        tg, ext, ok = run.prog.resolve_call(keyexpr, fi)
        if ext == 'operator.itemgetter':
            return '_item', ast.parse('_item[%d]' % keyexpr.args[0].value, mode='eval').body
    if isinstance(keyexpr, ast.Name):
        for n in walk(fnode, nested=True):
            if isinstance(n, ast.FunctionDef) and n.name == keyexpr.id:
                rets = [x for x in ast.walk(n) if isinstance(x, ast.Return)]
                if len(rets) == 1 and rets[0].value is not None and n.args.args:
                    return n.args.args[0].arg, rets[0].value
        for st, v in assigned_value(fnode, keyexpr.id, nested=True):
            v = strip_cast(v)
            if isinstance(v, ast.Lambda):
                return v.args.args[0].arg, v.body
            if _getter(v) is not None:
                return _getter(v)
        # a module-level constant: _label = itemgetter(0) / _label = lambda e: e[0]
        mod = getattr(fnode, '_mod', None)
        tree = getattr(mod, 'tree', None)
        if tree is not None:
            for st in tree.body:
                if isinstance(st, ast.Assign) and len(st.targets) == 1 and isinstance(st.targets[0], ast.Name) and st.targets[0].id == keyexpr.id:
                    v = strip_cast(st.value)
                    if isinstance(v, ast.Lambda):
                        return v.args.args[0].arg, v.body
                    if _getter(v) is not None:
                        return _getter(v)
    return None


# ------------------------------------------------------------------ alternatives / accumulations (robust to common refactorings)
def alternatives(fnode, expr, depth=0):
    """[(value expr, defining stmt or None)]: the expression itself, or, for a local name, every value assigned to it
    (followed through plain single assignments)."""
    expr = strip_cast(expr)
    if depth > 6 or not isinstance(expr, ast.Name):
        return [(expr, None)]
    defs = [(st, v) for st, v in assigned_value(fnode, expr.id) if isinstance(st, ast.Assign) and not reads_name(v, expr.id)]
    if not defs:
        return [(expr, None)]
    out = []
    for st, v in defs:
        v = strip_cast(v)
        if isinstance(v, ast.Name) and v.id != expr.id:
            for v2, st2 in alternatives(fnode, v, depth + 1):
                out.append((v2, st if st2 is None else st2))
        else:
            out.append((v, st))
    return out


def resolved_text(fnode, expr):
    """Text of expr with single-definition local names replaced by their defining expression (one level)."""
    alts = alternatives(fnode, expr)
    if len(alts) == 1:
        return unparse(alts[0][0])
    return unparse(expr)


def accumulations(fnode, listvar):
    """How elements get into local list `listvar`: [(element expr, iterable expr or None, [(cond, polarity)], node)].
    Covers L.append(x) / L.insert(i, x) in loops, L.extend(<gen/listcomp/expr>), L += .., L = [comprehension]."""
    out = []
    for n in walk(fnode, nested=False):
        if isinstance(n, ast.Call) and isinstance(n.func, ast.Attribute) and isinstance(n.func.value, ast.Name) and n.func.value.id == listvar:
            if n.func.attr in ('append', 'insert') and n.args:
                lp = enclosing(n, ast.For)
                out.append((n.args[-1], lp.iter if lp is not None else None, [(g[0], g[1]) for g in guards(n, stop=lp)] if lp is not None else [(g[0], g[1]) for g in guards(n)], n))
            elif n.func.attr == 'extend' and n.args:
                a = strip_cast(n.args[0])
                if isinstance(a, (ast.GeneratorExp, ast.ListComp)) and len(a.generators) == 1:
                    out.append((a.elt, a.generators[0].iter, [(c, True) for c in a.generators[0].ifs], n))
                else:
                    out.append((None, a, [], n))
        elif isinstance(n, ast.Assign) and len(n.targets) == 1 and isinstance(n.targets[0], ast.Name) and n.targets[0].id == listvar:
            v = strip_cast(n.value)
            if isinstance(v, ast.ListComp) and len(v.generators) == 1:
                out.append((v.elt, v.generators[0].iter, [(c, True) for c in v.generators[0].ifs], n))
        elif isinstance(n, ast.AugAssign) and isinstance(n.target, ast.Name) and n.target.id == listvar:
            v = strip_cast(n.value)
            if isinstance(v, ast.ListComp) and len(v.generators) == 1:
                out.append((v.elt, v.generators[0].iter, [(c, True) for c in v.generators[0].ifs], n))
            else:
                out.append((None, v, [], n))
    return out


def predicate_function(run, fnode, expr):
    """(param name, body expr) of a one-argument predicate given as lambda or as the name of a nested def / local lambda."""
    return key_function(run, fnode, expr)


def result_dropped(F, call, var, sinks_pred):
    """Paths from the definition `var = call` on which the value is neither consumed by a sink nor tested falsy before it is
    overwritten or the function exits. Returns a list of human-readable path descriptions (empty = never dropped)."""
    cfg = build_cfg(F)
    start = cfg.node_of(call)
    bad = []
    seen = set()
    work = [(start.id, [start])]
    while work:
        nid, path = work.pop()
        for y, lab in cfg.succ[nid]:
            node = cfg.nodes[y]
            src = cfg.nodes[nid]
            # leaving a test of the variable on its falsy side: nothing to report
            if src.kind == 'test' and src.id != start.id:
                c = canon_atom(src.ast)
                if c and c[0] == 'truthy' and c[1] == var:
                    falsy_edge = (lab == 'F') == c[3]
                    if falsy_edge:
                        continue
                if c and c[0] == 'is' and c[1] == var and c[2] == 'None':
                    if (lab == 'T') == c[3]:
                        continue
            if node.kind == 'exit':
                bad.append(' -> '.join('L%d' % p.lineno for p in path if p.lineno) + ' -> exit')
                continue
            if node.kind == 'raise':
                continue
            if node.ast is not None and sinks_pred(node):
                continue
            # redefinition kills the value
            st = node.ast
            if isinstance(st, ast.Assign) and any(isinstance(t, ast.Name) and t.id == var for t in st.targets) and node.id != start.id:
                bad.append(' -> '.join('L%d' % p.lineno for p in path if p.lineno) + ' -> overwritten at L%d' % node.lineno)
                continue
            if node.id == start.id:
                bad.append(' -> '.join('L%d' % p.lineno for p in path if p.lineno) + ' -> overwritten at L%d' % node.lineno)
                continue
            key = (y,)
            if key in seen:
                continue
            seen.add(key)
            work.append((y, path + [node]))
    return bad




def cases(fnode, expr, at_node=None, depth=0):
    """Case split of the value of expr: [(value expr, [atoms under which it is the value])].
    Splits conditional expressions and follows local names to their (possibly several, guarded) definitions."""
    expr = strip_cast(expr)
    if depth > 5:
        return [(expr, [])]
    if isinstance(expr, ast.IfExp):
        out = []
        for v, pol in ((expr.body, True), (expr.orelse, False)):
            for v2, at in cases(fnode, v, at_node, depth + 1):
                out.append((v2, atoms(expr.test, pol) + at))
        return out
    if isinstance(expr, ast.Name):
        defs = [(st, v) for st, v in assigned_value(fnode, expr.id) if isinstance(st, ast.Assign) and not reads_name(v, expr.id)]
        if defs:
            out = []
            bases = [guard_atoms(st) for st, v in defs]
            for i, (st, v) in enumerate(defs):
                base = list(bases[i])
                # default-then-override: `x = A` followed by `if c: x = B` - A is the value exactly when c does not hold
                for j, (st2, v2_) in enumerate(defs):
                    if j != i and len(bases[j]) == len(bases[i]) + 1 and bases[j][:len(bases[i])] == bases[i] and strictly_before(fnode, st, st2):
                        op_, l_, r_ = bases[j][-1]
                        if op_ in _NEGOP:
                            base.append((_NEGOP[op_], l_, r_))
                for v2, at in cases(fnode, v, st, depth + 1):
                    out.append((v2, base + at))
            return out
    return [(expr, [])]


def first_matches(fnode):
    """Searches for the first element of an iterable satisfying a condition, in the forms
         for v in IT: if C: return E          (+ return D after the loop)
         return next((E for v in IT if C), D)
         for v in IT: if C: r = E; break      else: r = D          (+ return r)
       -> [(E, v, IT, [(cond expr, polarity)], D or None)]"""
    out = []
    for n in walk(fnode, False):
        if isinstance(n, ast.Return) and n.value is not None:
            v = strip_cast(n.value)
            if isinstance(v, ast.Call) and isinstance(v.func, ast.Name) and v.func.id == 'next' and 1 <= len(v.args) <= 2 and isinstance(v.args[0], ast.GeneratorExp) \
                    and len(v.args[0].generators) == 1 and isinstance(v.args[0].generators[0].target, ast.Name):
                g = v.args[0].generators[0]
                out.append((v.args[0].elt, g.target.id, g.iter, [(c, True) for c in g.ifs], v.args[1] if len(v.args) == 2 else None))
        if isinstance(n, ast.For) and isinstance(n.target, ast.Name):
            rets = [x for st in n.body for x in ast.walk(st) if isinstance(x, ast.Return) and enclosing(x, ast.For) is n]
            for x in rets:
                blk = block_of(n)
                nxt = blk[blk.index(n) + 1] if blk and blk.index(n) + 1 < len(blk) else None
                dflt = nxt.value if isinstance(nxt, ast.Return) else None
                out.append((x.value, n.target.id, n.iter, [(g[0], g[1]) for g in guards(x, stop=n)], dflt))
            brks = [x for st in n.body for x in ast.walk(st) if isinstance(x, ast.Break) and enclosing(x, ast.For) is n]
            for b in brks:
                blk = block_of(b)
                prev = blk[blk.index(b) - 1] if blk.index(b) > 0 else None
                if isinstance(prev, ast.Assign) and len(prev.targets) == 1 and isinstance(prev.targets[0], ast.Name):
                    r = prev.targets[0].id
                    dflt = None
                    for st in n.orelse:
                        if isinstance(st, ast.Assign) and isinstance(st.targets[0], ast.Name) and st.targets[0].id == r:
                            dflt = st.value
                    if dflt is None:
                        inits = [val for st, val in assigned_value(fnode, r) if not in_node(st, n)]
                        dflt = inits[0] if len(inits) == 1 else None
                    returned = any(isinstance(x, ast.Return) and isinstance(strip_cast(x.value), ast.Name) and strip_cast(x.value).id == r for x in walk(fnode, False))
                    if returned:
                        out.append((prev.value, n.target.id, n.iter, [(g[0], g[1]) for g in guards(prev, stop=n)], dflt))
    return out


# ------------------------------------------------------------------ path conditions (structured, no CFG): disjunctive normal form
_LEAVERS = (ast.Return, ast.Raise, ast.Continue, ast.Break)


def _fall(stmt):
    """Conditions (DNF: list of [(test, polarity)]) under which control continues after stmt."""
    if isinstance(stmt, _LEAVERS):
        return []
    if isinstance(stmt, ast.If):
        out = []
        for c in _fall_block(stmt.body):
            out.append([(stmt.test, True)] + c)
        for c in (_fall_block(stmt.orelse) if stmt.orelse else [[]]):
            out.append([(stmt.test, False)] + c)
        return out
    if isinstance(stmt, ast.Try):
        return [[]] if (_fall_block(stmt.body) or any(_fall_block(h.body) for h in stmt.handlers)) else []
    if isinstance(stmt, ast.With):
        return _fall_block(stmt.body)
    return [[]]


def _fall_block(stmts):
    cur = [[]]
    for st in stmts:
        f = _fall(st)
        cur = [a + b for a in cur for b in f][:128]
        if not cur:
            return []
    return cur


def reach_dnf(node, stop=None):
    """Conditions under which `node` is reached from the start of the function (or of the body of loop / statement `stop`), as a
    disjunction of conjunctions [(test, polarity)]: the tests of enclosing ifs, and what earlier sibling statements that can leave
    (return / raise / continue / break, possibly deep inside an if / elif / else chain) require for control to get past them."""
    chain = []
    cur = node
    while cur is not None and cur is not stop:
        par = getattr(cur, '_parent', None)
        if par is None:
            break
        if isinstance(cur, ast.stmt):
            chain.append((par, cur))
            if isinstance(par, (ast.FunctionDef, ast.AsyncFunctionDef)):
                break
        cur = par
    dnf = [[]]
    for par, st in reversed(chain):
        blk = None
        pol = None
        for fld in ('body', 'orelse', 'finalbody'):
            b = getattr(par, fld, None)
            if isinstance(b, list) and st in b:
                blk = b
                if isinstance(par, ast.If) and par is not stop:
                    pol = fld == 'body'
        if blk is None:
            for h in getattr(par, 'handlers', []) or []:
                if st in h.body:
                    blk = h.body
        if blk is None:
            continue
        if pol is not None:
            dnf = [c + [(par.test, pol)] for c in dnf]
        pre = _fall_block(blk[:blk.index(st)])
        dnf = [a + b for a in dnf for b in pre][:256]
    return dnf


def dnf_holds(ba, dnf, val):
    return any(all(ba.ev(e, val) == pol for e, pol in conj) for conj in dnf)
