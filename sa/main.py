"""Entry point: ./check <Cnn> [--tier quick|thorough] [--replay F]; ./check all; ./check selftest [Cnn..]."""
import importlib
import json
import os
import sys
import time
import traceback

from .loader import AnalysisError, Tree
from .prog import Program
from .report import Run, finish

PROPS = ['C%02d' % i for i in range(1, 21)]


def run_rules(prop, tree=None, only_rule=None):
    mod = importlib.import_module('sa.rules.' + prop.lower())
    run = Run(prop, tree)
    run.only_rule = only_rule
    run.guard(mod.check, run)
    if only_rule:
        run.findings = [f for f in run.findings if f.rule == only_rule]
    return run, mod


def check_one(prop, tier, seed, replay=None):
    t0 = time.time()
    only = None
    if replay:
        with open(replay) as fh:
            only = json.load(fh).get('rule')
    try:
        run, mod = run_rules(prop, only_rule=only)
        selftest = None
        if tier == 'thorough' and not replay:
            from .selftest import runner
            selftest = runner.explore(prop, seed)
        code = finish(prop, run, tier, seed, t0, mod.EXPLANATION, selftest=selftest, write=not replay)
        for e in run.analysis_errors:
            print('ANALYSIS-ERROR %s: %s' % (prop, e))
        if run.analysis_errors and code == 0:
            code = 2      # nothing violated as far as the analysis got, but it could not decide everything
        n_ob = len(run.obligations)
        print('%s: %d obligations over %d rules, %d finding(s), tier=%s, %.2fs' %
              (prop, n_ob, len(run.rules), len(run.findings), tier, time.time() - t0))
        return code
    except AnalysisError as e:
        print('ANALYSIS-ERROR %s: %s' % (prop, e))
        return 2
    except Exception:
        print('ANALYSIS-ERROR %s: internal error\n%s' % (prop, traceback.format_exc()))
        return 2


def main(argv):
    if not argv:
        print(__doc__)
        return 2
    tier = os.environ.get('VERIF_TIER', 'quick')
    seed = int(os.environ.get('VERIF_SEED', '0') or 0)
    replay = None
    args = []
    i = 0
    while i < len(argv):
        if argv[i] == '--tier':
            tier = argv[i + 1]
            i += 2
        elif argv[i] == '--replay':
            replay = argv[i + 1]
            i += 2
        else:
            args.append(argv[i])
            i += 1
    if tier not in ('quick', 'thorough'):
        tier = 'quick'
    if args[0] == 'all':
        worst = 0
        for p in PROPS:
            worst = max(worst, check_one(p, tier, seed))
        return worst
    if args[0] == 'selftest':
        from .selftest import runner
        return runner.main(args[1:], seed)
    prop = args[0].upper()
    if prop not in PROPS:
        print('unknown property %s' % prop)
        return 2
    return check_one(prop, tier, seed, replay)


if __name__ == '__main__':
    code = main(sys.argv[1:])
    sys.stdout.flush()
    os._exit(code)
