"""Resolved program: classes, MRO, functions, imports, local types, callee resolution, call graph, effects."""
import ast
import re
import builtins

from .loader import AnalysisError

MUTATORS = {'append', 'add', 'remove', 'pop', 'insert', 'clear', 'extend', 'update', 'sort',
            'setdefault', 'discard', 'popitem', 'reverse', 'appendleft', 'popleft'}

# Field types that cannot be read off annotations / constructor assignments (A4), one reason each.
FIELD_TYPES = {
    ('PythonEvaluator', '_interpreter'): ['Interpreter'],        # un-annotated back reference given by Interpreter.__init__ (evaluator_klass(self, ..))
    ('SynchronizedClock', '_interpreter'): ['Interpreter'],      # constructed as SynchronizedClock(self) in bind_property_statechart
    ('PropertyStatechartListener', '_interpreter'): ['Interpreter'],  # built by interpreter_klass(..), default Interpreter
    ('Interpreter', '_evaluator'): ['Evaluator'],                # evaluator_klass: Callable[..., Evaluator]
    ('Interpreter', 'clock'): ['Clock'],                         # SimulatedClock() if clock is None else clock (clock: Clock)
    ('Interpreter', '_statechart'): ['Statechart'],
    ('AsyncRunner', 'interpreter'): ['Interpreter'],
}
# Names that always denote an object of a given class inside given modules (A4).
NAME_TYPES = {
    ('sismic.bdd.steps', 'context.interpreter'): 'Interpreter',        # behave context attribute set in before_scenario
    ('sismic.bdd.environment', 'context.interpreter'): 'Interpreter',
}
# Callable-valued parameters and what they stand for by default (A4).
CALLABLE_PARAMS = {
    ('Interpreter.__init__', 'evaluator_klass'): 'Evaluator',
    ('Interpreter.bind_property_statechart', 'interpreter_klass'): 'Interpreter',
}


def chain(node):
    """Attribute chain of an expression as a list of names, or None: self._a.b -> ['self','_a','b']."""
    out = []
    while isinstance(node, ast.Attribute):
        out.append(node.attr)
        node = node.value
    if isinstance(node, ast.Name):
        out.append(node.id)
        return out[::-1]
    if isinstance(node, ast.Call) and isinstance(node.func, ast.Name) and node.func.id == 'cast' \
            and len(node.args) == 2:
        inner = chain(node.args[1])
        if inner is not None:
            return inner + out[::-1]
    return None


def dotted(node):
    c = chain(node)
    return '.'.join(c) if c else None


def strip_cast(node):
    """typing.cast(T, e) is the identity on values."""
    while isinstance(node, ast.Call) and isinstance(node.func, ast.Name) and node.func.id == 'cast' \
            and len(node.args) == 2:
        node = node.args[1]
    return node


def enclosing(node, kinds):
    p = getattr(node, '_parent', None)
    while p is not None and (not isinstance(p, kinds) or getattr(p, '_synthetic', False)):
        p = getattr(p, '_parent', None)
    return p


def enclosing_stmt(node):
    while node is not None and not isinstance(node, ast.stmt):
        node = getattr(node, '_parent', None)
    return node


class ClassInfo:
    def __init__(self, name, module, node):
        self.name = name
        self.module = module
        self.node = node
        self.qual = module.name + ':' + name
        self.base_exprs = node.bases
        self.bases = []
        self.methods = {}   # name -> FuncInfo (getter for properties)
        self.setters = {}   # name -> FuncInfo
        self.props = set()

    def __repr__(self):
        return '<class %s>' % self.qual


class FuncInfo:
    def __init__(self, name, short, module, cls, node, outer=None):
        self.name = name
        self.short = short
        self.module = module
        self.cls = cls
        self.node = node
        self.outer = outer
        self.qual = module.name + ':' + short
        self.is_property = False
        self.is_setter = False

    @property
    def where(self):
        return '%s:%d' % (self.module.relpath, self.node.lineno)

    def __repr__(self):
        return '<func %s>' % self.qual


def own_nodes(fnode, include_nested=True):
    """Walk the body of a function; nested defs / lambdas are included (closures are attributed to their owner)."""
    stack = list(ast.iter_child_nodes(fnode))
    while stack:
        n = stack.pop()
        yield n
        if not include_nested and isinstance(n, (ast.FunctionDef, ast.AsyncFunctionDef, ast.Lambda)):
            continue
        if isinstance(n, ast.ClassDef):
            continue
        stack.extend(ast.iter_child_nodes(n))


class Program:
    def __init__(self, tree):
        self.tree = tree
        self.classes = {}
        self.class_short = {}
        self.funcs = {}
        self.func_short = {}
        self.module_defs = {}     # modname -> {name: ('class', ci) | ('func', fi)}
        self.module_imports = {}  # modname -> {name: (srcmod, srcname | None)} ; stars: list
        self.module_stars = {}
        self.unresolved = []
        self._callcache = {}
        self._collect()
        self._link_bases()
        self.callgraph = None

    # ------------------------------------------------------------------ collection
    def _collect(self):
        for mod in self.tree.modules.values():
            defs = {}
            imps = {}
            stars = []
            pkg = mod.name if mod.relpath.endswith('__init__.py') else mod.name.rsplit('.', 1)[0]
            for st in mod.tree.body:
                if isinstance(st, ast.ClassDef):
                    ci = ClassInfo(st.name, mod, st)
                    self.classes[ci.qual] = ci
                    self.class_short.setdefault(st.name, []).append(ci)
                    defs[st.name] = ('class', ci)
                    for m in st.body:
                        if isinstance(m, (ast.FunctionDef, ast.AsyncFunctionDef)):
                            self._add_func(m, mod, ci, None)
                elif isinstance(st, (ast.FunctionDef, ast.AsyncFunctionDef)):
                    fi = self._add_func(st, mod, None, None)
                    defs[st.name] = ('func', fi)
                elif isinstance(st, ast.ImportFrom):
                    base = pkg.split('.')
                    if st.level:
                        base = base[:len(base) - (st.level - 1)]
                        src = '.'.join(base + ([st.module] if st.module else []))
                    else:
                        src = st.module
                    for a in st.names:
                        if a.name == '*':
                            stars.append(src)
                        else:
                            imps[a.asname or a.name] = (src, a.name)
                elif isinstance(st, ast.Import):
                    for a in st.names:
                        imps[(a.asname or a.name).split('.')[0]] = (a.name if a.asname else a.name.split('.')[0], None)
            self.module_defs[mod.name] = defs
            self.module_imports[mod.name] = imps
            self.module_stars[mod.name] = stars

    def _add_func(self, node, mod, ci, outer):
        deco = [ast.unparse(d) for d in node.decorator_list]
        name = node.name
        is_setter = any(d.endswith('.setter') for d in deco)
        is_prop = any(d in ('property', 'abc.abstractproperty', 'abstractproperty') for d in deco)
        if outer is not None:
            short = outer.short + '.<locals>.' + name
        elif ci is not None:
            short = ci.name + '.' + name + ('@setter' if is_setter else '')
        else:
            short = name
        fi = FuncInfo(name, short, mod, ci, node, outer)
        fi.is_property = is_prop
        fi.is_setter = is_setter
        node._fi = fi
        if short in self.func_short and outer is None and ci is None:
            pass
        self.funcs[fi.qual] = fi
        self.func_short.setdefault(short, []).append(fi)
        if ci is not None and outer is None:
            if is_setter:
                ci.setters[name] = fi
            else:
                ci.methods[name] = fi
                if is_prop:
                    ci.props.add(name)
        for sub in own_nodes(node, include_nested=False):
            if isinstance(sub, (ast.FunctionDef, ast.AsyncFunctionDef)):
                self._add_func(sub, mod, ci, fi)
        return fi

    def _link_bases(self):
        for ci in self.classes.values():
            for b in ci.base_exprs:
                d = dotted(b)
                if d is None:
                    continue
                r = self.resolve_global(ci.module.name, d.split('.')[0]) if '.' not in d else None
                if r and r[0] == 'class':
                    ci.bases.append(r[1])

    # ------------------------------------------------------------------ lookup
    def resolve_global(self, modname, name, _seen=None):
        _seen = _seen or set()
        if (modname, name) in _seen:
            return None
        _seen.add((modname, name))
        defs = self.module_defs.get(modname)
        if defs is None:
            return ('external', modname + '.' + name)
        if name in defs:
            return defs[name]
        imps = self.module_imports[modname]
        if name in imps:
            src, srcname = imps[name]
            if srcname is None:
                return ('module', src)
            if src in self.module_defs:
                r = self.resolve_global(src, srcname, _seen)
                if r is not None:
                    return r
                if (src + '.' + srcname) in self.module_defs:
                    return ('module', src + '.' + srcname)
                return None
            return ('external', src + '.' + srcname)
        for src in self.module_stars[modname]:
            if src in self.module_defs:
                r = self.resolve_global(src, name, _seen)
                if r is not None and r[0] != 'external':
                    return r
        return None

    def cls(self, name):
        cands = self.class_short.get(name, [])
        cands = [c for c in cands if c.module.name != 'sismic.code.context'] or cands
        if len(cands) != 1:
            raise AnalysisError('class %s not found or ambiguous (%d candidates)' % (name, len(cands)))
        return cands[0]

    def has_cls(self, name):
        try:
            self.cls(name)
            return True
        except AnalysisError:
            return False

    def fn(self, short):
        """'Interpreter.execute_once', 'sorted_groupby', 'SimulatedClock.time@setter'."""
        if ':' in short:
            if short in self.funcs:
                return self.funcs[short]
            raise AnalysisError('function %s not found' % short)
        cands = self.func_short.get(short, [])
        cands = [c for c in cands if c.module.name != 'sismic.code.context'] or cands
        if len(cands) != 1:
            raise AnalysisError('function %s not found or ambiguous (%d candidates)' % (short, len(cands)))
        return cands[0]

    def has_fn(self, short):
        return len(self.func_short.get(short, [])) >= 1

    def mro(self, ci):
        out = []

        def visit(c):
            if c in out:
                return
            out.append(c)
            for b in c.bases:
                visit(b)
        visit(ci)
        # depth-first left-to-right is enough here (no diamond with overriding in sismic besides __eq__/__init__)
        return out

    def is_subclass(self, a, b):
        """a, b: class short names."""
        if a == b:
            return True
        try:
            ca = self.cls(a)
        except AnalysisError:
            return False
        return any(c.name == b for c in self.mro(ca))

    def subclasses(self, ci):
        return [c for c in self.classes.values() if c is not ci and ci in self.mro(c)]

    def lookup(self, ci, name, setter=False):
        for c in self.mro(ci):
            table = c.setters if setter else c.methods
            if name in table:
                return table[name]
        return None

    def impls(self, clsname, name, setter=False):
        """All definitions a call `<obj of static type clsname>.name` may dispatch to."""
        try:
            ci = self.cls(clsname)
        except AnalysisError:
            return []
        out = []
        f = self.lookup(ci, name, setter)
        if f is not None:
            out.append(f)
        for sc in self.subclasses(ci):
            table = sc.setters if setter else sc.methods
            if name in table and table[name] not in out:
                out.append(table[name])
        return out

    def functions(self):
        return [f for f in self.funcs.values()]

    def func_of(self, node):
        """Innermost registered function containing node (lambdas belong to their owner)."""
        p = node
        while p is not None:
            if isinstance(p, (ast.FunctionDef, ast.AsyncFunctionDef)) and hasattr(p, '_fi'):
                return p._fi
            p = getattr(p, '_parent', None)
        return None

    def top_func_of(self, node):
        f = self.func_of(node)
        while f is not None and f.outer is not None:
            f = f.outer
        return f

    # ------------------------------------------------------------------ types
    def _ann_classes(self, ann):
        """Class names mentioned by an annotation that are classes of the program."""
        if ann is None:
            return []
        if isinstance(ann, ast.Constant) and isinstance(ann.value, str):
            try:
                ann = ast.parse(ann.value, mode='eval').body
            except SyntaxError:
                return []
        out = []
        for n in ast.walk(ann):
            if isinstance(n, ast.Name) and n.id in self.class_short:
                out.append(n.id)
            elif isinstance(n, ast.Constant) and isinstance(n.value, str) and n.value in self.class_short:
                out.append(n.value)
        if isinstance(ann, ast.Subscript) and dotted(ann.value) in ('List', 'Iterable', 'Set', 'Dict', 'Tuple',
                                                                     'Iterator', 'Mapping', 'Callable'):
            return []   # container of C is not a C
        return out

    def field_types(self, clsname, field):
        for c in [clsname] + [b.name for b in (self.mro(self.cls(clsname))[1:] if self.has_cls(clsname) else [])]:
            if (c, field) in FIELD_TYPES:
                return list(FIELD_TYPES[(c, field)])
        if not self.has_cls(clsname):
            return []
        out = []
        for c in self.mro(self.cls(clsname)):
            # property with return annotation
            if field in c.props:
                out += self._ann_classes(c.methods[field].node.returns)
            init = c.methods.get('__init__')
            if init is None:
                continue
            for n in own_nodes(init.node):
                if isinstance(n, ast.Assign):
                    for t in n.targets:
                        if isinstance(t, ast.Attribute) and isinstance(t.value, ast.Name) and t.value.id == 'self' \
                                and t.attr == field:
                            out += self.expr_types(n.value, init)
        seen = []
        for o in out:
            if o not in seen:
                seen.append(o)
        return seen

    def expr_types(self, e, fi, _depth=0):
        """Possible classes (short names) of the value of expression e inside function fi; [] when unknown."""
        if _depth > 6:
            return []
        e = strip_cast(e)
        if isinstance(e, ast.IfExp):
            return self.expr_types(e.body, fi, _depth + 1) + self.expr_types(e.orelse, fi, _depth + 1)
        if isinstance(e, ast.Name):
            if e.id == 'self' and fi is not None and fi.cls is not None:
                return [fi.cls.name]
            if fi is not None:
                key = (fi.module.name, e.id)
                if key in NAME_TYPES:
                    return [NAME_TYPES[key]]
                f = fi
                while f is not None:
                    args = f.node.args
                    for a in args.args + args.kwonlyargs + args.posonlyargs:
                        if a.arg == e.id:
                            t = self._ann_classes(a.annotation)
                            if t:
                                return t
                            return []
                    # local single assignment from a typed expression
                    vals = []
                    for n in own_nodes(f.node, include_nested=False):
                        if isinstance(n, ast.Assign) and len(n.targets) == 1 and isinstance(n.targets[0], ast.Name) \
                                and n.targets[0].id == e.id:
                            vals.append(n.value)
                        elif isinstance(n, ast.AnnAssign) and isinstance(n.target, ast.Name) and n.target.id == e.id:
                            t = self._ann_classes(n.annotation)
                            if t:
                                return t
                        elif isinstance(n, ast.withitem) and isinstance(n.optional_vars, ast.Name) \
                                and n.optional_vars.id == e.id:
                            vals.append(n.context_expr)
                    if vals:
                        out = []
                        for v in vals:
                            if any(isinstance(x, ast.Name) and x.id == e.id for x in ast.walk(v)):
                                continue
                            out += self.expr_types(v, f, _depth + 1)
                        return out
                    f = f.outer
            return []
        if isinstance(e, ast.Attribute):
            d = dotted(e)
            if d and fi is not None and (fi.module.name, d) in NAME_TYPES:
                return [NAME_TYPES[(fi.module.name, d)]]
            out = []
            for t in self.expr_types(e.value, fi, _depth + 1):
                out += self.field_types(t, e.attr)
            return out
        if isinstance(e, ast.Call):
            f = strip_cast(e.func)
            if isinstance(f, ast.Name):
                r = self._resolve_name(f.id, fi)
                if r and r[0] == 'class':
                    return [r[1].name]
                if r and r[0] == 'func':
                    return self._ann_classes(r[1].node.returns)
                if r and r[0] == 'callable_param':
                    return [r[1]]
                return []
            if isinstance(f, ast.Attribute):
                out = []
                for t in self.expr_types(f.value, fi, _depth + 1):
                    for m in self.impls(t, f.attr):
                        out += self._ann_classes(m.node.returns)
                return out
        return []

    def _resolve_name(self, name, fi):
        f = fi
        while f is not None:
            # nested def?
            for sub in own_nodes(f.node, include_nested=False):
                if isinstance(sub, (ast.FunctionDef,)) and sub.name == name and hasattr(sub, '_fi'):
                    return ('func', sub._fi)
            key = (f.short, name)
            if key in CALLABLE_PARAMS:
                return ('callable_param', CALLABLE_PARAMS[key])
            args = f.node.args
            for a in args.args + args.kwonlyargs + args.posonlyargs:
                # a parameter declared as a factory of a class of the package: Callable[..., K], Type[K], Optional[..] of those
                if a.arg == name and a.annotation is not None:
                    m_ = re.search(r'(?:Callable\[\s*(?:\.\.\.|\[[^\]]*\])\s*,\s*|Type\[)\s*([A-Za-z_]\w*)\s*\]', ast.unparse(a.annotation))
                    if m_ and self.has_cls(m_.group(1)):
                        return ('callable_param', m_.group(1))
            if any(a.arg == name for a in args.args + args.kwonlyargs + args.posonlyargs):
                return ('param', name)
            f = f.outer
        if fi is not None:
            r = self.resolve_global(fi.module.name, name)
            if r is not None:
                return r
        if hasattr(builtins, name):
            return ('builtin', name)
        return None

    # ------------------------------------------------------------------ calls
    def resolve_call(self, call, fi):
        """-> (targets: [FuncInfo], external: str|None, resolved: bool)."""
        key = id(call)
        if key in self._callcache:
            return self._callcache[key]
        res = self._resolve_call(call, fi)
        self._callcache[key] = res
        return res

    def _ctor(self, ci):
        f = self.lookup(ci, '__init__')
        return [f] if f is not None else []

    def _resolve_call(self, call, fi):
        f = strip_cast(call.func)
        if isinstance(f, ast.Name):
            r = self._resolve_name(f.id, fi)
            if r is None:
                # a local variable holding a callable
                return self._resolve_local_callable(f, call, fi)
            kind = r[0]
            if kind == 'func':
                return ([r[1]], None, True)
            if kind == 'class':
                return (self._ctor(r[1]), None, True)
            if kind == 'callable_param':
                ci = self.cls(r[1])
                t = []
                for c in [ci] + self.subclasses(ci):
                    t += self._ctor(c)
                return (t, None, True)
            if kind in ('builtin', 'external', 'module'):
                return ([], r[1] if kind != 'builtin' else 'builtins.' + r[1], True)
            if kind == 'param':
                return ([], 'param:' + f.id, True)
            return ([], None, False)
        if isinstance(f, ast.Attribute):
            # super().__init__(..)
            if isinstance(f.value, ast.Call) and isinstance(f.value.func, ast.Name) and f.value.func.id == 'super' \
                    and fi is not None and fi.cls is not None:
                for c in self.mro(fi.cls)[1:]:
                    if f.attr in c.methods:
                        return ([c.methods[f.attr]], None, True)
                return ([], 'builtins.object.' + f.attr, True)
            # Class.method(self, ..) / module.function
            if isinstance(f.value, ast.Name):
                r = self._resolve_name(f.value.id, fi)
                if r and r[0] == 'class':
                    m = self.lookup(r[1], f.attr)
                    if m is not None:
                        return ([m], None, True)
                if r and r[0] in ('external', 'module'):
                    modname = r[1]
                    if modname in self.module_defs:
                        rr = self.resolve_global(modname, f.attr)
                        if rr and rr[0] == 'func':
                            return ([rr[1]], None, True)
                        if rr and rr[0] == 'class':
                            return (self._ctor(rr[1]), None, True)
                    return ([], modname + '.' + f.attr, True)
            types = self.expr_types(f.value, fi)
            if types:
                out = []
                for t in types:
                    for m in self.impls(t, f.attr):
                        if m not in out:
                            out.append(m)
                if out:
                    return (out, None, True)
                # attribute holding a callable on a typed object
                return ([], 'attr:%s.%s' % ('|'.join(types), f.attr), True)
            d = dotted(f)
            # receiver of unknown type: builtin container / str methods etc.
            return ([], 'method:' + f.attr, True if d is None or True else False)
        if isinstance(f, ast.Call):
            # getattr(obj, 'prefix' + x)(..): constant-prefix dynamic dispatch
            if isinstance(f.func, ast.Name) and f.func.id == 'getattr' and len(f.args) >= 2:
                prefix = None
                a = f.args[1]
                if isinstance(a, ast.BinOp) and isinstance(a.op, ast.Add) and isinstance(a.left, ast.Constant) \
                        and isinstance(a.left.value, str):
                    prefix = a.left.value
                elif isinstance(a, ast.Constant) and isinstance(a.value, str):
                    prefix = a.value
                if prefix:
                    out = []
                    for t in self.expr_types(f.args[0], fi):
                        ci = self.cls(t)
                        for c in [ci] + self.subclasses(ci):
                            for name, m in c.methods.items():
                                exact = isinstance(a, ast.Constant)
                                if (name == prefix if exact else name.startswith(prefix)) and m not in out:
                                    out.append(m)
                    if out:
                        return (out, None, True)
            return ([], None, False)
        if isinstance(f, ast.Subscript):
            return ([], 'subscript-callable', True)
        return ([], None, False)

    def _resolve_local_callable(self, name_node, call, fi):
        """A call through a local variable: follow its (function-valued) definitions."""
        out = []
        f = fi
        name = name_node.id
        found = False
        while f is not None and not found:
            for n in own_nodes(f.node, include_nested=False):
                vals = []
                if isinstance(n, ast.Assign) and any(isinstance(t, ast.Name) and t.id == name for t in n.targets):
                    vals = [n.value]
                elif isinstance(n, ast.For) and isinstance(n.target, ast.Name) and n.target.id == name:
                    found = True
                    # for listener in self._listeners
                    d = dotted(strip_cast(n.iter))
                    if d == 'self._listeners':
                        for cn in self.listener_classes():
                            m = self.lookup(self.cls(cn), '__call__')
                            if m is not None:
                                out.append(m)
                        return (out, 'external-listener', True)
                for v in vals:
                    found = True
                    v = strip_cast(v)
                    if isinstance(v, ast.IfExp):
                        cands = [v.body, v.orelse]
                    else:
                        cands = [v]
                    for c in cands:
                        c = strip_cast(c)
                        if isinstance(c, ast.Attribute):
                            for t in self.expr_types(c.value, f):
                                for m in self.impls(t, c.attr):
                                    if m not in out:
                                        out.append(m)
                        elif isinstance(c, ast.Name):
                            r = self._resolve_name(c.id, f)
                            if r and r[0] == 'func':
                                out.append(r[1])
                            elif r and r[0] == 'class':
                                out += self._ctor(r[1])
                        elif isinstance(c, ast.Lambda):
                            pass
            f = f.outer
        if out:
            return (out, None, True)
        if found:
            return ([], 'local-callable:' + name, True)
        return ([], None, False)

    def listener_classes(self):
        """Classes whose instances are attached as listeners: classes with __call__ instantiated in Interpreter."""
        out = []
        try:
            ci = self.cls('Interpreter')
        except AnalysisError:
            return out
        for m in ci.methods.values():
            for n in own_nodes(m.node):
                if isinstance(n, ast.Call) and isinstance(n.func, ast.Name):
                    r = self._resolve_name(n.func.id, m)
                    if r and r[0] == 'class' and '__call__' in r[1].methods and r[1].name not in out:
                        out.append(r[1].name)
        return out

    # ------------------------------------------------------------------ call graph
    def build_callgraph(self):
        if self.callgraph is not None:
            return self.callgraph
        g = {}
        sites = 0
        resolved = 0
        external = 0
        unresolved = []
        for fi in self.funcs.values():
            if fi.outer is not None:
                continue
            edges = g.setdefault(fi.qual, [])
            for n in own_nodes(fi.node):
                owner = self.func_of(n) or fi
                if isinstance(n, ast.Call):
                    sites += 1
                    targets, ext, ok = self.resolve_call(n, owner)
                    if not ok:
                        unresolved.append('%s:%d %s' % (fi.module.relpath, n.lineno, ast.unparse(n.func)[:60]))
                    elif targets:
                        resolved += 1
                    else:
                        external += 1
                    for t in targets:
                        edges.append((self._top(t), n))
                    # method values / function references passed as arguments
                    for a in list(n.args) + [k.value for k in n.keywords]:
                        for t in self._funcref(a, owner):
                            edges.append((self._top(t), n))
                elif isinstance(n, ast.Attribute) and isinstance(n.ctx, ast.Load):
                    # property reads are calls
                    par = getattr(n, '_parent', None)
                    for t in self.expr_types(n.value, owner):
                        if self.has_cls(t):
                            ci = self.cls(t)
                            for c in [ci] + self.subclasses(ci):
                                g0 = self.lookup(c, n.attr)
                                if g0 is not None and g0.is_property:
                                    edges.append((g0, n))
                elif isinstance(n, ast.Attribute) and isinstance(n.ctx, ast.Store):
                    for t in self.expr_types(n.value, owner):
                        if self.has_cls(t):
                            ci = self.cls(t)
                            for c in [ci] + self.subclasses(ci):
                                s0 = self.lookup(c, n.attr, setter=True)
                                if s0 is not None:
                                    edges.append((s0, n))
        self.callgraph = g
        self.cg_stats = {'call_sites': sites, 'resolved_internal': resolved, 'external': external,
                         'unresolved': unresolved}
        return g

    def _top(self, fi):
        while fi.outer is not None:
            fi = fi.outer
        return fi

    def _funcref(self, a, fi):
        a = strip_cast(a)
        if isinstance(a, ast.Attribute):
            out = []
            for t in self.expr_types(a.value, fi):
                for m in self.impls(t, a.attr):
                    if not m.is_property:
                        out.append(m)
            return out
        if isinstance(a, ast.Name):
            r = self._resolve_name(a.id, fi)
            if r and r[0] == 'func':
                return [r[1]]
        return []

    def callees(self, fi):
        self.build_callgraph()
        return self.callgraph.get(self._top(fi).qual, [])

    def reachable(self, roots, stop=()):
        """Functions reachable from roots over the call graph (roots included); `stop`: shorts not entered."""
        self.build_callgraph()
        seen = {}
        work = [self._top(r) for r in roots]
        for r in work:
            seen[r.qual] = (r, None)
        while work:
            f = work.pop()
            for t, site in self.callgraph.get(f.qual, []):
                if t.short in stop or t.qual in seen:
                    continue
                seen[t.qual] = (t, f)
                work.append(t)
        return seen

    def path_to(self, reach, target_qual):
        out = []
        q = target_qual
        while q is not None and q in reach:
            f, parent = reach[q]
            out.append(f.short)
            q = parent.qual if parent is not None else None
        return ' <- '.join(out)

    def callers_of(self, fi):
        self.build_callgraph()
        out = []
        for q, edges in self.callgraph.items():
            for t, site in edges:
                if t is fi:
                    out.append((self.funcs[q], site))
        return out

    # ------------------------------------------------------------------ effects
    def direct_writes(self, fi):
        """[(class, field, kind, node)] written directly in fi (closures included)."""
        out = []
        for n in own_nodes(fi.node):
            owner = self.func_of(n) or fi
            tgts = []
            if isinstance(n, ast.Assign):
                tgts = [(t, 'assign') for t in n.targets]
            elif isinstance(n, ast.AugAssign):
                tgts = [(n.target, 'aug')]
            elif isinstance(n, ast.AnnAssign) and n.value is not None:
                tgts = [(n.target, 'assign')]
            elif isinstance(n, ast.Delete):
                tgts = [(t, 'del') for t in n.targets]
            elif isinstance(n, ast.Call) and isinstance(n.func, ast.Attribute) and n.func.attr in MUTATORS:
                recv = strip_cast(n.func.value)
                if isinstance(recv, ast.Attribute):
                    for c in self._owner_classes(recv.value, owner):
                        out.append((c, recv.attr, 'mut:' + n.func.attr, n))
                elif isinstance(recv, ast.Subscript) and isinstance(strip_cast(recv.value), ast.Attribute):
                    r2 = strip_cast(recv.value)
                    for c in self._owner_classes(r2.value, owner):
                        out.append((c, r2.attr, 'mut-elem:' + n.func.attr, n))
                elif isinstance(recv, ast.Name):
                    # alias of a field: x = self._f ... x.insert(..)
                    for (c, fld) in self.alias_fields(recv.id, owner):
                        out.append((c, fld, 'mut:' + n.func.attr, n))
            for t, kind in tgts:
                for el in (t.elts if isinstance(t, (ast.Tuple, ast.List)) else [t]):
                    el0 = el
                    sub = ''
                    while isinstance(el0, ast.Subscript):
                        el0 = strip_cast(el0.value)
                        sub = 'item-'
                    if isinstance(el0, ast.Attribute):
                        for c in self._owner_classes(el0.value, owner):
                            out.append((c, el0.attr, sub + kind, n))
                    elif isinstance(el0, ast.Name) and sub:
                        for (c, fld) in self.alias_fields(el0.id, owner):
                            out.append((c, fld, sub + kind, n))
        return out

    def _owner_classes(self, recv, fi):
        t = self.expr_types(recv, fi)
        return t if t else ['?' + (dotted(recv) or ast.unparse(recv)[:30])]

    def alias_fields(self, name, fi):
        """Fields a local name may alias: x = self._f / x = cast(T, self._f)."""
        out = []
        f = fi
        while f is not None:
            for n in own_nodes(f.node, include_nested=False):
                vals = []
                if isinstance(n, ast.Assign) and any(isinstance(t, ast.Name) and t.id == name for t in n.targets):
                    vals.append(n.value)
                elif isinstance(n, ast.For) and isinstance(n.target, ast.Name) and n.target.id == name:
                    it = strip_cast(n.iter)
                    if isinstance(it, (ast.Tuple, ast.List)):
                        vals.extend(it.elts)
                for v in vals:
                    v = strip_cast(v)
                    for c in ([v.body, v.orelse] if isinstance(v, ast.IfExp) else [v]):
                        c = strip_cast(c)
                        if isinstance(c, ast.Attribute):
                            for cl in self.expr_types(c.value, f):
                                out.append((cl, c.attr))
            f = f.outer
        return out

    def direct_reads(self, fi):
        out = []
        for n in own_nodes(fi.node):
            if isinstance(n, ast.Attribute) and isinstance(n.ctx, ast.Load):
                par = getattr(n, '_parent', None)
                if isinstance(par, ast.Call) and par.func is n:
                    continue
                owner = self.func_of(n) or fi
                for c in self.expr_types(n.value, owner):
                    out.append((c, n.attr, n))
        return out

    def canon_field(self, cls, field):
        """Attribute a field to the class of the MRO that defines it (first assigning class, base-most)."""
        if not self.has_cls(cls):
            return (cls, field)
        owner = cls
        for c in self.mro(self.cls(cls)):
            for m in c.methods.values():
                for n in own_nodes(m.node):
                    if isinstance(n, ast.Attribute) and isinstance(n.ctx, ast.Store) and n.attr == field \
                            and isinstance(n.value, ast.Name) and n.value.id == 'self':
                        owner = c.name
        return (owner, field)

    # -- call-site specialisation: constant (or defaulted) parameters prune `if <param>` branches of the callee
    def _bindings(self, callee, site):
        env = {}
        a = callee.node.args
        pos = a.posonlyargs + a.args
        for p_, d in zip(pos[len(pos) - len(a.defaults):], a.defaults):
            if isinstance(d, ast.Constant) and isinstance(d.value, (bool, type(None))):
                env[p_.arg] = d.value
        for p_, d in zip(a.kwonlyargs, a.kw_defaults):
            if d is not None and isinstance(d, ast.Constant) and isinstance(d.value, (bool, type(None))):
                env[p_.arg] = d.value
        if isinstance(site, ast.Call):
            names = [x.arg for x in pos]
            if names and names[0] in ('self', 'cls'):
                names = names[1:]
            for i, arg in enumerate(site.args):
                if i < len(names):
                    if isinstance(arg, ast.Constant) and isinstance(arg.value, (bool, type(None))):
                        env[names[i]] = arg.value
                    else:
                        env.pop(names[i], None)
            for k in site.keywords:
                if k.arg is None:
                    return {}
                if isinstance(k.value, ast.Constant) and isinstance(k.value.value, (bool, type(None))):
                    env[k.arg] = k.value.value
                else:
                    env.pop(k.arg, None)
        else:
            return {}
        return env

    def pruned(self, node, env, fnode):
        """Is `node` inside a branch that cannot execute when the parameters have the constant values in env?"""
        if not env:
            return False
        from .cfg import guards
        for test, pol, kind in guards(node):
            try:
                v = _const_eval(test, env)
            except KeyError:
                continue
            if bool(v) != pol:
                return True
        return False

    def reachable_spec(self, roots, stop=()):
        """Like reachable, but each function is entered once per distinct constant binding of its parameters,
        and call sites lying in pruned branches are not followed."""
        self.build_callgraph()
        seen = {}
        work = []
        for r in roots:
            r = self._top(r)
            key = (r.qual, ())
            seen[key] = (r, {}, None)
            work.append(key)
        while work:
            key = work.pop()
            f, env, _ = seen[key]
            for t, site in self.callgraph.get(f.qual, []):
                if t.short in stop:
                    continue
                if self.pruned(site, env, f.node):
                    continue
                benv = self._bindings(t, site)
                k2 = (t.qual, tuple(sorted(benv.items(), key=str)))
                if k2 in seen:
                    continue
                seen[k2] = (t, benv, key)
                work.append(k2)
        return seen

    def transitive_writes(self, roots, stop=()):
        """{(class, field): [(func, kind, node)]} for everything reachable from roots (call-site specialised)."""
        out = {}
        for key, (f, env, _) in self.reachable_spec(roots, stop).items():
            for c, fld, kind, node in self.direct_writes(f):
                if self.pruned(node, env, f.node):
                    continue
                e = (f, kind, node)
                lst = out.setdefault(self.canon_field(c, fld), [])
                if not any(x[2] is node for x in lst):
                    lst.append(e)
        return out

    def transitive_reads(self, roots, stop=()):
        out = {}
        for key, (f, env, _) in self.reachable_spec(roots, stop).items():
            for c, fld, node in self.direct_reads(f):
                if self.pruned(node, env, f.node):
                    continue
                lst = out.setdefault(self.canon_field(c, fld), [])
                if not any(x[1] is node for x in lst):
                    lst.append((f, node))
        return out

    def reach_names(self, roots, stop=()):
        return sorted({f.short for f, _, _ in self.reachable_spec(roots, stop).values()})


def _const_eval(expr, env):
    expr = strip_cast(expr)
    if isinstance(expr, ast.Constant):
        return expr.value
    if isinstance(expr, ast.Name):
        if expr.id in env:
            return env[expr.id]
        raise KeyError(expr.id)
    if isinstance(expr, ast.UnaryOp) and isinstance(expr.op, ast.Not):
        return not _const_eval(expr.operand, env)
    if isinstance(expr, ast.BoolOp):
        # partial evaluation: a known false conjunct / true disjunct decides
        known = []
        unknown = False
        for v in expr.values:
            try:
                known.append(bool(_const_eval(v, env)))
            except KeyError:
                unknown = True
        if isinstance(expr.op, ast.And):
            if any(k is False for k in known):
                return False
            if not unknown:
                return True
        else:
            if any(k is True for k in known):
                return True
            if not unknown:
                return False
        raise KeyError('partial')
    if isinstance(expr, ast.Compare) and len(expr.ops) == 1 and isinstance(expr.ops[0], (ast.Is, ast.IsNot)):
        l, r = _const_eval(expr.left, env), _const_eval(expr.comparators[0], env)
        return (l is r) if isinstance(expr.ops[0], ast.Is) else (l is not r)
    raise KeyError('expr')
