"""Extraction of key tables: dict keys written / read through constant strings, the SCHEMA class, constructor parameter -> attribute maps."""
import ast

from . import q
from .prog import strip_cast, dotted, own_nodes
from .loader import AnalysisError


def keys_written(fnode, var):
    """{key: [value expr]} for `var['key'] = value` in fnode."""
    out = {}
    for n in q.walk(fnode):
        if isinstance(n, ast.Assign):
            # keys given in the display / dict(..) call that creates the dict
            if len(n.targets) == 1 and isinstance(n.targets[0], ast.Name) and n.targets[0].id == var:
                v = strip_cast(n.value)
                if isinstance(v, ast.Dict):
                    for k_, v_ in zip(v.keys, v.values):
                        if k_ is not None and q.const_str(k_) is not None:
                            out.setdefault(q.const_str(k_), []).append((v_, n))
                elif isinstance(v, ast.Call) and isinstance(v.func, ast.Name) and v.func.id == 'dict' and not v.args:
                    for kw in v.keywords:
                        if kw.arg:
                            out.setdefault(kw.arg, []).append((kw.value, n))
            for t in n.targets:
                if isinstance(t, ast.Subscript) and isinstance(strip_cast(t.value), ast.Name) and strip_cast(t.value).id == var:
                    k = q.const_str(t.slice)
                    if k is not None:
                        out.setdefault(k, []).append((n.value, n))
    return out


def keys_read(fnode, var):
    """{key: [node]} for `var['key']` loads and `var.get('key', ..)` in fnode."""
    out = {}
    for n in q.walk(fnode):
        if isinstance(n, ast.Subscript) and isinstance(n.ctx, ast.Load) and q.unparse(strip_cast(n.value)) == var:
            k = q.const_str(n.slice)
            if k is not None:
                out.setdefault(k, []).append(n)
        elif isinstance(n, ast.Call) and isinstance(n.func, ast.Attribute) and n.func.attr == 'get' and q.unparse(strip_cast(n.func.value)) == var and n.args:
            k = q.const_str(n.args[0])
            if k is not None:
                out.setdefault(k, []).append(n)
    return out


class SchemaModel:
    """The SCHEMA class body of sismic/io/yaml.py, interpreted with a small model of schema.Optional / Or / Use."""

    def __init__(self, run, rule):
        mod = run.tree.modules.get('sismic.io.yaml')
        run.anchor(mod is not None, rule, 'module sismic.io.yaml')
        cls = [n for n in mod.tree.body if isinstance(n, ast.ClassDef) and n.name == 'SCHEMA']
        run.anchor(cls, rule, 'class SCHEMA in sismic/io/yaml.py')
        self.node = cls[0]
        self.levels = {}     # name -> {key: {'optional': bool, 'value': expr}}
        self.wild = []
        for st in self.node.body:
            if isinstance(st, ast.Assign) and isinstance(st.targets[0], ast.Name) and isinstance(st.value, ast.Dict):
                self.levels[st.targets[0].id] = self._dict(st.value)
            elif isinstance(st, ast.Expr) and isinstance(st.value, ast.Call) and isinstance(st.value.func, ast.Attribute) \
                    and st.value.func.attr == 'update' and isinstance(st.value.func.value, ast.Name) and st.value.args \
                    and isinstance(st.value.args[0], ast.Dict):
                self.levels.setdefault(st.value.func.value.id, {}).update(self._dict(st.value.args[0]))
        sc = self.levels.get('statechart', {})
        if 'statechart' in sc and isinstance(sc['statechart']['value'], ast.Dict):
            self.levels['statechart_inner'] = self._dict(sc['statechart']['value'])

    def _dict(self, d):
        out = {}
        for k, v in zip(d.keys, d.values):
            if k is None:
                self.wild.append(d)
                continue
            ks, opt = self._key(k)
            if ks is None:
                self.wild.append(k)
                continue
            for kk in ks:
                out[kk] = {'optional': opt, 'value': v, 'keynode': k}
        return out

    def _key(self, k):
        if isinstance(k, ast.Constant) and isinstance(k.value, str):
            return [k.value], False
        if isinstance(k, ast.Call) and dotted(k.func) in ('schema.Optional', 'Optional') and k.args:
            inner, _ = self._key(k.args[0])
            return inner, True
        if isinstance(k, ast.Call) and dotted(k.func) in ('schema.Or', 'Or') and all(isinstance(a, ast.Constant) and isinstance(a.value, str) for a in k.args):
            return [a.value for a in k.args], True
        return None, False     # str, object, schema.Regex(..): a wildcard key

    @staticmethod
    def enum_of(v):
        """Closed enumeration of string literals admitted by a value schema, plus whether other scalars are admitted."""
        if isinstance(v, ast.Call) and dotted(v.func) in ('schema.Or', 'Or'):
            lits = [a.value for a in v.args if isinstance(a, ast.Constant) and isinstance(a.value, str)]
            other = [q.unparse(a) for a in v.args if not (isinstance(a, ast.Constant) and isinstance(a.value, str))]
            return lits, other
        return None, [q.unparse(v)]


def param_to_attrs(prog, ci, param, _depth=0):
    """Attributes of an instance of class ci that receive constructor parameter `param` (through base-class __init__ calls)."""
    if _depth > 4:
        return []
    init = prog.lookup(ci, '__init__')
    if init is None:
        return []
    out = []
    for n in own_nodes(init.node):
        if isinstance(n, ast.Assign) and q.is_self_attr(n.targets[0]):
            names = [x.id for x in ast.walk(n.value) if isinstance(x, ast.Name)]
            if param in names:
                out.append(n.targets[0].attr)
        elif isinstance(n, ast.Call) and isinstance(n.func, ast.Attribute) and n.func.attr == '__init__':
            tgt = None
            if isinstance(n.func.value, ast.Name):
                r = prog._resolve_name(n.func.value.id, init)
                if r and r[0] == 'class':
                    tgt = r[1]
                    args = n.args[1:]
            elif isinstance(n.func.value, ast.Call) and isinstance(n.func.value.func, ast.Name) and n.func.value.func.id == 'super':
                m = prog.mro(init.cls)
                tgt = m[1] if len(m) > 1 else None
                args = n.args
            if tgt is None:
                continue
            tinit = prog.lookup(tgt, '__init__')
            if tinit is None:
                continue
            pnames = [a.arg for a in tinit.node.args.args][1:]
            for i, a in enumerate(args):
                if isinstance(a, ast.Name) and a.id == param and i < len(pnames):
                    out += param_to_attrs(prog, tgt, pnames[i], _depth + 1)
            for k in n.keywords:
                if isinstance(k.value, ast.Name) and k.value.id == param and k.arg:
                    out += param_to_attrs(prog, tgt, k.arg, _depth + 1)
    return out


def public_attr(prog, ci, attr):
    """Name under which a stored field is read: `_target` is exposed by property `target`."""
    if attr.startswith('_'):
        for c in prog.mro(ci):
            for name in c.props:
                rets = [n for n in ast.walk(c.methods[name].node) if isinstance(n, ast.Return)]
                if len(rets) == 1 and q.unparse(rets[0].value) == 'self.' + attr:
                    return name
    return attr
