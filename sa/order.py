"""Sequence-order lattice: which ordering a list-valued expression carries.

Tags (tuples):
  ('DECL',)            declaration order (children lists, _transitions, iteration of the _states/_parent dicts)
  ('HASH',)            iteration order of a set
  ('SORTED', comps, inp)  sorted by key components comps (each 'depth+','depth-','name+','name-','src+','srcdepth-',..,'?text');
                       inp = tag of the input (matters only when comps is not total: stable sort keeps input order for ties)
  ('CHAIN_UP',)        parent, grandparent, ...           ('CHAIN_DOWN',) the reverse
  ('BFS', t)           breadth-first over children lists whose order is t (depth increasing)
  ('DFS', t)           depth-first (not depth-monotone)
  ('REV', t)           reversed t
  ('ONE',)             at most one element
  ('LIT',)             literal list of several expressions (order fixed by the code)
  ('CAT', [t..])       concatenation
  ('PARAM', name)      order given by the caller
  ('UNK', text)        not understood
"""
import ast

from . import q
from .prog import strip_cast, dotted

DECL_FIELDS = {('Statechart', '_children'), ('Statechart', '_transitions'), ('Statechart', '_states'),
               ('Statechart', '_parent')}
SET_FIELDS = {('Interpreter', '_configuration')}
LIST_FIELDS_PARAM = {('Interpreter', '_listeners'), ('MacroStep', '_steps'), ('Interpreter', '_sent_events'),
                     ('MicroStep', 'entered_states'), ('MicroStep', 'exited_states'), ('MicroStep', 'sent_events')}


def show(t):
    if t[0] == 'SORTED':
        return 'SORTED(%s%s)' % (','.join(t[1]), '' if total(t[1]) else ' over ' + show(t[2]))
    if t[0] in ('BFS', 'DFS', 'REV'):
        return '%s(%s)' % (t[0], show(t[1]))
    if t[0] == 'CAT':
        return ' + '.join(show(x) for x in t[1]) or 'EMPTY'
    if t[0] in ('PARAM', 'UNK'):
        return '%s(%s)' % (t[0], t[1])
    return t[0]


def total(comps):
    """A key is total on states when it ends in (or contains) the unique state name."""
    return any(c in ('name+', 'name-', 'src+', 'src-') for c in comps) and not any(c.startswith('?') for c in comps[:1 + max(
        [i for i, c in enumerate(comps) if c in ('name+', 'name-', 'src+', 'src-')] or [0])])


def deterministic(t):
    """Independent of declaration order and of hashing."""
    k = t[0]
    if k in ('DECL', 'HASH', 'UNK', 'DFS'):
        return False
    if k == 'BFS':
        return False if not deterministic(t[1]) else True
    if k == 'SORTED':
        return total(t[1]) or deterministic(t[2])
    if k == 'REV':
        return deterministic(t[1])
    if k == 'CAT':
        return all(deterministic(x) for x in t[1])
    return True   # CHAIN_*, ONE, LIT, PARAM


def taint(t):
    """The offending source inside a non-deterministic tag."""
    k = t[0]
    if k in ('DECL', 'HASH', 'UNK', 'DFS'):
        return show(t)
    if k in ('BFS', 'REV'):
        return taint(t[1]) if not deterministic(t[1]) else None
    if k == 'SORTED':
        return None if total(t[1]) else taint(t[2])
    if k == 'CAT':
        for x in t[1]:
            if not deterministic(x):
                return taint(x)
    return None


def direction(t):
    """'up' deepest first, 'down' shallowest first, 'any' (<=1 element), 'flat' (same depth: siblings / names only), None."""
    k = t[0]
    if k == 'ONE':
        return 'any'
    if k == 'CHAIN_UP':
        return 'up'
    if k == 'CHAIN_DOWN':
        return 'down'
    if k in ('BFS',):
        return 'down'
    if k == 'SORTED':
        c = t[1][0] if t[1] else None
        if c in ('depth-', 'srcdepth-'):
            return 'up'
        if c in ('depth+', 'srcdepth+'):
            return 'down'
        if c in ('name+', 'name-'):
            return 'flat'
        return None
    if k == 'REV':
        d = direction(t[1])
        return {'up': 'down', 'down': 'up'}.get(d, d)
    if k == 'CAT':
        ds = [direction(x) for x in t[1]]
        ds = [d for d in ds if d != 'any']
        if not ds:
            return 'any'
        if all(d == ds[0] for d in ds):
            return ds[0]
        return None
    return None


def tiebreak(t):
    """How elements of equal depth are ordered: 'name+', 'name-', 'decl', 'hash', None."""
    k = t[0]
    if k == 'SORTED':
        for c in t[1][1:] if t[1] and t[1][0].startswith(('depth', 'srcdepth')) else t[1]:
            if c in ('name+', 'name-', 'src+', 'src-'):
                return c.replace('src', 'name')
        return tiebreak(t[2])
    if k == 'REV':
        b = tiebreak(t[1])
        return {'name+': 'name-', 'name-': 'name+', 'decl': 'decl-rev'}.get(b, b)
    if k in ('BFS', 'DFS'):
        return tiebreak(t[1]) if t[1][0] != 'DECL' else 'decl'
    if k == 'DECL':
        return 'decl'
    if k == 'HASH':
        return 'hash'
    if k == 'CAT':
        bs = {tiebreak(x) for x in t[1] if x[0] != 'ONE'}
        return bs.pop() if len(bs) == 1 else None
    return None


class Orders:
    def __init__(self, run):
        self.run = run
        self.prog = run.prog
        self._summ = {}

    # ---------------------------------------------------------------- keys
    def key_comps(self, fnode, keyexpr, fi):
        kf = q.key_function(self.run, fnode, keyexpr)
        if kf is None:
            return ('?' + q.unparse(keyexpr),)
        p, body = kf
        parts = body.elts if isinstance(body, ast.Tuple) else [body]
        out = []
        for e in parts:
            e = strip_cast(e)
            neg = False
            if isinstance(e, ast.UnaryOp) and isinstance(e.op, ast.USub):
                neg = True
                e = strip_cast(e.operand)
            s = q.unparse(e)
            comp = None
            if isinstance(e, ast.Call):
                shorts, _ = q.callee_shorts(self.run, e)
                a0 = q.unparse(strip_cast(e.args[0])) if e.args else ''
                if 'Statechart.depth_for' in shorts:
                    if a0 in (p, p + '.name'):
                        comp = 'depth'
                    elif a0 == p + '.source':
                        comp = 'srcdepth'
            if comp is None and not neg:
                if s in (p, p + '.name'):
                    comp = 'name'
                elif s == p + '.source':
                    comp = 'src'
            if comp is None:
                out.append('?' + ('-' if neg else '') + s)
            else:
                out.append(comp + ('-' if neg else '+'))
        return tuple(out)

    # ---------------------------------------------------------------- expressions
    def tag(self, e, env, fi, fnode):
        e = strip_cast(e)
        if isinstance(e, ast.Name):
            if e.id in env:
                return env[e.id]
            if e.id in q.param_names(fnode):
                return ('PARAM', e.id)
            return ('UNK', e.id)
        if isinstance(e, (ast.List, ast.Tuple)):
            if not e.elts:
                return ('CAT', [])
            if len(e.elts) <= 1 and not any(isinstance(x, ast.Starred) for x in e.elts):
                return ('ONE',)
            return ('LIT',)
        if isinstance(e, ast.BinOp) and isinstance(e.op, ast.Add):
            return self.cat(self.tag(e.left, env, fi, fnode), self.tag(e.right, env, fi, fnode))
        if isinstance(e, ast.Subscript):
            sl = e.slice
            if isinstance(sl, ast.Slice):
                step = sl.step
                if step is not None and isinstance(strip_cast(step), ast.UnaryOp) and sl.lower is None and sl.upper is None:
                    return ('REV', self.tag(e.value, env, fi, fnode))
                if step is None:
                    return self.tag(e.value, env, fi, fnode)
                return ('UNK', q.unparse(e))
            # element of a container field: self._children[name]
            base = strip_cast(e.value)
            if isinstance(base, ast.Attribute):
                for c in self.prog.expr_types(base.value, fi):
                    if (c, base.attr) in DECL_FIELDS:
                        return ('DECL',)
                # an entry of a dictionary field that some function fills (a memo): what is stored there
                for c in self.prog.expr_types(base.value, fi):
                    if self.prog.has_cls(c) and any((c2, f2, k2) == (c, base.attr, 'item-assign') for fi2 in self.prog.functions() if fi2.outer is None
                                                    for c2, f2, k2, n2 in self.prog.direct_writes(fi2)):
                        return self.stored_values(c, base.attr)
            return ('UNK', q.unparse(e))
        if isinstance(e, ast.Attribute):
            for c in self.prog.expr_types(e.value, fi):
                if (c, e.attr) in DECL_FIELDS:
                    return ('DECL',)
                if (c, e.attr) in SET_FIELDS:
                    return ('HASH',)
                if (c, e.attr) in LIST_FIELDS_PARAM:
                    return ('PARAM', c + '.' + e.attr)
                if self.prog.has_cls(c):
                    m = self.prog.lookup(self.prog.cls(c), e.attr)
                    if m is not None and m.is_property:
                        return self.summary(m)
            # a field that holds a memoised sequence: what the (non-constructor) assignments store in it
            for c in self.prog.expr_types(e.value, fi):
                if not self.prog.has_cls(c):
                    continue
                memo = self.__dict__.setdefault('_assigned', {})
                if (c, e.attr) in memo:
                    return memo[(c, e.attr)]
                memo[(c, e.attr)] = ('ONE',)
                tags = []
                for fi2 in self.prog.functions():
                    if fi2.outer is not None or fi2.name == '__init__':
                        continue
                    for c2, f2, k2, n2 in self.prog.direct_writes(fi2):
                        if (c2, f2, k2) == (c, e.attr, 'assign') and isinstance(n2, ast.Assign) and not (isinstance(n2.value, ast.Constant) and n2.value.value is None):
                            env2 = self.flow(fi2, fi2.node, upto=n2)
                            tags.append(self.tag(n2.value, env2, fi2, fi2.node))
                if tags:
                    bad = [t for t in tags if not deterministic(t)]
                    res = bad[0] if bad else tags[0]
                    memo[(c, e.attr)] = res
                    return res
                del memo[(c, e.attr)]
            return ('UNK', q.unparse(e))
        if isinstance(e, (ast.ListComp, ast.GeneratorExp)):
            if len(e.generators) == 1:
                return self.tag(e.generators[0].iter, env, fi, fnode)
            return ('UNK', q.unparse(e)[:40])
        if isinstance(e, (ast.Set, ast.SetComp)):
            return ('HASH',)
        if isinstance(e, ast.IfExp):
            a, b = self.tag(e.body, env, fi, fnode), self.tag(e.orelse, env, fi, fnode)
            return a if a == b else (a if not deterministic(a) else b) if not (deterministic(a) and deterministic(b)) else a
        if isinstance(e, ast.Call):
            f = strip_cast(e.func)
            if isinstance(f, ast.Name):
                if f.id in ('list', 'tuple', 'iter') and e.args:
                    return self.tag(e.args[0], env, fi, fnode)
                if f.id in ('list', 'tuple') and not e.args:
                    return ('CAT', [])
                if f.id in ('set', 'frozenset'):
                    return ('HASH',)
                if f.id == 'reversed' and e.args:
                    return ('REV', self.tag(e.args[0], env, fi, fnode))
                if f.id == 'sorted' and e.args:
                    return self.sorted_tag(e, self.tag(e.args[0], env, fi, fnode), fnode, fi)
                if f.id in ('map',) and len(e.args) == 2:
                    return self.tag(e.args[1], env, fi, fnode)
                if f.id == 'filter' and len(e.args) == 2:
                    return self.tag(e.args[1], env, fi, fnode)
            if isinstance(f, ast.Attribute):
                if f.attr in ('keys', 'values', 'items', 'copy') and not e.args:
                    return self.tag(f.value, env, fi, fnode)
                if f.attr in ('intersection', 'union', 'difference', 'symmetric_difference'):
                    return ('HASH',)
                if f.attr == 'get' and len(e.args) in (1, 2):
                    # dict.get(k, default): stored values or the default
                    base = strip_cast(f.value)
                    stored = ('UNK', q.unparse(base))
                    if isinstance(base, ast.Attribute):
                        for c in self.prog.expr_types(base.value, fi):
                            stored = self.stored_values(c, base.attr)
                    if len(e.args) == 1 or isinstance(e.args[1], ast.Constant) and e.args[1].value is None:
                        return stored           # (None is no sequence: the caller tests for it and builds the value itself)
                    d = self.tag(e.args[1], env, fi, fnode)
                    return stored if not deterministic(stored) else d if not deterministic(d) else ('ALT', stored, d) if False else stored if stored[0] != 'ONE' else d
            targets, ext, ok = self.prog.resolve_call(e, fi)
            if targets:
                tags = [self.summary(t) for t in targets]
                bad = [t for t in tags if not deterministic(t)]
                return bad[0] if bad else tags[0]
            return ('UNK', q.unparse(e)[:50])
        return ('UNK', q.unparse(e)[:50])

    def stored_values(self, cls, field):
        """Order tag of the list values stored into dict field cls.field anywhere in the program."""
        tags = []
        memo = self.__dict__.setdefault('_stored', {})
        if (cls, field) in memo:
            return memo[(cls, field)]
        memo[(cls, field)] = ('ONE',)      # (a memoising query reads the field it fills: what it finds there is what it stored, judged below)
        try:
            res = self._stored_values(cls, field)
        except BaseException:
            memo.pop((cls, field), None)
            raise
        memo[(cls, field)] = res
        return res

    def _stored_values(self, cls, field):
        tags = []
        for fi in self.prog.functions():
            if fi.outer is not None:
                continue
            for c, fld, kind, node in self.prog.direct_writes(fi):
                if (c, fld) == (cls, field) and kind == 'item-assign' and isinstance(node, ast.Assign):
                    env = self.flow(fi, fi.node, upto=node)
                    tags.append(self.tag(node.value, env, fi, fi.node))
        bad = [t for t in tags if not deterministic(t)]
        return bad[0] if bad else (tags[0] if tags else ('ONE',))

    def sorted_tag(self, call, inp, fnode, fi):
        key = q.arg(call, None, 'key')
        rev = q.arg(call, None, 'reverse')
        comps = self.key_comps(fnode, key, fi) if key is not None else ('name+',)
        t = ('SORTED', comps, inp)
        if rev is not None:
            try:
                if q.const_eval(rev, q.param_defaults(fnode)):
                    t = ('SORTED', tuple(c[:-1] + ('-' if c.endswith('+') else '+') if c[-1] in '+-' and not c.startswith('?') else c for c in comps), ('REV', inp))
            except KeyError:
                t = ('UNK', 'reverse=' + q.unparse(rev))
        return t

    def cat(self, a, b):
        parts = (a[1] if a[0] == 'CAT' else [a]) + (b[1] if b[0] == 'CAT' else [b])
        return ('CAT', parts)

    # ---------------------------------------------------------------- statements
    def flow(self, fi, fnode, upto=None):
        """Forward pass over the body of fnode: env {local: tag} as of statement `upto` (or the end)."""
        env = {}
        saved = getattr(self, '_done', False)
        self._done = False
        try:
            self._block(fnode.body, env, fi, fnode, upto)
        finally:
            self._done = saved
        return env

    def _block(self, stmts, env, fi, fnode, upto):
        for st in stmts:
            if self._done:
                return
            if st is upto:
                self._done = True
                return
            self._stmt(st, env, fi, fnode, upto)

    def _stmt(self, st, env, fi, fnode, upto):
        if isinstance(st, ast.Assign) and len(st.targets) == 1 and isinstance(st.targets[0], ast.Name):
            env[st.targets[0].id] = self.tag(st.value, env, fi, fnode)
        elif isinstance(st, ast.AnnAssign) and isinstance(st.target, ast.Name) and st.value is not None:
            env[st.target.id] = self.tag(st.value, env, fi, fnode)
        elif isinstance(st, ast.AugAssign) and isinstance(st.target, ast.Name) and isinstance(st.op, ast.Add):
            env[st.target.id] = self.cat(env.get(st.target.id, ('UNK', st.target.id)), self.tag(st.value, env, fi, fnode))
        elif isinstance(st, ast.Expr) and isinstance(st.value, ast.Call):
            self._call_stmt(st.value, env, fi, fnode, None)
        elif isinstance(st, ast.If):
            e1, e2 = dict(env), dict(env)
            self._block(st.body, e1, fi, fnode, upto)
            if self._done:
                env.clear()
                env.update(e1)
                return
            self._block(st.orelse, e2, fi, fnode, upto)
            if self._done:
                env.clear()
                env.update(e2)
                return
            for k in set(e1) | set(e2):
                a, b = e1.get(k), e2.get(k)
                if a is None or b is None:
                    env[k] = a or b
                elif a == b:
                    env[k] = a
                else:
                    env[k] = a if not deterministic(a) else b if not deterministic(b) else self._join(a, b)
        elif isinstance(st, ast.For):
            self._for(st, env, fi, fnode, upto)
        elif isinstance(st, ast.While):
            self._while(st, env, fi, fnode, upto)
        elif isinstance(st, (ast.With, ast.Try)):
            self._block(st.body, env, fi, fnode, upto)
            for h in getattr(st, 'handlers', []):
                self._block(h.body, dict(env), fi, fnode, upto)

    def _join(self, a, b):
        # two deterministic alternatives: keep the one with more structure (not ONE)
        if a[0] == 'ONE' or (a[0] == 'CAT' and not a[1]):
            return b
        return a

    def _call_stmt(self, c, env, fi, fnode, loopctx):
        f = c.func
        if isinstance(f, ast.Attribute) and isinstance(f.value, ast.Name):
            name = f.value.id
            if f.attr == 'sort':
                fake = ast.Call(func=ast.Name(id='sorted', ctx=ast.Load()), args=[f.value], keywords=c.keywords)
                env[name] = self.sorted_tag(fake, env.get(name, ('UNK', name)), fnode, fi)
            elif f.attr == 'reverse':
                env[name] = ('REV', env.get(name, ('UNK', name)))
            elif f.attr == 'append' and c.args and loopctx is None:
                env[name] = self.cat(env.get(name, ('UNK', name)), ('ONE',))
            elif f.attr == 'extend' and c.args and loopctx is None:
                env[name] = self.cat(env.get(name, ('UNK', name)), self.tag(c.args[0], env, fi, fnode))
            elif f.attr == 'insert' and len(c.args) == 2 and loopctx is None:
                idx = c.args[0]
                if isinstance(idx, ast.Constant) and idx.value == 0:
                    env[name] = self.cat(('ONE',), env.get(name, ('UNK', name)))
                else:
                    env[name] = ('UNK', 'insert at ' + q.unparse(idx))

    def _for(self, st, env, fi, fnode, upto):
        seq = self.tag(st.iter, env, fi, fnode)
        tv = st.target.id if isinstance(st.target, ast.Name) else None
        if upto is not None and any(n is upto for n in ast.walk(st)):
            # the program point of interest lies inside the loop: plain statement semantics of one iteration
            self._block(st.body, env, fi, fnode, upto)
            if not self._done:
                self._block(st.orelse, env, fi, fnode, upto)
            return
        for n in st.body:
            self._loop_stmt(n, st, tv, seq, env, fi, fnode)
        self._block(st.orelse, env, fi, fnode, upto)

    def _loop_stmt(self, n, loop, tv, seq, env, fi, fnode):
        """Effect of one loop-body statement on list accumulators."""
        if isinstance(n, ast.If):
            for x in n.body + n.orelse:
                self._loop_stmt(x, loop, tv, seq, env, fi, fnode)
            return
        if isinstance(n, ast.For):
            # nested loop: accumulations of the inner variable, sequence = nested
            inner_seq = self.tag(n.iter, env, fi, fnode)
            itv = n.target.id if isinstance(n.target, ast.Name) else None
            for x in n.body:
                self._loop_stmt(x, n, itv, ('NESTED', seq, inner_seq), env, fi, fnode)
            for x in n.orelse:
                self._loop_stmt(x, loop, tv, seq, env, fi, fnode)
            return
        if isinstance(n, ast.Expr) and isinstance(n.value, ast.Call):
            c = n.value
            f = c.func
            if isinstance(f, ast.Attribute) and isinstance(f.value, ast.Name) and f.attr in ('append', 'insert', 'extend', 'add'):
                name = f.value.id
                cur = env.get(name, ('UNK', name))
                val = c.args[-1] if c.args else None
                if seq[0] == 'NESTED':
                    stag = ('UNK', 'nested accumulation')
                    if not deterministic(seq[1]):
                        stag = seq[1]
                    elif not deterministic(seq[2]):
                        stag = seq[2]
                    elif seq[1][0] == 'ONE':
                        stag = seq[2]
                else:
                    stag = seq
                if f.attr == 'add':
                    env[name] = ('HASH',)
                elif isinstance(val, ast.Name) and val.id == tv or (val is not None and tv and q.unparse(val) in (tv + '.name',)):
                    if f.attr == 'append':
                        env[name] = self.cat(cur, stag)
                    elif f.attr == 'insert' and isinstance(c.args[0], ast.Constant) and c.args[0].value == 0:
                        env[name] = self.cat(('REV', stag), cur)
                    else:
                        env[name] = ('UNK', q.unparse(c)[:40])
                elif f.attr == 'append':
                    # appending something else once per iteration: order follows the iteration
                    env[name] = self.cat(cur, stag)
                elif f.attr == 'extend':
                    et = self.tag(val, env, fi, fnode) if val is not None else ('UNK', 'extend')
                    if deterministic(stag) and deterministic(et):
                        env[name] = self.cat(cur, ('PARAM', 'per-iteration lists'))
                    else:
                        env[name] = self.cat(cur, stag if not deterministic(stag) else et)
            return
        if isinstance(n, ast.AugAssign) and isinstance(n.target, ast.Name) and isinstance(n.op, ast.Add):
            name = n.target.id
            env[name] = self.cat(env.get(name, ('UNK', name)), seq if seq[0] != 'NESTED' else ('UNK', 'nested'))
            return
        if isinstance(n, ast.Assign) and len(n.targets) == 1 and isinstance(n.targets[0], ast.Name):
            env[n.targets[0].id] = self.tag(n.value, env, fi, fnode)

    def _while(self, st, env, fi, fnode, upto):
        # chain pattern: while p: L.append(p); p = self._parent[p]
        test = strip_cast(st.test)
        if isinstance(test, ast.Name):
            p = test.id
            apps = [s for s in st.body if isinstance(s, ast.Expr) and isinstance(s.value, ast.Call)
                    and isinstance(s.value.func, ast.Attribute) and s.value.func.attr == 'append'
                    and s.value.args and isinstance(s.value.args[0], ast.Name) and s.value.args[0].id == p]
            steps = [s for s in st.body if isinstance(s, ast.Assign) and isinstance(s.targets[0], ast.Name) and s.targets[0].id == p]
            if len(apps) == 1 and len(steps) == 1 and len(st.body) == 2:
                v = strip_cast(steps[0].value)
                up = False
                if isinstance(v, ast.Subscript) and isinstance(strip_cast(v.value), ast.Attribute) and q.unparse(v.slice) == p:
                    b = strip_cast(v.value)
                    up = any((c, b.attr) == ('Statechart', '_parent') for c in self.prog.expr_types(b.value, fi))
                if isinstance(v, ast.Call) and 'Statechart.parent_for' in q.callee_shorts(self.run, v)[0] and q.unparse(v.args[0]) == p:
                    up = True
                name = apps[0].value.func.value.id
                if up and q.strictly_before(fnode, apps[0], steps[0]):
                    env[name] = self.cat(env.get(name, ('CAT', [])), ('CHAIN_UP',))
                    return
            # worklist pattern: while W: x = W.pop(0); for c in children(x): W.append(c); R.append(c)
            w = p
            pops = [s for s in st.body if isinstance(s, ast.Assign) and isinstance(strip_cast(s.value), ast.Call)
                    and q.unparse(strip_cast(s.value).func) == w + '.pop']
            fors = [s for s in st.body if isinstance(s, ast.For)]
            if len(pops) == 1 and len(fors) == 1:
                pc = strip_cast(pops[0].value)
                fifo = len(pc.args) == 1 and isinstance(pc.args[0], ast.Constant) and pc.args[0].value == 0
                x = pops[0].targets[0].id if isinstance(pops[0].targets[0], ast.Name) else None
                lp = fors[0]
                child_seq = self.tag(lp.iter, env, fi, fnode)
                cv = lp.target.id if isinstance(lp.target, ast.Name) else None
                apps = [s.value for s in lp.body if isinstance(s, ast.Expr) and isinstance(s.value, ast.Call)
                        and isinstance(s.value.func, ast.Attribute) and s.value.func.attr == 'append'
                        and s.value.args and isinstance(s.value.args[0], ast.Name) and s.value.args[0].id == cv]
                names = {a.func.value.id for a in apps if isinstance(a.func.value, ast.Name)}
                if w in names and len(names) == 2 and x and x in q.unparse(lp.iter):
                    res = (names - {w}).pop()
                    env[res] = self.cat(env.get(res, ('CAT', [])), ('BFS' if fifo else 'DFS', child_seq))
                    return
        # unknown while: everything appended inside is unknown
        for n in ast.walk(st):
            if isinstance(n, ast.Call) and isinstance(n.func, ast.Attribute) and isinstance(n.func.value, ast.Name) \
                    and n.func.attr in ('append', 'insert', 'extend'):
                env[n.func.value.id] = ('UNK', 'while-loop accumulation')

    # ---------------------------------------------------------------- summaries
    def summary(self, fi):
        if fi.qual in self._summ:
            return self._summ[fi.qual]
        self._summ[fi.qual] = ('UNK', 'recursive ' + fi.short)
        F = fi.node
        rets = sorted([n for n in q.walk(F, False) if isinstance(n, ast.Return) and n.value is not None], key=lambda n: (n.lineno, n.col_offset))
        tags = []
        for rt in rets:
            env = self.flow(fi, F, upto=rt)
            tags.append(self.tag(rt.value, env, fi, F))
        bad = [t for t in tags if not deterministic(t)]
        structured = [t for t in tags if t[0] not in ('PARAM', 'ONE') and not (t[0] == 'CAT' and not t[1])]
        res = bad[0] if bad else (structured[-1] if structured else (tags[-1] if tags else ('ONE',)))
        self._summ[fi.qual] = res
        return res
