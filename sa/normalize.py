"""Normal form for analysis: forward substitution of explanatory locals.

`x = E` followed by uses of x is rewritten so that the uses read E directly when
  * the definition is the only one reaching the use (structured reaching-definitions analysis),
  * E is a pure, cheap expression: names, constants, attribute / subscript reads, operators, comparisons, conditional
    expressions, tuples / lists, lambdas, and calls of a small whitelist of pure builtins (isinstance, len, getattr, ..)
    or of a class (constructor calls are treated as pure value constructions),
  * every free variable of E has the same reaching definitions at the use as at the definition.
A definition all of whose uses were substituted is dropped. The result is only ever analysed, never executed; it makes
"introduce / inline explanatory variable" and "split temporary" refactorings invisible to the rules."""
import ast
import copy

PURE_CALLS = {'isinstance', 'len', 'getattr', 'hasattr', 'bool', 'int', 'float', 'str', 'tuple', 'type', 'abs', 'min', 'max', 'cast', 'issubclass', 'repr'}


def _pure(e, depth=0):
    if depth > 12:
        return False
    if isinstance(e, (ast.Constant, ast.Name)):
        return True
    if isinstance(e, ast.Attribute):
        return _pure(e.value, depth + 1)
    if isinstance(e, ast.Subscript):
        return _pure(e.value, depth + 1) and _pure(e.slice, depth + 1)
    if isinstance(e, ast.Slice):
        return all(x is None or _pure(x, depth + 1) for x in (e.lower, e.upper, e.step))
    if isinstance(e, ast.UnaryOp):
        return _pure(e.operand, depth + 1)
    if isinstance(e, ast.BinOp):
        return _pure(e.left, depth + 1) and _pure(e.right, depth + 1)
    if isinstance(e, ast.BoolOp):
        return all(_pure(v, depth + 1) for v in e.values)
    if isinstance(e, ast.Compare):
        return _pure(e.left, depth + 1) and all(_pure(c, depth + 1) for c in e.comparators)
    if isinstance(e, ast.IfExp):
        return _pure(e.test, depth + 1) and _pure(e.body, depth + 1) and _pure(e.orelse, depth + 1)
    if isinstance(e, ast.Tuple):      # lists are mutable objects with an identity: never substituted
        return bool(e.elts) and all(_pure(x, depth + 1) for x in e.elts)
    if isinstance(e, (ast.List, ast.Dict)) and not (e.elts if isinstance(e, ast.List) else e.keys):
        return True      # an empty literal used as a default argument
    if isinstance(e, ast.Lambda):
        return True
    if isinstance(e, ast.Call) and isinstance(e.func, ast.Name) and e.func.id in ('any', 'all') and len(e.args) == 1 and not e.keywords \
            and isinstance(e.args[0], (ast.GeneratorExp, ast.ListComp)):
        c = e.args[0]
        return _pure(c.elt, depth + 1) and all(not g.is_async and _pure(g.iter, depth + 1) and all(_pure(i, depth + 1) for i in g.ifs) for g in c.generators)
    if isinstance(e, ast.Call):
        f = e.func
        if isinstance(f, ast.Name) and (f.id in PURE_CALLS or f.id[:1].isupper() or (f.id[:1] == '_' and f.id[1:2].isupper())):
            return all(_pure(a, depth + 1) for a in e.args) and all(k.arg is not None and _pure(k.value, depth + 1) for k in e.keywords)
        return False
    return False


def _pure_comp(c):
    return _pure(c.elt) and all(not g.is_async and _pure(g.iter) and all(_pure(i) for i in g.ifs) for g in c.generators)


def _free(e):
    """Names read by e that are not bound inside it (lambda parameters excluded)."""
    out = set()

    def visit(n, bound):
        if isinstance(n, ast.Lambda):
            b2 = bound | {a.arg for a in n.args.args + n.args.kwonlyargs}
            visit(n.body, b2)
            return
        if isinstance(n, (ast.GeneratorExp, ast.ListComp, ast.SetComp, ast.DictComp)):
            b2 = set(bound)
            for g in n.generators:
                visit(g.iter, b2)
                b2 |= {x.id for x in ast.walk(g.target) if isinstance(x, ast.Name)}
                for i in g.ifs:
                    visit(i, b2)
            for part in ([n.key, n.value] if isinstance(n, ast.DictComp) else [n.elt]):
                visit(part, b2)
            return
        if isinstance(n, ast.Name) and isinstance(n.ctx, ast.Load) and n.id not in bound:
            out.add(n.id)
        for c in ast.iter_child_nodes(n):
            visit(c, bound)
    visit(e, set())
    return out


class _RD:
    """Structured reaching definitions for the locals of one function."""

    def __init__(self, fn):
        self.fn = fn
        self.use_defs = {}     # id(Name load) -> frozenset(def ids)
        self.env_at = {}       # id(stmt) -> {name: frozenset}
        self.defs = {}         # def id -> Assign stmt (only simple `x = E`)
        self.all_defs = {}     # name -> count of binding sites
        self.closure_uses = set()
        self.loops = []
        params = [a.arg for a in fn.args.posonlyargs + fn.args.args + fn.args.kwonlyargs]
        if fn.args.vararg:
            params.append(fn.args.vararg.arg)
        if fn.args.kwarg:
            params.append(fn.args.kwarg.arg)
        env = {p: frozenset([('param', p)]) for p in params}
        for p in params:
            self.all_defs[p] = self.all_defs.get(p, 0) + 1
        self.block(fn.body, env)

    def bind(self, env, name, d):
        env[name] = frozenset([d])
        self.all_defs[name] = self.all_defs.get(name, 0) + 1

    def uses(self, node, env, closure=False):
        if node is None:
            return
        roots = [node] if not isinstance(node, list) else list(node)

        def scoped(n, bound):
            # names bound by an enclosing lambda parameter or comprehension target are not uses of the function's locals
            if isinstance(n, ast.Lambda):
                b2 = bound | {a.arg for a in n.args.posonlyargs + n.args.args + n.args.kwonlyargs} | \
                    ({n.args.vararg.arg} if n.args.vararg else set()) | ({n.args.kwarg.arg} if n.args.kwarg else set())
                for d_ in n.args.defaults + [d for d in n.args.kw_defaults if d is not None]:
                    scoped(d_, bound)
                scoped(n.body, b2)
                return
            if isinstance(n, (ast.ListComp, ast.SetComp, ast.GeneratorExp, ast.DictComp)):
                b2 = set(bound)
                for g in n.generators:
                    scoped(g.iter, b2)
                    b2 |= {x.id for x in ast.walk(g.target) if isinstance(x, ast.Name)}
                    for i_ in g.ifs:
                        scoped(i_, b2)
                for part in ([n.key, n.value] if isinstance(n, ast.DictComp) else [n.elt]):
                    scoped(part, b2)
                return
            if isinstance(n, ast.Name) and isinstance(n.ctx, ast.Load):
                if n.id not in bound:
                    self.use_defs[id(n)] = env.get(n.id, frozenset([('global', n.id)]))
                return
            for c in ast.iter_child_nodes(n):
                scoped(c, bound)
        for r_ in roots:
            scoped(r_, set())
        # names used inside lambdas / nested defs / comprehensions are evaluated later or repeatedly
        for n in ast.walk(node) if not isinstance(node, list) else []:
            if isinstance(n, (ast.Lambda, ast.FunctionDef, ast.AsyncFunctionDef)):
                for x in ast.walk(n):
                    if isinstance(x, ast.Name) and isinstance(x.ctx, ast.Load):
                        self.closure_uses.add(id(x))

    def merge(self, envs):
        envs = [e for e in envs if e is not None]
        if not envs:
            return None
        out = {}
        for k in set().union(*[set(e) for e in envs]):
            s = frozenset()
            for e in envs:
                s |= e.get(k, frozenset([('undef', k)]))
            out[k] = s
        return out

    def block(self, stmts, env):
        for st in stmts:
            if env is None:
                return None
            env = self.stmt(st, env)
        return env

    def targets(self, t, env, st):
        for n in ast.walk(t):
            if isinstance(n, ast.Name) and isinstance(n.ctx, (ast.Store, ast.Del)):
                self.bind(env, n.id, ('opaque', id(st), n.id))

    def stmt(self, st, env):
        self.env_at[id(st)] = dict(env)
        if isinstance(st, ast.Assign):
            self.uses(st.value, env)
            for t in st.targets:
                if not isinstance(t, ast.Name):
                    self.uses(t, env)
            env = dict(env)
            if len(st.targets) == 1 and isinstance(st.targets[0], ast.Name):
                d = ('def', id(st))
                self.defs[d] = st
                self.bind(env, st.targets[0].id, d)
            else:
                for t in st.targets:
                    self.targets(t, env, st)
            return env
        if isinstance(st, (ast.AugAssign, ast.AnnAssign)):
            self.uses(st.value, env)
            if isinstance(st.target, ast.Name):
                if isinstance(st, ast.AugAssign):
                    self.use_defs[id(st.target)] = env.get(st.target.id, frozenset())
                env = dict(env)
                self.bind(env, st.target.id, ('opaque', id(st), st.target.id))
            else:
                self.uses(st.target, env)
            return env
        if isinstance(st, (ast.For, ast.AsyncFor)):
            self.uses(st.iter, env)
            e_in = dict(env)
            for _ in range(3):
                self.loops.append({'breaks': [], 'continues': []})
                e_body = dict(e_in)
                self.targets(st.target, e_body, st)
                out = self.block(st.body, e_body)
                lp = self.loops.pop()
                e_in = self.merge([e_in, out, env] + lp['continues'])
            # the else clause runs on exhaustion only; a break skips it
            e_done = self.merge([e_in, env])
            if st.orelse:
                e_done = self.block(st.orelse, dict(e_done))
            return self.merge([e_done] + lp['breaks'])
        if isinstance(st, ast.While):
            e_in = dict(env)
            for _ in range(3):
                self.loops.append({'breaks': [], 'continues': []})
                self.uses(st.test, e_in)
                out = self.block(st.body, dict(e_in))
                lp = self.loops.pop()
                e_in = self.merge([e_in, out, env] + lp['continues'])
            infinite = isinstance(st.test, ast.Constant) and bool(st.test.value)
            e_done = None if infinite else e_in
            if e_done is not None and st.orelse:
                e_done = self.block(st.orelse, dict(e_done))
            return self.merge([e_done] + lp['breaks'])
        if isinstance(st, ast.If):
            self.uses(st.test, env)
            e1 = self.block(st.body, dict(env))
            e2 = self.block(st.orelse, dict(env)) if st.orelse else dict(env)
            return self.merge([e1, e2])
        if isinstance(st, (ast.With, ast.AsyncWith)):
            env = dict(env)
            for it in st.items:
                self.uses(it.context_expr, env)
                if it.optional_vars is not None:
                    self.targets(it.optional_vars, env, st)
            return self.block(st.body, env)
        if isinstance(st, ast.Try):
            e_body = self.block(st.body, dict(env))
            e_h_in = self.merge([env, e_body]) or dict(env)
            outs = [self.block(st.orelse, dict(e_body)) if (st.orelse and e_body is not None) else e_body]
            for h in st.handlers:
                eh = dict(e_h_in)
                if h.name:
                    self.bind(eh, h.name, ('opaque', id(h), h.name))
                outs.append(self.block(h.body, eh))
            e = self.merge(outs)
            if st.finalbody:
                e = self.block(st.finalbody, e if e is not None else dict(env))
            return e
        if isinstance(st, (ast.Return, ast.Raise)):
            self.uses(getattr(st, 'value', None) or getattr(st, 'exc', None), env)
            return None
        if isinstance(st, ast.Break):
            if self.loops:
                self.loops[-1]['breaks'].append(dict(env))
            return None
        if isinstance(st, ast.Continue):
            if self.loops:
                self.loops[-1]['continues'].append(dict(env))
            return None
        if isinstance(st, (ast.FunctionDef, ast.AsyncFunctionDef, ast.ClassDef)):
            env = dict(env)
            self.bind(env, st.name, ('opaque', id(st), st.name))
            for x in ast.walk(st):
                if isinstance(x, ast.Name) and isinstance(x.ctx, ast.Load):
                    self.use_defs[id(x)] = env.get(x.id, frozenset([('global', x.id)]))
                    self.closure_uses.add(id(x))
            return env
        if isinstance(st, (ast.Import, ast.ImportFrom)):
            env = dict(env)
            for a in st.names:
                self.bind(env, (a.asname or a.name).split('.')[0], ('opaque', id(st), a.name))
            return env
        if isinstance(st, ast.Delete):
            env = dict(env)
            for t in st.targets:
                self.targets(t, env, st)
            return env
        # Expr, Assert, Pass, Global, ...
        for c in ast.iter_child_nodes(st):
            self.uses(c, env)
        return env


def _stmt_of(node, parents):
    while node is not None and not isinstance(node, ast.stmt):
        node = parents.get(id(node))
    return node


def normalize_function(fn):
    """Rewrite fn in place; returns the number of substituted definitions."""
    rd = _RD(fn)
    parents = {}
    for n in ast.walk(fn):
        for c in ast.iter_child_nodes(n):
            parents[id(c)] = n
    # candidate definitions
    cands = {}
    adjacent = set()
    for d, st in rd.defs.items():
        x = st.targets[0].id
        if _pure(st.value) and x not in _free(st.value) and not isinstance(st.value, (ast.List, ast.Dict, ast.Set)):
            cands[d] = st
        elif isinstance(st.value, (ast.ListComp, ast.SetComp, ast.GeneratorExp)) and x not in _free(st.value) and _pure_comp(st.value):
            adjacent.add(d)      # a freshly built collection: only into a single use in the very next statement
            cands[d] = st
        elif isinstance(st.value, ast.Dict) and st.value.keys and None not in st.value.keys and x not in _free(st.value) and \
                all(_pure(k_) for k_ in st.value.keys) and all(_pure(v_) for v_ in st.value.values):
            adjacent.add(d)      # .. a display likewise (`extra = {..}; ctx.update(extra)`)
            cands[d] = st
    if not cands:
        return 0
    # uses per definition
    uses = {d: [] for d in cands}
    blocked = set()
    for n in ast.walk(fn):
        if isinstance(n, ast.Name) and isinstance(n.ctx, ast.Load) and id(n) in rd.use_defs:
            ds = rd.use_defs[id(n)]
            for d in ds:
                if d in cands and cands[d].targets[0].id == n.id:
                    if len(ds) == 1:
                        uses[d].append(n)
                    else:
                        blocked.add(d)
        # augmented assignment target reads the old value
        if isinstance(n, ast.AugAssign) and isinstance(n.target, ast.Name):
            for d in rd.use_defs.get(id(n.target), ()):
                blocked.add(d)
    count = 0
    for d, st in cands.items():
        if d in blocked or not uses[d]:
            continue
        # an expression that builds an object (constructor call, lambda) has an identity: substitute only a single use
        builds = any(isinstance(n, ast.Lambda) or (isinstance(n, ast.Call) and not (isinstance(n.func, ast.Name) and n.func.id in PURE_CALLS)) for n in ast.walk(st.value))
        if builds and len(uses[d]) != 1:
            continue
        if d in adjacent:
            if len(uses[d]) != 1 or rd.all_defs.get(st.targets[0].id, 0) != 1 or id(uses[d][0]) in rd.closure_uses:
                continue
            par_ = parents.get(id(st))
            blk_ = next((b for b in (getattr(par_, f_, None) for f_ in ('body', 'orelse', 'finalbody')) if isinstance(b, list) and st in b), None)
            us_ = _stmt_of(uses[d][0], parents)
            if blk_ is None or blk_.index(st) + 1 >= len(blk_) or blk_[blk_.index(st) + 1] is not us_ or isinstance(us_, (ast.For, ast.While, ast.If, ast.With, ast.Try)):
                continue
            if sum(1 for n in ast.walk(fn) if isinstance(n, ast.Name) and n.id == st.targets[0].id) != 2:
                continue
        x = st.targets[0].id
        free = _free(st.value)
        env_d = rd.env_at.get(id(st), {})
        okall = True
        for u in uses[d]:
            if id(u) in rd.closure_uses:
                # evaluated later: only safe when x and the free variables of E are bound once in the whole function
                if rd.all_defs.get(x, 0) != 1 or any(rd.all_defs.get(y, 0) > 1 for y in free):
                    okall = False
                    break
                continue
            us = _stmt_of(u, parents)
            env_u = rd.env_at.get(id(us))
            if env_u is None:
                okall = False
                break
            for y in free:
                if env_u.get(y, frozenset([('global', y)])) != env_d.get(y, frozenset([('global', y)])):
                    okall = False
                    break
            if not okall:
                break
        if not okall:
            continue
        for u in uses[d]:
            new = copy.deepcopy(st.value)
            par = parents.get(id(u))
            for fld, val in ast.iter_fields(par):
                if val is u:
                    setattr(par, fld, new)
                elif isinstance(val, list):
                    for i, c in enumerate(val):
                        if c is u:
                            val[i] = new
            parents[id(new)] = par
            for n in ast.walk(new):
                for c in ast.iter_child_nodes(n):
                    parents[id(c)] = n
        # drop the definition
        par = parents.get(id(st))
        for fld in ('body', 'orelse', 'finalbody'):
            blk = getattr(par, fld, None)
            if isinstance(blk, list) and st in blk:
                blk.remove(st)
                if not blk:
                    blk.append(ast.copy_location(ast.Pass(), st))
        count += 1
    return count


def _unenumerate(tree):
    """`for i, x in enumerate(E): ..` is analysed as `for x in E: i = __enum_index__; ..` (an opaque index): the rules speak about the loop over
    E and its element variable."""
    for n in ast.walk(tree):
        if isinstance(n, ast.For) and isinstance(n.iter, ast.Call) and isinstance(n.iter.func, ast.Name) and n.iter.func.id == 'enumerate' \
                and 1 <= len(n.iter.args) <= 2 and not n.iter.keywords and isinstance(n.target, ast.Tuple) and len(n.target.elts) == 2 \
                and isinstance(n.target.elts[0], ast.Name):
            idx = n.target.elts[0]
            n.target = n.target.elts[1]
            n.iter = n.iter.args[0]
            n.body.insert(0, ast.copy_location(ast.Assign(targets=[ast.Name(id=idx.id, ctx=ast.Store())], value=ast.Name(id='__enum_index__', ctx=ast.Load()),
                                                          lineno=n.lineno), n))


def _drop_dead_temporaries(fn):
    """Parameter copies left behind by the inliner (`p__i3 = <pure>` never read) and `pass` statements in blocks that have other statements."""
    import re
    n = 0
    loads = {x.id for x in ast.walk(fn) if isinstance(x, ast.Name) and isinstance(x.ctx, ast.Load)}
    for node in ast.walk(fn):
        for fld in ('body', 'orelse', 'finalbody'):
            blk = getattr(node, fld, None)
            if not (isinstance(blk, list) and blk and isinstance(blk[0], ast.stmt)):
                continue
            keep = []
            for st in blk:
                if isinstance(st, ast.Assign) and len(st.targets) == 1 and isinstance(st.targets[0], ast.Name) and re.search(r'__i\d+$', st.targets[0].id) \
                        and st.targets[0].id not in loads and _pure(st.value):
                    n += 1
                    continue
                keep.append(st)
            if len(keep) > 1 and any(isinstance(st, ast.Pass) for st in keep):
                n += sum(1 for st in keep if isinstance(st, ast.Pass))
                keep = [st for st in keep if not isinstance(st, ast.Pass)]
            if not keep:
                keep = [ast.copy_location(ast.Pass(), blk[0])]
            if len(keep) != len(blk):
                setattr(node, fld, keep)
    return n


def normalize_module(tree):
    total = 0
    _unenumerate(tree)
    for fn in [n for n in ast.walk(tree) if isinstance(n, (ast.FunctionDef, ast.AsyncFunctionDef))]:
        total += _drop_dead_temporaries(fn)
        # innermost functions first would be ideal; two rounds reach a fixpoint for chains of temporaries
        for _ in range(3):
            c = normalize_function(fn)
            total += c
            if not c:
                break
    # f(*(a, b)) -> f(a, b): left behind when a *args parameter of an inlined helper was substituted
    for n in ast.walk(tree):
        if isinstance(n, ast.Call) and any(isinstance(a, ast.Starred) and isinstance(a.value, ast.Tuple) for a in n.args):
            new = []
            for a in n.args:
                if isinstance(a, ast.Starred) and isinstance(a.value, ast.Tuple):
                    new.extend(a.value.elts)
                else:
                    new.append(a)
            n.args = new
    ast.fix_missing_locations(tree)
    return total
