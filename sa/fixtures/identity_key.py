"""Positive fixture for C18.1 (expected count on the real tree is zero): a persistent container indexed by id(obj).
Never imported or executed; parsed by the checker on every run to prove that the detector still fires."""


class Holder:
    def __init__(self):
        self._memory = {}

    def remember(self, obj, value):
        self._memory[id(obj)] = value

    def recall(self, obj):
        return self._memory.get(id(obj), None)
