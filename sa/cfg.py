"""Statement-level CFG with dominators / post-dominators / path queries, and AST guard extraction."""
import ast

from .loader import AnalysisError


class Node:
    __slots__ = ('id', 'kind', 'ast', 'stmt', 'label')

    def __init__(self, id, kind, astnode=None, stmt=None):
        self.id = id
        self.kind = kind      # entry | exit | raise | stmt | test | iter | with | handler | join
        self.ast = astnode    # statement, or the test / iter expression for heads
        self.stmt = stmt      # owning statement
        self.label = None

    @property
    def lineno(self):
        return getattr(self.ast, 'lineno', getattr(self.stmt, 'lineno', 0))

    def __repr__(self):
        if self.ast is None:
            return '<%s>' % self.kind
        return '<%s@%s %s>' % (self.kind, self.lineno, ast.unparse(self.ast).split('\n')[0][:50])


class CFG:
    def __init__(self, fnode):
        self.fnode = fnode
        self.nodes = []
        self.succ = {}
        self.pred = {}
        self.entry = self._new('entry')
        self.exit = self._new('exit')
        self.raise_exit = self._new('raise')
        self.by_ast = {}
        self.loop_of = {}       # node id -> list of loop head ids (outermost first)
        self._loops = []
        self._tries = []
        outs = self._block(fnode.body, [(self.entry.id, 'n')])
        for o in outs:
            self._edge(o, self.exit.id)
        self._dom = None
        self._pdom = None

    # ---------------------------------------------------------------- construction
    def _new(self, kind, astnode=None, stmt=None):
        n = Node(len(self.nodes), kind, astnode, stmt)
        self.nodes.append(n)
        self.succ[n.id] = []
        self.pred[n.id] = []
        if astnode is not None:
            self.by_ast[id(astnode)] = n
        if kind in ('test', 'iter') and stmt is not None:
            self.by_ast[id(stmt)] = n
        if kind in ('stmt', 'test', 'iter', 'with', 'handler'):
            self.loop_of[n.id] = [l['head'] for l in self._loops]
        return n

    def _edge(self, src, dst):
        sid, label = src
        self.succ[sid].append((dst, label))
        self.pred[dst].append((sid, label))

    def _connect(self, preds, node):
        for p in preds:
            self._edge(p, node.id)

    def _raise_targets(self):
        """Where an exception raised here may go: innermost enclosing handlers, and out unless a catch-all."""
        if self._tries:
            t = self._tries[-1]
            return t
        return None

    def _block(self, stmts, preds):
        for st in stmts:
            preds = self._stmt(st, preds)
        return preds

    def _stmt(self, st, preds):
        if isinstance(st, ast.If):
            t = self._new('test', st.test, st)
            self._connect(preds, t)
            o1 = self._block(st.body, [(t.id, 'T')])
            o2 = self._block(st.orelse, [(t.id, 'F')]) if st.orelse else [(t.id, 'F')]
            return o1 + o2
        if isinstance(st, ast.While):
            t = self._new('test', st.test, st)
            self._connect(preds, t)
            loop = {'head': t.id, 'breaks': []}
            self._loops.append(loop)
            body_out = self._block(st.body, [(t.id, 'T')])
            self._loops.pop()
            for o in body_out:
                self._edge(o, t.id)
            outs = [(t.id, 'F')]
            if isinstance(st.test, ast.Constant) and st.test.value:
                outs = []
            if st.orelse:
                outs = self._block(st.orelse, outs)
            return outs + loop['breaks']
        if isinstance(st, (ast.For, ast.AsyncFor)):
            t = self._new('iter', st.iter, st)
            self._connect(preds, t)
            loop = {'head': t.id, 'breaks': []}
            self._loops.append(loop)
            body_out = self._block(st.body, [(t.id, 'T')])
            self._loops.pop()
            for o in body_out:
                self._edge(o, t.id)
            outs = [(t.id, 'F')]
            if st.orelse:
                outs = self._block(st.orelse, outs)
            return outs + loop['breaks']
        if isinstance(st, (ast.With, ast.AsyncWith)):
            w = self._new('with', st, st)
            self._connect(preds, w)
            return self._block(st.body, [(w.id, 'n')])
        if isinstance(st, ast.Try):
            handlers = []
            for h in st.handlers:
                hn = self._new('handler', h, st)
                handlers.append(hn)
            catch_all = any(h.type is None or ast.unparse(h.type) in ('Exception', 'BaseException')
                            for h in st.handlers)
            self._tries.append({'handlers': handlers, 'catch_all': catch_all, 'stmt': st})
            first = len(self.nodes)
            body_out = self._block(st.body, preds)
            last = len(self.nodes)
            self._tries.pop()
            # any statement of the body may transfer to a handler
            for nid in range(first, last):
                n = self.nodes[nid]
                if n.kind in ('stmt', 'test', 'iter', 'with') and not isinstance(n.ast, (ast.Raise,)):
                    for hn in handlers:
                        self._edge((nid, 'exc'), hn.id)
            if first == last:   # empty body cannot happen
                pass
            outs = self._block(st.orelse, body_out) if st.orelse else body_out
            for hn, h in zip(handlers, st.handlers):
                outs = outs + self._block(h.body, [(hn.id, 'n')])
            if st.finalbody:
                outs = self._block(st.finalbody, outs)
            return outs
        # simple statements
        n = self._new('stmt', st, st)
        self._connect(preds, n)
        if isinstance(st, ast.Return):
            self._edge((n.id, 'n'), self.exit.id)
            return []
        if isinstance(st, ast.Raise):
            t = self._raise_targets()
            if t is not None:
                for hn in t['handlers']:
                    self._edge((n.id, 'exc'), hn.id)
                if not t['catch_all']:
                    self._edge((n.id, 'exc'), self.raise_exit.id)
            else:
                self._edge((n.id, 'exc'), self.raise_exit.id)
            return []
        if isinstance(st, ast.Break):
            if not self._loops:
                raise AnalysisError('break outside loop')
            self._loops[-1]['breaks'].append((n.id, 'n'))
            return []
        if isinstance(st, ast.Continue):
            self._edge((n.id, 'n'), self._loops[-1]['head'])
            return []
        if isinstance(st, ast.Assert) and isinstance(st.test, ast.Constant) and not st.test.value:
            self._edge((n.id, 'exc'), self.raise_exit.id)
            return []
        return [(n.id, 'n')]

    # ---------------------------------------------------------------- lookup
    def node_of(self, astnode):
        """CFG node of a statement, or of the statement / head containing an expression."""
        p = astnode
        while p is not None:
            n = self.by_ast.get(id(p))
            if n is not None:
                return n
            p = getattr(p, '_parent', None)
            if p is self.fnode:
                break
        return None

    def stmt_nodes(self):
        return [n for n in self.nodes if n.kind in ('stmt', 'test', 'iter', 'with', 'handler')]

    # ---------------------------------------------------------------- dominance
    def _dominators(self, succ, pred, root, universe):
        dom = {n: set(universe) for n in universe}
        dom[root] = {root}
        changed = True
        order = list(universe)
        while changed:
            changed = False
            for n in order:
                if n == root:
                    continue
                ps = [p for p, _ in pred[n] if p in universe]
                if not ps:
                    new = {n}
                else:
                    new = set.intersection(*[dom[p] for p in ps]) | {n}
                if new != dom[n]:
                    dom[n] = new
                    changed = True
        return dom

    def _reach_from(self, start, succ):
        seen = {start}
        work = [start]
        while work:
            x = work.pop()
            for y, _ in succ[x]:
                if y not in seen:
                    seen.add(y)
                    work.append(y)
        return seen

    def dominators(self):
        if self._dom is None:
            uni = self._reach_from(self.entry.id, self.succ)
            self._dom = self._dominators(self.succ, self.pred, self.entry.id, uni)
        return self._dom

    def postdominators(self):
        """w.r.t. the normal exit only (paths ending in an exception are not normal paths)."""
        if self._pdom is None:
            uni = self._reach_from(self.exit.id, self.pred)
            self._pdom = self._dominators(self.pred, self.succ, self.exit.id, uni)
        return self._pdom

    def dominates(self, a, b):
        """Every path entry -> b passes a (a, b: Node)."""
        d = self.dominators()
        return b.id in d and a.id in d[b.id]

    def postdominates(self, b, a):
        """Every normal path a -> exit passes b. Vacuously true when a cannot reach the normal exit."""
        pd = self.postdominators()
        if a.id not in pd:
            return True
        return b.id in pd[a.id]

    def reaches(self, a, b, avoiding=(), labels_excluded=()):
        """A path a ->+ b exists that avoids the given nodes (ids or Nodes)."""
        av = {x.id if isinstance(x, Node) else x for x in avoiding}
        seen = set()
        work = [a.id]
        while work:
            x = work.pop()
            for y, lab in self.succ[x]:
                if lab in labels_excluded:
                    continue
                if y == b.id:
                    return True
                if y in seen or y in av:
                    continue
                seen.add(y)
                work.append(y)
        return False

    def cut(self, nodes, b):
        """Every path entry -> b passes at least one node of `nodes` (collective dominance)."""
        ids = {n.id for n in nodes}
        if b.id in ids:
            return True
        seen = {self.entry.id}
        work = [self.entry.id]
        while work:
            x = work.pop()
            for y, _ in self.succ[x]:
                if y == b.id:
                    return False
                if y in seen or y in ids:
                    continue
                seen.add(y)
                work.append(y)
        return True

    def innermost_loop(self, n):
        l = self.loop_of.get(n.id, [])
        return self.nodes[l[-1]] if l else None

    def same_iteration_order(self, a, b):
        """a is executed before b whenever b executes, within one iteration of their innermost common loop."""
        if not self.dominates(a, b) or a.id == b.id:
            return False
        la, lb = self.loop_of.get(a.id, []), self.loop_of.get(b.id, [])
        common = [x for x in la if x in lb]
        if common:
            # b must not be able to come back to ... irrelevant: dominance inside a structured loop body suffices
            # but a must not be in a deeper loop that b is outside of *and* b before a: handled by dominance.
            pass
        return True


def build_cfg(fnode):
    if not hasattr(fnode, '_cfg'):
        fnode._cfg = CFG(fnode)
    return fnode._cfg


# -------------------------------------------------------------------- guards (control-dependence conditions)
TERMINATORS = (ast.Return, ast.Raise, ast.Continue, ast.Break)


def _always_leaves(block):
    """Does this block always leave the enclosing block (ends with return / raise / continue / break)?"""
    if not block:
        return None
    last = block[-1]
    if isinstance(last, TERMINATORS):
        return type(last).__name__
    if isinstance(last, ast.If) and last.orelse:
        a, b = _always_leaves(last.body), _always_leaves(last.orelse)
        if a and b:
            return a
    return None


def guards(node, stop=None):
    """[(test expr, polarity, kind)] that must hold for `node` to execute, from AST structure:
    enclosing if/while branches, plus earlier siblings of the form `if c: <leaves block>` (kind 'early')."""
    out = []
    cur = node
    while cur is not None and cur is not stop:
        par = getattr(cur, '_parent', None)
        if par is None or isinstance(par, (ast.FunctionDef, ast.AsyncFunctionDef, ast.Lambda, ast.ClassDef,
                                           ast.Module)) and not isinstance(cur, ast.stmt):
            break
        if isinstance(par, ast.IfExp):
            if cur is par.body:
                out.append((par.test, True, 'ifexp'))
            elif cur is par.orelse:
                out.append((par.test, False, 'ifexp'))
        if isinstance(par, ast.BoolOp) and isinstance(par.op, ast.And):
            idx = par.values.index(cur)
            for v in par.values[:idx]:
                out.append((v, True, 'and'))
        if isinstance(par, ast.BoolOp) and isinstance(par.op, ast.Or):
            idx = par.values.index(cur)
            for v in par.values[:idx]:
                out.append((v, False, 'or'))
        if isinstance(cur, ast.stmt):
            for fieldname in ('body', 'orelse', 'finalbody'):
                block = getattr(par, fieldname, None)
                if isinstance(block, list) and cur in block:
                    if isinstance(par, ast.If) and par is not stop:
                        out.append((par.test, fieldname == 'body', 'if'))
                    elif isinstance(par, ast.While) and fieldname == 'body' and par is not stop and not getattr(par, '_synthetic', False):
                        out.append((par.test, True, 'while'))
                    idx = block.index(cur)
                    for prev in block[:idx]:
                        if isinstance(prev, ast.If):
                            leaves_body = _always_leaves(prev.body)
                            leaves_else = _always_leaves(prev.orelse) if prev.orelse else None
                            if leaves_body and not leaves_else:
                                out.append((prev.test, False, 'early:' + leaves_body))
                            elif leaves_else and not leaves_body:
                                out.append((prev.test, True, 'early:' + leaves_else))
                    break
            if isinstance(par, (ast.FunctionDef, ast.AsyncFunctionDef)):
                break
        cur = par
    return out


def _flip(op):
    return {ast.Lt: ast.Gt, ast.Gt: ast.Lt, ast.LtE: ast.GtE, ast.GtE: ast.LtE}.get(type(op))


_NEG = {ast.Eq: '!=', ast.NotEq: '==', ast.Lt: '>=', ast.GtE: '<', ast.Gt: '<=', ast.LtE: '>',
        ast.Is: 'is not', ast.IsNot: 'is', ast.In: 'not in', ast.NotIn: 'in'}
_POS = {ast.Eq: '==', ast.NotEq: '!=', ast.Lt: '<', ast.GtE: '>=', ast.Gt: '>', ast.LtE: '<=',
        ast.Is: 'is', ast.IsNot: 'is not', ast.In: 'in', ast.NotIn: 'not in'}
_SWAP = {'<': '>', '>': '<', '<=': '>=', '>=': '<=', '==': '==', '!=': '!='}


ACCESSORS = {'eventless': 'event', 'internal': 'target'}


def atoms(expr, polarity=True):
    """Normalise a condition into a list of atoms whose conjunction it implies.
    Atom: (op, left, right) strings; truthiness is ('truthy'|'falsy', x, '')."""
    from .prog import strip_cast
    expr = strip_cast(expr)
    if isinstance(expr, ast.UnaryOp) and isinstance(expr.op, ast.Not):
        return atoms(expr.operand, not polarity)
    if isinstance(expr, ast.BoolOp):
        if isinstance(expr.op, ast.And) and polarity or isinstance(expr.op, ast.Or) and not polarity:
            out = []
            for v in expr.values:
                out += atoms(v, polarity)
            return out
        return [('truthy' if polarity else 'falsy', ast.unparse(expr), '')]
    if isinstance(expr, ast.Compare) and len(expr.ops) == 1:
        op = expr.ops[0]
        l, r = strip_cast(expr.left), strip_cast(expr.comparators[0])
        sym = (_POS if polarity else _NEG)[type(op)]
        # len(x) > 0 / len(x) == 0 / len(x) >= 1  -> truthiness of x
        if isinstance(l, ast.Call) and isinstance(l.func, ast.Name) and l.func.id == 'len' and \
                isinstance(r, ast.Constant) and isinstance(r.value, int):
            x = ast.unparse(strip_cast(l.args[0]))
            if (sym, r.value) in (('>', 0), ('!=', 0), ('>=', 1)):
                return [('truthy', x, '')]
            if (sym, r.value) in (('==', 0), ('<=', 0), ('<', 1)):
                return [('falsy', x, '')]
        ls, rs = ast.unparse(l), ast.unparse(r)
        if sym in _SWAP and (sym in ('>', '>=') or (sym in ('==', '!=') and ls > rs)):
            sym, ls, rs = _SWAP[sym], rs, ls
        return [(sym, ls, rs)]
    if isinstance(expr, ast.Compare):
        return [('truthy' if polarity else 'falsy', ast.unparse(expr), '')]
    # equivalent accessors of sismic.model.Transition (checked by C01.1): t.eventless == (t.event is None), t.internal == (t.target is None)
    if isinstance(expr, ast.Attribute) and expr.attr in ACCESSORS:
        return [('is' if polarity else 'is not', ast.unparse(expr.value) + '.' + ACCESSORS[expr.attr], 'None')]
    return [('truthy' if polarity else 'falsy', ast.unparse(expr), '')]


def guard_atoms(node, stop=None):
    out = []
    for test, pol, kind in guards(node, stop):
        out += atoms(test, pol)
    return out
