"""C20 Async runner: no step unreported, no event lost, orderly lifecycle."""
import ast

from .. import q
from ..cfg import guards, guard_atoms, build_cfg
from ..prog import strip_cast, dotted

EXPLANATION = (
    'Static rules over sismic/runner/runner.py and the queue code of the interpreter: result-dropped query - every value returned by '
    'interpreter.execute_once() in AsyncRunner.execute is, on every path, appended to the returned list or tested falsy before being '
    'overwritten or leaving scope; per cycle before_execute < execute < after_execute(result of execute); before_run / after_run are '
    'called outside every loop, once, on every normal path; the loop condition reads both interpreter.final and the stop flag; every '
    'cycle ends at a pause point and one precedes the loop; stop() sets the stop flag, then wakes a paused runner, then joins; lockset '
    'rule on the event queues - read-modify-write sequences executed in different thread roles (runner: everything reachable from _run; '
    'client: the public API) must hold a common lock; lock re-entrancy - no hook or method of the runner is called under a non-reentrant lock that the public API '
    'acquires. Decides lifecycle shape and lock discipline, not behaviour under every schedule.')


from ..q import result_dropped


LOCK_FIXTURE = [
    ('sismic/runner/runner.py', "        self._stop = threading.Event()\n", "        self._stop = threading.Event()\n        self._fixture_lock = threading.Lock()\n"),
    ('sismic/runner/runner.py', "        self._unpaused.clear()\n", "        self._unpaused.clear()\n        with self._fixture_lock:\n            pass\n"),
    ('sismic/runner/runner.py', "            self.before_execute()\n", "            with self._fixture_lock:\n                self.before_execute()\n"),
]


def lock_findings(prog):
    """Non-reentrant locks of AsyncRunner: [(lock, holder method, with node, callee name, acquirers)] where the runner calls an overridable or public method of
    itself while holding the lock, and the public API (callable from that very method / hook) acquires the same lock: the calling thread then waits for itself."""
    ci = prog.cls('AsyncRunner')
    locks = set()
    for m in ci.methods.values():
        for st in q.walk(m.node, False):
            if isinstance(st, ast.Assign) and isinstance(st.targets[0], ast.Attribute) and q.unparse(st.targets[0].value) == 'self' and \
                    isinstance(strip_cast(st.value), ast.Call) and (dotted(strip_cast(st.value).func) or '').split('.')[-1] in ('Lock', 'Semaphore', 'BoundedSemaphore', 'Condition'):
                locks.add('self.' + st.targets[0].attr)

    def acquires(m, lk, seen=None):
        seen = seen or set()
        if m.short in seen:
            return False
        seen.add(m.short)
        for n in q.walk(m.node, False):
            if isinstance(n, ast.With) and any(q.unparse(it.context_expr) == lk for it in n.items):
                return True
            if isinstance(n, ast.Call) and q.unparse(n.func) == lk + '.acquire':
                return True
            if isinstance(n, ast.Call) and isinstance(n.func, ast.Attribute) and q.unparse(n.func.value) == 'self' and n.func.attr in ci.methods and \
                    acquires(ci.methods[n.func.attr], lk, seen):
                return True
        return False
    out = []
    for lk in sorted(locks):
        public_acq = sorted(m.name for m in ci.methods.values() if not m.name.startswith('_') and acquires(m, lk))
        for m in ci.methods.values():
            for w in q.walk(m.node, False):
                if not (isinstance(w, ast.With) and any(q.unparse(it.context_expr) == lk for it in w.items)):
                    continue
                for st in w.body:
                    for c in [x for x in ast.walk(st) if isinstance(x, ast.Call)]:
                        if isinstance(c.func, ast.Attribute) and q.unparse(c.func.value) == 'self' and c.func.attr in ci.methods:
                            callee = ci.methods[c.func.attr]
                            # an overridable method (hook) may call any public method of the runner; a private one is judged by what it reaches
                            hits = public_acq if not callee.name.startswith('_') else (['(itself)'] if acquires(callee, lk) else [])
                            if acquires(callee, lk):
                                hits = sorted(set(hits) | {callee.name})
                            if hits:
                                out.append((lk, m, w, callee.name, hits))
    return sorted(locks), out


def rules_reentrancy(run):
    from ..selftest.runner import apply_edits
    from ..loader import Tree
    from ..prog import Program
    prog = run.prog
    r = run.rule('C20.6', 'no self-deadlock: the runner never calls one of its hooks (before_execute, execute, after_execute, ..) or methods while holding a non-reentrant '
                          'lock that the public API (pause, unpause, stop, ..) acquires - a hook that pauses or stops its own runner would wait for itself for ever')
    locks, found = lock_findings(prog)
    for lk, m, w, callee, hits in found:
        run.fail(r, m.short, 'calls self.%s() holding %s' % (callee, lk), '%s is not reentrant and is acquired by %s: called from %s (same thread), the runner thread blocks for '
                 'ever, stop() never returns and after_run never runs' % (lk, hits, callee), w)
    run.ok(r, 'AsyncRunner', '%d non-reentrant lock field(s): %s; no hook or method is called under a lock the public API takes' % (len(locks), locks) if not found else 'locks examined', None)
    ov = apply_edits(LOCK_FIXTURE)
    if ov is None:
        run.note('C20.6: positive fixture not applicable to the current text of runner.py (detector not re-proved on this run)')
    else:
        _, f2 = lock_findings(Program(Tree(root=run.tree.root, overlay=dict(run.tree.overlay, **ov))))
        run.floor(len(f2), 1, r, 'findings on the positive fixture (pause() takes a lock held around before_execute)')
        run.ok(r, 'fixture', 'detector fires on the in-memory fixture', None)


def check(run):
    prog = run.prog
    r = run.rule('C20.1', 'no step dropped: every value returned by execute_once() in AsyncRunner.execute is appended to the returned list or tested falsy before it '
                          'is overwritten or goes out of scope')
    ei = run.fn('AsyncRunner.execute')
    E = ei.node
    calls = q.calls_to(run, E, {'Interpreter.execute_once'})
    run.floor(len(calls), 1, r, 'execute_once() calls in AsyncRunner.execute')
    rets = [n for n in q.walk(E, False) if isinstance(n, ast.Return)]
    run.check(len(rets) == 1 and isinstance(rets[0].value, ast.Name), r, ei.short, 'returns the list of steps', 'differs', E)
    acc = rets[0].value.id if rets and isinstance(rets[0].value, ast.Name) else None
    for c in calls:
        st = q.enclosing_stmt(c)
        if not (isinstance(st, ast.Assign) and isinstance(st.targets[0], ast.Name)):
            # direct use: must be an argument of acc.append(..)
            par = c._parent
            good = isinstance(par, ast.Call) and q.unparse(par.func) == '%s.append' % acc
            run.check(good, r, ei.short, 'result of execute_once() used directly', 'result of execute_once() is discarded', c)
            continue
        var = st.targets[0].id

        def sink(node, var=var):
            for x in ast.walk(node.ast):
                if isinstance(x, ast.Call) and q.unparse(x.func) in ('%s.append' % acc,) and x.args and q.unparse(x.args[0]) == var:
                    return True
            return False
        bad = result_dropped(E, st, var, sink)
        run.check(not bad, r, ei.short, 'result of execute_once() at "%s" is reported or falsy' % q.unparse(st),
                  'a macro step is executed but never reported (path %s)' % (bad[0] if bad else ''), st)
    lst = [v for s_, v in q.assigned_value(E, acc)] if acc else []
    run.check(len(lst) == 1 and isinstance(lst[0], ast.List) and not lst[0].elts, r, ei.short, 'the returned list starts empty', 'differs', E)
    apps = [c for c in q.calls(E) if acc and q.unparse(c.func) == acc + '.append']
    run.check(len(apps) == 1, r, ei.short, 'one append site', 'found %d' % len(apps), E)
    # execute_all decides whether the cycle goes on
    # after a step was appended, another execute_once() is reachable only through the truthy side of a test of self._execute_all
    cfg = build_cfg(E)
    okk = bool(apps) and len(calls) >= 1
    for ap in apps:
        an = cfg.node_of(ap)
        for c in calls:
            cn = cfg.node_of(c)
            # search paths an ->+ cn that never take the truthy edge of an `_execute_all` test
            seen = set()
            work = [an.id]
            while work:
                x = work.pop()
                for y, lab in cfg.succ[x]:
                    src = cfg.nodes[x]
                    if src.kind == 'test' and lab in ('T', 'F'):
                        from ..cfg import atoms as _atoms
                        if ('truthy', 'self._execute_all', '') in _atoms(src.ast, lab == 'T'):
                            continue      # this edge establishes execute_all (alone or as one conjunct of the condition)
                    if y == cn.id:
                        okk = False
                    if y in seen:
                        continue
                    seen.add(y)
                    work.append(y)
    # and with execute_all the cycle does go on: some path append ->+ execute_once exists
    goes_on = any(cfg.reaches(cfg.node_of(ap), cfg.node_of(c)) for ap in apps for c in calls)
    run.check(okk and goes_on, r, ei.short, 'one step per cycle unless execute_all',
              'after reporting a step another execute_once() is reachable without execute_all being set (or never reachable at all)', E)
    init = run.fn('AsyncRunner.__init__')
    run.check(q.param_defaults(init.node).get('execute_all') is False, r, init.short, 'execute_all defaults to False', 'differs', init.node)
    iv = [n for n in q.walk(init.node) if isinstance(n, ast.Assign) and q.unparse(n.targets[0]) == 'self._execute_all']
    run.check(len(iv) == 1 and q.unparse(iv[0].value) == 'execute_all', r, init.short, 'flag stored as given', 'differs', init.node)

    r = run.rule('C20.2', 'reporting: per cycle before_execute < execute < after_execute(r) with r the value returned by execute')
    ri = run.fn('AsyncRunner._run')
    R = ri.node
    loops = [n for n in q.walk(R, False) if isinstance(n, ast.While)]
    run.check(len(loops) == 1, r, ri.short, 'one run loop', 'found %d' % len(loops), R)
    if not loops:
        return
    W = loops[0]
    be = [c for c in q.calls(R) if q.unparse(c.func) == 'self.before_execute']
    ex = [c for c in q.calls(R) if q.unparse(c.func) == 'self.execute']
    ae = [c for c in q.calls(R) if q.unparse(c.func) == 'self.after_execute']
    run.check(len(be) == 1 and len(ex) == 1 and len(ae) == 1, r, ri.short, 'one before_execute / execute / after_execute per cycle', 'found %d/%d/%d' % (len(be), len(ex), len(ae)), R)
    if be and ex and ae:
        for c in (be[0], ex[0], ae[0]):
            run.check(q.in_block(c, W.body) and not guards(c, stop=W), r, ri.short, '%s runs in every cycle' % q.unparse(c.func), 'conditional or outside the loop', c)
        run.check(q.ordered(R, be[0], ex[0]) and q.ordered(R, ex[0], ae[0]), r, ri.short, 'before_execute < execute < after_execute', 'order differs', ae[0])
        st = q.enclosing_stmt(ex[0])
        v = st.targets[0].id if isinstance(st, ast.Assign) and isinstance(st.targets[0], ast.Name) else None
        run.check(v is not None and len(ae[0].args) == 1 and q.unparse(ae[0].args[0]) == v and len(q.assigned_value(R, v)) == 1, r, ri.short,
                  'after_execute receives exactly the value returned by execute', 'receives %s' % [q.unparse(a) for a in ae[0].args], ae[0])

    r = run.rule('C20.3', 'lifecycle: before_run / after_run once, outside every loop, on every normal path; the loop runs while not final and not stopped; a pause point '
                          'precedes the loop and ends every cycle; the stop flag is set on exit')
    for nm in ('before_run', 'after_run'):
        cs = [c for c in q.calls(R) if q.unparse(c.func) == 'self.' + nm]
        run.check(len(cs) == 1 and q.enclosing(cs[0], (ast.While, ast.For, ast.If, ast.Try)) is None, r, ri.short, '%s called once, unconditionally, outside the loop' % nm,
                  'found %d / nested' % len(cs), R)
    br = [c for c in q.calls(R) if q.unparse(c.func) == 'self.before_run']
    ar = [c for c in q.calls(R) if q.unparse(c.func) == 'self.after_run']
    if br and ar:
        run.check(q.ordered(R, br[0], W) and q.ordered(R, W, ar[0]), r, ri.short, 'before_run < loop < after_run', 'order differs', W)

    def classify(op, l, r_, e):
        if op == 'truthy' and l == 'self.interpreter.final':
            return 'FINAL'
        if op == 'truthy' and l == 'self._stop.is_set()':
            return 'STOP'
        return None
    ba = q.BoolAbs(classify)
    vs, sat = ba.table([(W.test, True, 'while')])
    bad = q.table_equals(vs, sat, lambda v: not v.get('FINAL', False) and not v.get('STOP', False))
    run.check(not bad and set(vs) == {'FINAL', 'STOP'}, r, ri.short, 'loop continues iff not final and not stopped', 'condition differs (%s)' % vs, W)
    run.check(not any(isinstance(x, (ast.Break, ast.Return)) for x in ast.walk(W)), r, ri.short, 'no other exit from the loop', 'break/return in the loop', W)
    waits = [c for c in q.calls(R) if q.unparse(c.func) == 'self._unpaused.wait']
    inloop = [c for c in waits if q.in_block(c, W.body)]
    pre = [c for c in waits if not q.in_node(c, W)]
    run.check(len(inloop) == 1 and q.enclosing_stmt(inloop[0]) is W.body[-1] and not inloop[0].args, r, ri.short, 'every cycle ends at a pause point (_unpaused.wait())', 'differs', W)
    run.check(len(pre) == 1 and q.strictly_before(R, pre[0], W) and q.enclosing(pre[0], (ast.If, ast.While)) is None, r, ri.short, 'a pause point precedes the first cycle', 'differs', R)
    if ae and inloop:
        run.check(q.ordered(R, ae[0], inloop[0]), r, ri.short, 'the cycle under way is reported before pausing', 'order differs', inloop[0])
    sets = [c for c in q.calls(R) if q.unparse(c.func) == 'self._stop.set']
    run.check(len(sets) == 1 and not q.in_node(sets[0], W) and q.ordered(R, W, sets[0]) and (not ar or q.ordered(R, sets[0], ar[0])), r, ri.short,
              'stop flag set when the loop ends, before after_run', 'differs', R)
    init = run.fn('AsyncRunner.__init__')
    th = [c for c in q.calls(init.node) if dotted(c.func) == 'threading.Thread']
    run.check(len(th) == 1 and q.unparse(q.kwargs_of(th[0]).get('target')) == 'self._run', r, init.short, 'the thread runs _run', 'differs', init.node)
    evs = {q.unparse(n.targets[0]): q.unparse(n.value) for n in q.walk(init.node) if isinstance(n, ast.Assign)}
    run.check(evs.get('self._unpaused') == 'threading.Event()' and evs.get('self._stop') == 'threading.Event()', r, init.short, 'pause and stop flags are threading.Event objects',
              'differs', init.node)

    r = run.rule('C20.4', 'stop() sets the stop flag, then wakes a paused runner, then joins; pause clears and unpause sets the pause flag; start refuses a stopped or running '
                          'runner and unpauses before starting the thread')
    si = run.fn('AsyncRunner.stop')
    S = si.node
    a = [c for c in q.calls(S) if q.unparse(c.func) == 'self._stop.set']
    b = [c for c in q.calls(S) if q.unparse(c.func) == 'self._unpaused.set']
    w = [c for c in q.calls(S) if q.unparse(c.func) in ('self.wait', 'self._thread.join')]
    run.check(len(a) == 1 and len(b) == 1 and len(w) == 1, r, si.short, 'stop flag, wake-up and join present', 'found %d/%d/%d: a paused runner would never wake up and stop() would '
              'block forever' % (len(a), len(b), len(w)), S)
    if a and b and w:
        run.check(q.ordered(S, a[0], b[0]) and q.ordered(S, b[0], w[0]) and not guards(a[0]) and not guards(b[0]) and not guards(w[0]), r, si.short,
                  '_stop.set() < _unpaused.set() < join', 'order differs', S)
    wi = run.fn('AsyncRunner.wait')
    j = [c for c in q.calls(wi.node) if q.unparse(c.func) == 'self._thread.join']
    run.check(len(j) == 1 and not j[0].args and guard_atoms(j[0]) == [('truthy', 'self._thread.is_alive()', '')], r, wi.short, 'wait joins the thread when it is alive', 'differs', wi.node)
    for nm, meth in (('pause', 'clear'), ('unpause', 'set')):
        m = run.fn('AsyncRunner.' + nm)
        cs = [c for c in q.calls(m.node)]
        run.check(len(cs) == 1 and q.unparse(cs[0].func) == 'self._unpaused.' + meth and not guards(cs[0]), r, m.short, '%s = _unpaused.%s()' % (nm, meth), 'differs', m.node)
    st = run.fn('AsyncRunner.start')
    T = st.node
    rz = q.raises_in(T)
    conds = [guard_atoms(x) for x in rz]
    run.check(any(('truthy', 'self._stop.is_set()', '') in c for c in conds), r, st.short, 'a stopped runner cannot be restarted', 'missing', T)
    run.check(any(('truthy', 'self._thread.is_alive()', '') in c for c in conds), r, st.short, 'a running runner cannot be started again', 'missing', T)
    us = [c for c in q.calls(T) if q.unparse(c.func) == 'self._unpaused.set']
    ts = [c for c in q.calls(T) if q.unparse(c.func) == 'self._thread.start']
    run.check(len(us) == 1 and len(ts) == 1 and q.strictly_before(T, us[0], ts[0]) and guard_atoms(us[0]) == guard_atoms(ts[0]), r, st.short, 'unpaused before the thread starts',
              'differs', T)

    r = run.rule('C20.5', 'lockset on the event queues: read-modify-write sequences on a queue that are executed in different thread roles (runner / client) hold a common lock')
    runner_reach = {f.short for f, _ in prog.reachable([ri]).values()}
    client_roots = [prog.fn(s) for s in ('Interpreter.queue',)]
    client_reach = {f.short for f, _ in prog.reachable(client_roots).values()}
    qe = run.fn('Interpreter._queue_event')
    se = run.fn('Interpreter._select_event')
    run.check('Interpreter._select_event' in runner_reach and 'Interpreter._queue_event' in client_reach, r, 'roles', 'runner reaches _select_event, client reaches _queue_event',
              'role reachability changed', None)

    def locks_around(fi, nodes):
        common = None
        for n in nodes:
            held = set()
            p = getattr(n, '_parent', None)
            while p is not None and p is not fi.node:
                if isinstance(p, ast.With):
                    for it in p.items:
                        held.add(q.unparse(it.context_expr))
                p = getattr(p, '_parent', None)
            common = held if common is None else common & held
        return common or set()
    seqs = {}
    bis = [c for c in q.calls(qe.node) if (dotted(c.func) or '').startswith('bisect.')]
    ins = [c for c in q.calls(qe.node) if isinstance(c.func, ast.Attribute) and c.func.attr == 'insert']
    peek = [n for n in q.walk(se.node) if isinstance(n, ast.Subscript) and isinstance(n.slice, ast.Constant)]
    pop = [c for c in q.calls(se.node) if isinstance(c.func, ast.Attribute) and c.func.attr == 'pop']
    run.anchor(bis and ins and peek and pop, r, 'bisect->insert in _queue_event and peek->pop in _select_event')
    la = locks_around(qe, bis + ins)
    lb = locks_around(se, peek + pop)
    # callers may hold the lock instead: with <lock> around the call of the whole function, in every caller
    def caller_locks(fi):
        res = None
        for caller, site in prog.callers_of(fi):
            held = locks_around(caller, [site])
            res = held if res is None else res & held
        return res or set()
    la |= caller_locks(qe)
    lb |= caller_locks(se)
    common = la & lb
    for queue, roles in (('_external_queue', 'client queue() -> _queue_event  x  runner execute_once -> _select_event'),):
        if common:
            run.ok(r, 'Interpreter.' + queue, 'sequences bisect->insert and peek->pop share lock %s' % sorted(common), ins[0])
        else:
            run.fail(r, 'Interpreter.' + queue, '_queue_event:bisect->insert x _select_event:peek->pop',
                     'no common lock (%s): a client bisecting while the runner pops can place a due event behind a not-yet-due one, so due events are not consumed in FIFO order'
                     % roles, ins[0])
    run.guard(rules_reentrancy, run)
    run.note('context (not findings): _time, _listeners, _configuration are single reads/appends across roles; the internal queue is written by the runner role only '
             '(send()), unless a client queues InternalEvent instances by hand')
