"""C02 The active configuration is always a legal, stable statechart configuration."""
import ast

from .. import q
from ..cfg import guards, guard_atoms, build_cfg
from ..prog import strip_cast, dotted
from .common import ApplyStep, labelled_sites, obj_is

EXPLANATION = (
    'Static rules over the writers of Interpreter._configuration, the apply/stabilise pairing in execute_once and _stabilize, '
    'the branches of _create_stabilization_step (one per concrete state kind, default-entry content of each, and completion of '
    'active orthogonal states that were entered through one of their regions), the exit set / entry path construction of '
    '_create_steps (LCA walk, exit filter = membership in the active configuration only) and the definition of `final`. '
    'Decides the structural obligations legality and stability rest on, not legality as an inductive invariant over all charts.')

ALLOWED_WRITERS = {
    'Interpreter.__init__': ('assign',),
    'Interpreter._apply_step': ('mut:add', 'mut:remove', 'mut:discard'),
    # deprecated helper, documented as "puts the interpreter in an empty configuration without properly leaving the active states"
    'run_in_background.<locals>.stop_thread': ('assign',),
    'run_in_background': ('assign',),
}


def rules_owner(run):
    r = run.rule('C02.1', 'Interpreter._configuration is written only by _apply_step (add for entered, remove for exited states) and '
                          '__init__ (listed exception: deprecated helpers.run_in_background stop_thread)')
    prog = run.prog
    n = 0
    for fi in prog.functions():
        if fi.outer is not None:
            continue
        for c, fld, kind, node in prog.direct_writes(fi):
            if fld == '_configuration' and (c == 'Interpreter' or c.startswith('?')):
                n += 1
                run.check(fi.short in ALLOWED_WRITERS and kind in ALLOWED_WRITERS[fi.short], r, fi.short,
                          'write:Interpreter._configuration %s' % kind,
                          'the active configuration is modified outside _apply_step', node)
    run.floor(n, 3, r, 'writers of _configuration')
    A = ApplyStep(run, r)
    for s in A.sites:
        if s.label == 'cfg_add':
            run.check(A.region(s) == 'entry', r, A.fi.short, 'additions only in the entry loop', 'a state is added outside the entry loop', s.node)
        elif s.label == 'cfg_remove':
            run.check(A.region(s) == 'exit', r, A.fi.short, 'removals only in the exit loop', 'a state is removed outside the exit loop', s.node)
        elif s.label.startswith('cfg_other'):
            run.fail(r, A.fi.short, 'unexpected configuration write ' + s.label, 'only add/remove of single states are expected', s.node)


def rules_pairing(run):
    r = run.rule('C02.2', 'every _apply_step in execute_once is followed by _stabilize() before the next one; _stabilize applies every '
                          'non-None stabilisation step and stops only when none is left')
    ei = run.fn('Interpreter.execute_once')
    E = ei.node
    es = labelled_sites(run, ei)
    aps = [s for s in es if s.label == 'apply_step']
    sts = [s for s in es if s.label == 'stabilize']
    run.anchor(aps, r, '_apply_step call in execute_once')
    for a in aps:
        good = any(q.always_followed_by(E, a.node, t.node) and q.never_after(E, a.node, t.node)
                   and q.enclosing(a.node, (ast.For, ast.While)) is q.enclosing(t.node, (ast.For, ast.While)) for t in sts)
        run.check(good, r, ei.short, '_apply_step is always followed by _stabilize in the same iteration',
                  'a step can be applied without the configuration being stabilised afterwards', a.node)
    si = run.fn('Interpreter._stabilize')
    S = si.node
    ss = labelled_sites(run, si)
    cr = [s for s in ss if s.label == 'create_stab']
    ap = [s for s in ss if s.label == 'apply_step']
    run.check(len(cr) >= 1 and len(ap) >= 1, r, si.short, '_stabilize computes and applies stabilisation steps', 'missing calls', S)
    scfg = build_cfg(S)
    for c_ in cr:
        a0 = q.arg(c_.node, 0, 'names')
        run.check(a0 is not None and dotted(strip_cast(a0)) in ('self._configuration', 'self.configuration'), r, si.short,
                  'stabilisation looks at the whole active configuration', 'argument is not the active configuration', c_.node)
        st = q.enclosing_stmt(c_.node)
        var = st.targets[0].id if isinstance(st, ast.Assign) and isinstance(st.targets[0], ast.Name) else None
        run.check(var is not None and strip_cast(st.value) is c_.node, r, si.short, 'the computed step is kept in a local, unconditionally',
                  'the next stabilisation step is not always (re)computed', c_.node)
        if var is None:
            continue

        def sink(node, var=var):
            return any(x.node is not None and scfg.node_of(x.node) is node and obj_is(x.extra['arg'], var) for x in ap)
        # (i) every computed step is applied or tested None before it is overwritten / the function returns
        bad = q.result_dropped(S, st, var, sink)
        run.check(not bad, r, si.short, 'every non-None stabilisation step is applied',
                  'a computed stabilisation step can be dropped without being applied (path %s)' % (bad[0] if bad else ''), st)
    # (ii) after applying a step the function cannot return without computing the next one
    crn = [scfg.node_of(c_.node) for c_ in cr]
    for a in ap:
        an = scfg.node_of(a.node)
        run.check(scfg.cut(crn, scfg.exit) if False else not scfg.reaches(an, scfg.exit, avoiding=crn), r, si.short,
                  'stabilisation continues until nothing is left', 'after applying a step the function can return without looking for the next one', a.node)


def _isinstance_classes(test):
    out = []
    for n in ast.walk(test):
        if isinstance(n, ast.Call) and isinstance(n.func, ast.Name) and n.func.id == 'isinstance' and len(n.args) == 2:
            k = n.args[1]
            ks = k.elts if isinstance(k, ast.Tuple) else [k]
            out.append((strip_cast(n.args[0]), [dotted(x) for x in ks], n))
    return out


def rules_stabilization(run, ids=('C02.3', 'C02.4', 'C02.5')):
    fi = run.fn('Interpreter._create_stabilization_step')
    F = fi.node
    prog = run.prog
    names_p = q.param_names(F)[1]
    r = run.rule(ids[0], 'every concrete state class is matched by a branch of _create_stabilization_step or is a stable leaf '
                          '(BasicState; FinalState away from the root)')
    concrete = [c for c in prog.classes.values() if c.module.name == 'sismic.model.elements' and not c.name.endswith('Mixin')
                and prog.is_subclass(c.name, 'StateMixin')]
    run.floor(len(concrete), 4, r, 'concrete state classes')
    tested = set()
    for subj, ks, node in [x for n in q.walk(F) if isinstance(n, ast.If) for x in _isinstance_classes(n.test)]:
        tested.update(k for k in ks if k)
    for c in concrete:
        covered = any(prog.is_subclass(c.name, t) for t in tested) or c.name == 'BasicState'
        run.check(covered, r, fi.short, 'state kind %s handled' % c.name, 'no stabilisation branch (and not a stable leaf): a state of this kind '
                  'would stay in the configuration without default entry', c.node)

    r = run.rule(ids[1], 'default-entry content: compound -> exactly its initial; orthogonal -> all its children; history -> memory or default, '
                          'history state exited; final child of root -> (final, root) exited, nothing entered')
    ms = [c for c in q.calls(F, nested=False) if dotted(c.func) == 'MicroStep']
    seen = set()
    for c in ms:
        at = guard_atoms(c)
        pos = ' '.join(a[1] for a in at if a[0] == 'truthy')
        kw = q.kwargs_of(c)
        ent, exi = kw.get('entered_states'), kw.get('exited_states')
        lp = q.enclosing(c, ast.For)
        lv = lp.target.id if lp is not None and isinstance(lp.target, ast.Name) else None
        if 'HistoryState' in pos:
            seen.add('history')
            good = ent is not None and exi is not None and q.unparse(exi) == '[%s.name]' % lv
            src = q.local_origin(F, ent)
            g2 = any(isinstance(strip_cast(s), ast.Call) and q.unparse(strip_cast(s).func) == 'self._memory.get'
                     and q.unparse(strip_cast(s).args[0]) == lv + '.name' and q.unparse(strip_cast(s).args[1]) == '[%s.memory]' % lv
                     for s in src if isinstance(strip_cast(s), ast.Call) and len(strip_cast(s).args) == 2)
            run.check(good and g2, r, fi.short, 'history: enter memory.get(h, [default]), exit h',
                      'history branch must enter the recorded memory (default: the declared memory) and exit the history state', c)
        elif 'OrthogonalState' in pos and lv and ('isinstance(%s, OrthogonalState)' % lv) in pos:
            seen.add('orthogonal')
            e = strip_cast(ent) if ent is not None else None
            inner = strip_cast(e.args[0]) if isinstance(e, ast.Call) and isinstance(e.func, ast.Name) and e.func.id in ('sorted', 'list') and e.args else e
            good = isinstance(inner, ast.Call) and 'Statechart.children_for' in q.callee_shorts(run, inner)[0] and \
                q.unparse(inner.args[0]) == lv + '.name' and exi is None
            run.check(good, r, fi.short, 'orthogonal leaf: enter every child', 'all children of an orthogonal state must be entered together', c)
        elif 'CompoundState' in pos:
            seen.add('compound')
            good = ent is not None and q.unparse(ent) == '[%s.initial]' % lv and exi is None and ('truthy', lv + '.initial', '') in at
            run.check(good, r, fi.short, 'compound leaf: enter exactly its initial state', 'a compound state must default-enter its declared initial child only', c)
        elif 'FinalState' in pos:
            seen.add('final')
            good = ent is None and exi is not None and isinstance(strip_cast(exi), ast.List) and len(strip_cast(exi).elts) == 2 and \
                q.unparse(strip_cast(exi).elts[0]) == lv + '.name' and 'root' in q.unparse(strip_cast(exi).elts[1])
            c2 = [a for a in at if a[0] == '==' and 'parent_for(%s.name)' % lv in a[1] + a[2] and 'root' in a[1] + a[2]]
            run.check(good and c2, r, fi.short, 'final child of the root: exit (final, root)', 'a final state under the root must empty the configuration', c)
        else:
            seen.add('completion')
    for k in ('history', 'orthogonal', 'compound', 'final'):
        run.check(k in seen, r, fi.short, k + ' branch present', 'no default-entry branch for %s states' % k, F)
    rets = [n for n in q.walk(F, False) if isinstance(n, ast.Return)]
    last = F.body[-1]
    run.check(isinstance(last, ast.Return) and (last.value is None or isinstance(last.value, ast.Constant) and last.value.value is None), r,
              fi.short, 'None when stable', 'must return None when nothing is left to stabilise', last)

    for lp_ in [n for n in q.walk(F, False) if isinstance(n, ast.For)]:
        for x in ast.walk(lp_):
            if isinstance(x, ast.Return):
                v = strip_cast(x.value) if x.value is not None else None
                run.check(isinstance(v, ast.Call) and dotted(v.func) == 'MicroStep', r, fi.short, 'a scan only returns when it found a step to take',
                          'the scan returns (possibly None) before every candidate state was examined: a configuration that still needs default entry is declared stable', x)
            elif isinstance(x, ast.Break):
                run.fail(r, fi.short, 'early exit from a stabilisation scan', 'a break stops the scan before every candidate was examined', x)

    r = run.rule(ids[2], 'an active orthogonal state with an inactive child is completed: some branch scans states derived from `names` '
                          '(not only the leaves), tests OrthogonalState and enters the children that are not active')
    found = False

    def derives(subject_expr):
        """(derives from `names`, passes through leaf_for) for the names read by an expression."""
        via_leaf = False
        from_names = False
        work = [x.id for x in ast.walk(subject_expr) if isinstance(x, ast.Name)]
        seen_n = set()
        while work:
            v = work.pop()
            if v in seen_n:
                continue
            seen_n.add(v)
            if v == names_p:
                from_names = True
            srcs = [val for st, val in q.assigned_value(F, v)] + [lp.iter for lp in q.for_targets(F, v)]
            for sx in srcs:
                if any(isinstance(c, ast.Call) and 'Statechart.leaf_for' in q.callee_shorts(run, c)[0] for c in ast.walk(sx)):
                    via_leaf = True
                    continue
                work += [x.id for x in ast.walk(sx) if isinstance(x, ast.Name)]
        return from_names, via_leaf
    def full_view(expr, depth=0, rebinding=False):
        """expr denotes every element of `names`: the parameter itself, an alias, or sorted / set / list .. of such (no intersection, filter or slice)."""
        expr = strip_cast(expr)
        if depth > 6:
            return False
        if isinstance(expr, ast.Name):
            if expr.id == names_p and (rebinding or not q.assigned_value(F, names_p)):
                return True
            defs = [v for st, v in q.assigned_value(F, expr.id)]
            # `names = set(names)`: inside the new value the name still denotes the parameter
            return bool(defs) and all(full_view(v, depth + 1, rebinding=expr.id == names_p and q.reads_name(v, names_p)) for v in defs)
        if isinstance(expr, ast.Call) and isinstance(expr.func, ast.Name) and expr.func.id in ('sorted', 'set', 'list', 'tuple', 'frozenset', 'reversed') and expr.args:
            return full_view(expr.args[0], depth + 1, rebinding)
        if isinstance(expr, ast.IfExp):
            return full_view(expr.body, depth + 1, rebinding) and full_view(expr.orelse, depth + 1, rebinding)
        return False

    def scans_everything(subject_expr):
        """every loop the subject is drawn from ranges over a full view of `names`"""
        work = [x.id for x in ast.walk(subject_expr) if isinstance(x, ast.Name)]
        seen_n = set()
        loops_ = []
        while work:
            v = work.pop()
            if v in seen_n:
                continue
            seen_n.add(v)
            for lp in q.for_targets(F, v):
                loops_.append(lp)
            for st, val in q.assigned_value(F, v):
                work += [x.id for x in ast.walk(val) if isinstance(x, ast.Name)]
        return bool(loops_) and all(full_view(lp.iter) for lp in loops_)
    for c in [c for c in q.calls(F, nested=False) if dotted(c.func) == 'MicroStep']:
        ent = q.kwargs_of(c).get('entered_states')
        if ent is None:
            continue
        # the orthogonal states may have been picked beforehand: for name in [n for n in <full view of names> if isinstance(state_for(n), OrthogonalState)]
        prefiltered = []
        lp_ = q.enclosing(c, ast.For)
        if lp_ is not None and isinstance(lp_.target, ast.Name):
            for o_ in [lp_.iter] + q.local_origin(F, lp_.iter):
                o_ = strip_cast(o_)
                while isinstance(o_, ast.Call) and isinstance(o_.func, ast.Name) and o_.func.id in ('sorted', 'list', 'tuple') and o_.args:
                    o_ = strip_cast(o_.args[0])
                if isinstance(o_, ast.ListComp) and len(o_.generators) == 1 and isinstance(o_.generators[0].target, ast.Name) and \
                        q.unparse(o_.elt) == o_.generators[0].target.id and len(o_.generators[0].ifs) == 1 and full_view(o_.generators[0].iter):
                    for subj_, ks_, node_ in _isinstance_classes(o_.generators[0].ifs[0]):
                        if 'OrthogonalState' in ks_ and o_.generators[0].target.id in q.unparse(subj_):
                            prefiltered.append((ast.Name(id=lp_.target.id, ctx=ast.Load()), True))
        for test, pol, kind in list(guards(c)) + [(None, True, 'prefiltered')] * bool(prefiltered):
            if not pol and not kind.startswith('early'):
                continue
            # the guard (or the negated early-exit condition) must establish isinstance(S, OrthogonalState)
            for subj, ks, node in (_isinstance_classes(test) if test is not None else [(prefiltered[0][0], {'OrthogonalState'}, None)]):
                if 'OrthogonalState' not in ks:
                    continue
                established = node is None or any(a[0] == 'truthy' and a[1].replace(' ', '') == q.unparse(node).replace(' ', '') for a in guard_atoms(c))
                if not established:
                    continue
                fn_, vl = derives(subj) if node is not None else (True, False)
                if not fn_ or vl or (node is not None and not scans_everything(subj)):
                    continue
                exprs = [ent]
                for _ in range(3):
                    nxt = []
                    for x in exprs:
                        x = strip_cast(x)
                        nxt += [y for y, st_ in q.alternatives(F, x)]
                        if isinstance(x, ast.Call) and x.args:
                            nxt.append(x.args[0])
                    exprs = exprs + nxt
                for x in exprs:
                    x = strip_cast(x)
                    if isinstance(x, ast.ListComp) and any('Statechart.children_for' in q.callee_shorts(run, cc)[0]
                                                            for cc in ast.walk(x.generators[0].iter) if isinstance(cc, ast.Call)):
                        ifs = x.generators[0].ifs
                        ca = q.canon_atom(ifs[0]) if len(ifs) == 1 else None
                        if ca and ca[0] == 'in' and not ca[3] and derives(ast.parse(ca[2], mode='eval').body)[0]:
                            found = True
                            # the completion step is taken whenever something is missing: the list of missing children is tested for emptiness only
                            holders = [y.id for y in exprs if isinstance(strip_cast(y), ast.Name) and any(strip_cast(v_) is x for st_, v_ in q.assigned_value(F, strip_cast(y).id))]
                            about = [a for a in guard_atoms(c) if any(h in a[1] or h in a[2] for h in holders)]
                            run.check(not holders or about == [('truthy', holders[0], '')], r, fi.short, 'completion whenever a child of an active orthogonal state is inactive',
                                      'the completion step is conditional on %s: an orthogonal state with a single inactive region stays incomplete' % (about or 'nothing'), c)
    run.check(found, r, fi.short, 'orthogonal completion for states entered through one region',
              'only leaves (or a narrowed subset of the active states) are examined for default entry: an orthogonal state entered through a transition '
              'that targets a state nested in one of its regions keeps its other regions inactive (illegal configuration)', F)


def rules_create_steps(run):
    r = run.rule('C02.6', '_create_steps: LCA of (source, target); exit set = active descendants of the LCA child on the source side plus that '
                          'child, filtered only by membership in the active configuration; entry path = ancestors of the target strictly '
                          'below the LCA plus the target')
    fi = run.fn('Interpreter._create_steps')
    F = fi.node
    lp = [n for n in q.walk(F, False) if isinstance(n, ast.For) and isinstance(strip_cast(n.iter), ast.Name)
          and strip_cast(n.iter).id == q.param_names(F)[2]]
    run.anchor(len(lp) == 1 and isinstance(lp[0].target, ast.Name), r, 'loop over the transitions in _create_steps')
    L = lp[0]
    t = L.target.id
    lcas = [(st, v) for n in ('lca',) for st, v in q.assigned_value(F, n)]
    lca_calls = q.calls_to(run, F, {'Statechart.least_common_ancestor'})
    run.check(len(lca_calls) == 1, r, fi.short, 'one LCA computation', 'expected one least_common_ancestor call', F)
    lca_var = None
    for c in lca_calls:
        args = [q.unparse(a) for a in c.args]
        run.check(args == [t + '.source', t + '.target'], r, fi.short, 'LCA of (source, target)', 'LCA computed over %s' % args, c)
        st = q.enclosing_stmt(c)
        if isinstance(st, ast.Assign) and isinstance(st.targets[0], ast.Name):
            lca_var = st.targets[0].id
            run.check(strip_cast(st.value) is c, r, fi.short, 'the LCA is used as computed',
                      'the LCA value is altered (%s): e.g. falling back to the root for a transition leaving the root makes the root be exited and never re-entered' % q.unparse(st.value)[:80], st)
    run.anchor(lca_var, r, 'variable holding the LCA')
    # internal transitions produce a step without state lists
    # ancestor walks
    walks = [n for n in ast.walk(L) if isinstance(n, ast.For) and n is not L]

    def origin_is_ancestors(expr, of):
        for e in [expr] + q.local_origin(F, expr):
            e = strip_cast(e)
            if isinstance(e, ast.Call) and 'Statechart.ancestors_for' in q.callee_shorts(run, e)[0] and e.args and q.unparse(e.args[0]) == of:
                return True
        return False
    src_walk = [w for w in walks if origin_is_ancestors(w.iter, t + '.source')]
    tgt_walk = [w for w in walks if origin_is_ancestors(w.iter, t + '.target')]
    run.check(len(src_walk) == 1, r, fi.short, 'walk up from the source', 'expected one loop over ancestors_for(source)', L)
    run.check(len(tgt_walk) == 1, r, fi.short, 'walk up from the target', 'expected one loop over ancestors_for(target)', L)
    last_var = None
    for w in src_walk + tgt_walk:
        v = w.target.id
        brk = [n for n in ast.walk(w) if isinstance(n, ast.Break)]
        good = len(brk) == 1 and guard_atoms(brk[0], stop=w) in ([('==', *sorted([v, lca_var]))], [('==', lca_var, v)], [('==', v, lca_var)])
        run.check(good, r, fi.short, 'walk stops at the LCA (%s)' % ('source side' if w in src_walk else 'target side'),
                  'the ancestor walk must stop exactly when it reaches the LCA', w)
        upd = [s for s in w.body if not (isinstance(s, ast.If) and any(isinstance(x, ast.Break) for x in ast.walk(s)))]
        for u in upd:
            for b in brk:
                ifb = [s for s in w.body if q.in_node(b, s)]
                run.check(ifb and w.body.index(ifb[0]) < w.body.index(u), r, fi.short, 'LCA test precedes the update',
                          'the LCA itself must not be included', u)
        if w in src_walk:
            asg = [s for s in upd if isinstance(s, ast.Assign) and isinstance(s.targets[0], ast.Name) and isinstance(s.value, ast.Name) and s.value.id == v]
            run.check(len(asg) == 1 and len(upd) == 1, r, fi.short, 'tracks the highest ancestor below the LCA', 'unexpected body of the source-side walk', w)
            if asg:
                last_var = asg[0].targets[0].id
        else:
            ins = [s for s in upd if isinstance(s, ast.Expr) and isinstance(s.value, ast.Call) and isinstance(s.value.func, ast.Attribute)
                   and s.value.func.attr in ('insert', 'append')]
            run.check(len(ins) == 1 and len(upd) == 1 and q.unparse(ins[0].value.args[-1]) == v, r, fi.short,
                      'every ancestor of the target below the LCA joins the entry path', 'unexpected body of the target-side walk', w)
    if last_var:
        inits = [v for st, v in q.assigned_value(F, last_var) if not any(q.in_node(st, w) for w in src_walk)]
        run.check(len(inits) == 1 and q.unparse(inits[0]) == t + '.source', r, fi.short, 'walk starts at the source itself',
                  'the LCA child defaults to the source state', L)
        ms = [c for c in q.calls(L) if dotted(c.func) == 'MicroStep' and 'exited_states' in q.kwargs_of(c)]
        run.anchor(ms, r, 'MicroStep(.., exited_states=..) in _create_steps')
        ex = q.kwargs_of(ms[0])['exited_states']
        en = q.kwargs_of(ms[0]).get('entered_states')
        exv = ex.id if isinstance(ex, ast.Name) else None
        accs = q.accumulations(F, exv) if exv else []

        def classify(op, l, r_, e):
            if op == 'in' and r_ in ('self._configuration', 'self.configuration'):
                return 'ACTIVE:' + l
            if op == 'is' and l == t + '.target' and r_ == 'None':
                return 'INTERNAL'
            if op == 'truthy' and l == t + '.internal':
                return 'INTERNAL'
            return None
        n_desc = n_self = 0
        for elt, it, conds, node in accs:
            if elt is None:
                run.fail(r, fi.short, 'exit list extended with ' + q.unparse(it)[:40], 'unrecognised accumulation into the exit list', node)
                continue
            val = q.unparse(elt)
            from_desc = it is not None and any(isinstance(c, ast.Call) and 'Statechart.descendants_for' in q.callee_shorts(run, c)[0] and c.args
                                               and q.unparse(c.args[0]) == last_var for x in [it] + [o for o in q.local_origin(F, it)] for c in ast.walk(x))
            is_self = val == last_var
            if from_desc:
                n_desc += 1
            elif is_self:
                n_self += 1
            else:
                run.fail(r, fi.short, 'exit list receives ' + val, 'a state that is neither the LCA child nor one of its descendants is exited', node)
                continue
            # outer conditions of the statement (e.g. the internal-transition early exit) + the element's own filter
            outer = [(g[0], g[1], g[2]) for g in guards(node, stop=L)] if not isinstance(node, ast.Call) or q.enclosing(node, ast.For) is L else \
                [(g[0], g[1], g[2]) for g in guards(q.enclosing(node, ast.For), stop=L)]
            ba = q.BoolAbs(classify)
            vs, sat = ba.table([(c_, p_, 'own') for c_, p_ in conds] + outer)
            bad = q.table_equals(vs, sat, lambda v_: v_.get('ACTIVE:' + val, False) and not v_.get('INTERNAL', False))
            run.check(not bad and set(vs) <= {'ACTIVE:' + val, 'INTERNAL'}, r, fi.short, 'exit of %s filtered only by being active' % val,
                      'exit filter depends on more than membership in the active configuration (%s)' % vs, node)
        run.check(n_desc == 1, r, fi.short, 'exit candidates = descendants of the LCA child', 'expected one accumulation over descendants_for(<LCA child>), found %d' % n_desc, L)
        run.check(n_self == 1, r, fi.short, 'the LCA child itself is exited', 'the LCA child must be part of the exit set', L)
        if en is not None and isinstance(en, ast.Name):
            init = [v for st, v in q.assigned_value(F, en.id)]
            run.check(len(init) == 1 and q.unparse(init[0]) == '[%s.target]' % t, r, fi.short, 'entry path ends with the target', 'entry list must start as [target]', L)
    # internal transitions: the step built exactly under "the transition is internal" carries no state lists
    def classify_i(op, l, r_, e):
        if op == 'is' and l == t + '.target' and r_ == 'None':
            return 'INTERNAL'
        if op == 'truthy' and l == t + '.internal':
            return 'INTERNAL'
        if op == 'truthy' and l == t + '.target':
            return ('INTERNAL', False)
        return None
    good = False
    for m in [x for x in q.calls(L) if dotted(x.func) == 'MicroStep']:
        ba = q.BoolAbs(classify_i)
        vs, sat = ba.table([(g[0], g[1], g[2]) for g in guards(m, stop=L)])
        if set(vs) == {'INTERNAL'} and not q.table_equals(vs, sat, lambda v_: v_.get('INTERNAL', False)):
            good = set(q.kwargs_of(m)) <= {'event', 'transition'} and len(m.args) == 0 and obj_is(q.kwargs_of(m).get('transition'), t)
            if not good:
                break
    run.check(good, r, fi.short, 'internal transitions exit and enter nothing', 'internal transition must yield a step with no state lists', L)


def rules_final(run):
    r = run.rule('C02.7', '`final` = initialised and configuration empty; _initialized is written only in __init__ (False) and on the first '
                          '_compute_steps (True), which yields the entry of the root')
    fi = run.fn('Interpreter.final')
    rets = [n for n in q.walk(fi.node, False) if isinstance(n, ast.Return)]
    run.anchor(len(rets) == 1, r, 'single return in Interpreter.final')

    def classify(op, l, r_, e):
        if op == 'truthy' and l == 'self._initialized':
            return 'INIT'
        if op == 'truthy' and l in ('self._configuration', 'self.configuration'):
            return ('EMPTY', False)
        return None
    ba = q.BoolAbs(classify)
    vs, sat = ba.table([(rets[0].value, True, 'ret')])
    bad = q.table_equals(vs, sat, lambda v: v.get('INIT', False) and v.get('EMPTY', False))
    run.check(not bad and set(vs) == {'INIT', 'EMPTY'}, r, fi.short, 'final = initialised and empty configuration', 'definition of final differs (%s)' % vs, rets[0])
    n = 0
    for f in run.prog.functions():
        if f.outer is not None:
            continue
        for c, fld, kind, node in run.prog.direct_writes(f):
            if fld == '_initialized' and c == 'Interpreter':
                n += 1
                if f.short == 'Interpreter.__init__':
                    run.check(isinstance(node.value, ast.Constant) and node.value.value is False, r, f.short, '_initialized starts False', 'must start False', node)
                elif f.short == 'Interpreter._compute_steps':
                    at = guard_atoms(node)
                    run.check(isinstance(node.value, ast.Constant) and node.value.value is True and at == [('falsy', 'self._initialized', '')], r, f.short,
                              '_initialized set on the first computation only', 'must be set True exactly when not yet initialised', node)
                    blk = q.block_of(node)
                    ret = [s for s in blk if isinstance(s, ast.Return)]
                    good = len(ret) == 1 and isinstance(strip_cast(ret[0].value), ast.List) and len(strip_cast(ret[0].value).elts) == 1
                    if good:
                        m = strip_cast(ret[0].value).elts[0]
                        kw = q.kwargs_of(m) if isinstance(m, ast.Call) else {}
                        good = isinstance(m, ast.Call) and dotted(m.func) == 'MicroStep' and set(kw) == {'entered_states'} and \
                            'self._statechart.root' in q.unparse(kw['entered_states']) and isinstance(strip_cast(kw['entered_states']), ast.List) \
                            and len(strip_cast(kw['entered_states']).elts) == 1
                    run.check(good, r, f.short, 'first step enters the root only', 'the initial step must be [MicroStep(entered_states=[root])]', node)
                else:
                    run.fail(r, f.short, 'write:Interpreter._initialized', '_initialized written outside __init__/_compute_steps', node)
    run.floor(n, 2, r, 'writers of _initialized')


MEMO_FIXTURE = [
    ('sismic/interpreter/default.py', "        self._configuration = set()  # type: Set[str]\n",
     "        self._configuration = set()  # type: Set[str]\n        self._fixture_sorted = None\n"),
    ('sismic/interpreter/default.py', "        return sorted(self._configuration, key=lambda s: (self._statechart.depth_for(s), s))",
     "        if self._fixture_sorted is None:\n            self._fixture_sorted = sorted(self._configuration, key=lambda s: (self._statechart.depth_for(s), s))\n"
     "        return list(self._fixture_sorted)"),
]


def interpreter_memo_findings(prog):
    """Fields of Interpreter that memoise a value computed from other interpreter fields (`if self.X is None: self.X = E`, or a keyed fill under `not in`):
    [(memo field, dependency field, function, write node)] for every write of a dependency that is not followed at once - before any call that could run
    statechart code or read the memo - by an invalidation of the memo. (A memo dropped at the start of a step only is refilled mid-step by `active(..)` in an
    action or a contract and then reports a configuration the interpreter has left.)"""
    ci = prog.cls('Interpreter')
    fields = set()
    for m in ci.methods.values():
        for c, f, k, n in prog.direct_writes(m):
            if c == 'Interpreter':
                fields.add(f)
    memos = {}
    for m in ci.methods.values():
        if m.name == '__init__':
            continue
        for st in q.walk(m.node, False):
            if not (isinstance(st, ast.Assign) and isinstance(st.targets[0], (ast.Attribute, ast.Subscript))):
                continue
            tgt = st.targets[0]
            base = tgt if isinstance(tgt, ast.Attribute) else tgt.value
            if not (isinstance(base, ast.Attribute) and q.unparse(base.value) == 'self'):
                continue
            X = base.attr
            at = guard_atoms(st)
            fill = any((a[0] == 'is' and a[1] == 'self.' + X and a[2] == 'None') or (a[0] == 'falsy' and a[1] == 'self.' + X) or (a[0] == 'not in' and a[2] == 'self.' + X) for a in at)
            if not fill:
                continue
            deps = {n.attr for n in ast.walk(st.value) if isinstance(n, ast.Attribute) and q.unparse(n.value) == 'self' and n.attr in fields and n.attr != X}
            memos.setdefault(X, set()).update(deps)
    out = []
    for X, deps in memos.items():
        def invalidates(st):
            if isinstance(st, ast.Assign) and q.unparse(st.targets[0]) == 'self.' + X and (isinstance(st.value, ast.Constant) and st.value.value is None or isinstance(st.value, (ast.Dict, ast.List))):
                return True
            if isinstance(st, ast.Expr) and isinstance(st.value, ast.Call) and q.unparse(st.value.func) in ('self.%s.clear' % X,):
                return True
            if isinstance(st, ast.Delete) and any(q.unparse(t) == 'self.' + X for t in st.targets):
                return True
            return False
        for m in ci.methods.values():
            if m.name == '__init__':
                continue
            for c, f, k, n in prog.direct_writes(m):
                if c != 'Interpreter' or f not in deps:
                    continue
                st = n if isinstance(n, ast.stmt) else q.enclosing_stmt(n)
                blk = q.block_of(st)
                okk = False
                if blk is not None:
                    for nxt in blk[blk.index(st) + 1:]:
                        if invalidates(nxt):
                            okk = True
                            break
                        if any(isinstance(x, ast.Call) for x in ast.walk(nxt)) or isinstance(nxt, (ast.Return, ast.Raise, ast.For, ast.While, ast.If, ast.Try, ast.With)):
                            break
                    # .. or just before the write, with nothing but the write in between
                    idx = blk.index(st)
                    if not okk and idx > 0 and invalidates(blk[idx - 1]) and not any(
                            isinstance(x, ast.Call) and x is not n and not q.in_node(n, x) for x in ast.walk(st) if x is not getattr(st, 'value', None)):
                        okk = True
                if not okk:
                    out.append((X, f, m, n))
    return memos, out


def rules_memo(run, rid='C02.10'):
    from ..selftest.runner import apply_edits
    from ..loader import Tree
    from ..prog import Program
    prog = run.prog
    r = run.rule(rid, 'a field of the interpreter that memoises something computed from the active configuration (or from any other field of the interpreter) is dropped '
                           'at every write of what it is computed from, before any statechart code can run - the configuration reported mid-step and afterwards is the real one')
    memos, found = interpreter_memo_findings(prog)
    for X, f, m, n in found:
        run.fail(r, m.short, 'memo %s survives write of %s: %s' % (X, f, q.unparse(n)[:40]), 'self.%s is computed from self.%s, which is written here without dropping the memo right '
                 'away: code run later in the step (an action or a contract calling active(..), a listener) refills or reads a stale value' % (X, f), n)
    run.ok(r, 'Interpreter', '%d memo field(s) on the interpreter: %s' % (len(memos), sorted(memos)), None)
    ov = apply_edits(MEMO_FIXTURE)
    if ov is None:
        run.note(rid + ': positive fixture not applicable to the current text of Interpreter.configuration (detector not re-proved on this run)')
    else:
        _, f2 = interpreter_memo_findings(Program(Tree(root=run.tree.root, overlay=dict(run.tree.overlay, **ov))))
        run.floor(len(f2), 2, r, 'findings on the positive fixture (memoised sorted configuration, never dropped)')
        run.ok(r, 'fixture', 'detector fires on the in-memory fixture', None)


def check(run):
    run.guard(rules_memo, run)
    # two transitions that leave their regions, applied one after the other, leave a compound state with two active children: legality of the configuration
    # rests on the conflict check judging every pair against the LCA of that pair
    from .c04 import rules_pairs
    run.guard(rules_pairs, run, 'C02.11')
    from . import c06
    run.guard(c06.rules_save, run, 'C02', ('.8a', '.8b', '.8c'))
    run.guard(rules_owner, run)
    run.guard(rules_pairing, run)
    run.guard(rules_stabilization, run)
    run.guard(rules_create_steps, run)
    run.guard(rules_final, run)
    # the queries the decision rests on (depth_for / ancestors_for / descendants_for) must not answer from stale derived data after an edit
    from .c16 import rules_caches
    run.guard(rules_caches, run, 'C02', '.9')
