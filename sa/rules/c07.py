"""C07 Execution is deterministic and independent of declaration order (order lattice), and C03.5 depth directions."""
import ast

from .. import q
from ..order import Orders, show, deterministic, direction, tiebreak, taint
from ..prog import strip_cast, dotted
from ..cfg import guard_atoms

EXPLANATION = (
    'Order-taint analysis (sa/order.py): every list-valued expression gets an order tag (declaration order, set/hash order, '
    'sorted-by-key with the key classified, ancestor chain, breadth-first over children lists, reversed, concatenation, '
    'caller-given). Summaries of the Statechart queries are computed, not assumed. Sinks are the state lists of every '
    'MicroStep built by the interpreter, the sequence in which stabilisation leaves are examined, the order of several '
    'transitions, the sequence over which invariants are evaluated; each must carry a declaration- and hash-independent '
    'tag. Also: no id()/hash() value outside __hash__ definitions and dictionary keys; the evaluator context is a fresh dictionary, never the mapping passed by the caller. Decides that no declaration or '
    'hash order can reach an observable ordering; not the determinism of user code.')


def micro_lists(run, o, fi):
    """[(MicroStep call, kw, tag, env)] for the state lists of every MicroStep built in fi."""
    F = fi.node
    out = []
    for c in q.calls(F, nested=False):
        if dotted(c.func) != 'MicroStep':
            continue
        st = q.enclosing_stmt(c)
        env = o.flow(fi, F, upto=st)
        for k in ('entered_states', 'exited_states'):
            v = q.arg(c, {'entered_states': 2, 'exited_states': 3}[k], k)
            if v is not None:
                out.append((c, k, o.tag(v, env, fi, F), v))
    return out


def rules_order(run, P='C03', rid='.5'):
    """Depth direction and tie-break of the exit / entry / history / orthogonal / transition orders."""
    r = run.rule(P + rid, 'exit list of a transition is deepest-first (ties by name) and ends with the child of the LCA; entry list is '
                          'outermost-first and ends with the target; history memory is entered by (depth, name); orthogonal children by '
                          'name; several transitions by (-source depth, source name); stabilisation leaves by (-depth, name)')
    o = Orders(run)
    fi = run.fn('Interpreter._create_steps')
    lists = micro_lists(run, o, fi)
    ex = [x for x in lists if x[1] == 'exited_states']
    en = [x for x in lists if x[1] == 'entered_states']
    run.anchor(ex and en, r, 'MicroStep(entered_states=.., exited_states=..) in _create_steps')
    for c, k, t, v in ex:
        parts = t[1] if t[0] == 'CAT' else [t]
        parts = [p for p in parts if not (p[0] == 'CAT' and not p[1])]
        run.check(len(parts) >= 2 and parts[-1] == ('ONE',), r, fi.short, 'exit list ends with the LCA child itself',
                  'the exited list must end with the state below the LCA (got %s)' % show(t), c)
        body = ('CAT', parts[:-1]) if len(parts) > 1 else t
        d = direction(body)
        run.check(d in ('up', 'any'), r, fi.short, 'exit list is deepest-first', 'exited descendants are ordered %s (%s), children must be '
                  'exited before their parents' % (d, show(body)), c)
        tb = tiebreak(body)
        run.check(tb == 'name+', r, fi.short, 'exit list breaks depth ties by name',
                  'states of equal depth (orthogonal siblings) are exited in %s order, not in name order: %s' % (tb, show(body)), c)
    for c, k, t, v in en:
        parts = t[1] if t[0] == 'CAT' else [t]
        run.check(parts and parts[-1] == ('ONE',) and direction(t) in ('down', 'any'), r, fi.short, 'entry list is outermost-first and ends with the target',
                  'entered states are ordered %s (%s); parents must be entered before children' % (direction(t), show(t)), c)
    fi = run.fn('Interpreter._create_stabilization_step')
    F = fi.node
    lists = micro_lists(run, o, fi)
    run.floor(len(lists), 4, r, 'MicroStep state lists in _create_stabilization_step')
    for c, k, t, v in lists:
        gs = ' '.join(a[1] for a in guard_atoms(c) if a[0] == 'truthy')
        kind = 'history' if 'HistoryState' in gs else 'orthogonal' if 'OrthogonalState' in gs else 'compound' if 'CompoundState' in gs \
            else 'final' if 'FinalState' in gs else 'other'
        if k == 'entered_states' and kind == 'history':
            run.check(t[0] == 'SORTED' and t[1][:2] == ('depth+', 'name+'), r, fi.short, 'history memory entered by (depth, name)',
                      'restored states are ordered %s; parents must come before children, ties by name' % show(t), c)
        elif k == 'entered_states' and kind == 'orthogonal':
            run.check(t[0] == 'SORTED' and t[1][:1] == ('name+',), r, fi.short, 'orthogonal children entered in name order',
                      'children of an orthogonal state are entered in %s order' % show(t), c)
        elif k == 'entered_states' and kind == 'compound':
            run.check(t == ('ONE',), r, fi.short, 'compound default entry is a single state', 'got %s' % show(t), c)
        else:
            run.check(deterministic(t), r, fi.short, '%s list of the %s step is fixed' % (k, kind), 'order is %s' % show(t), c)
    # leaves examined deepest first, by name
    loops = [n for n in q.walk(F, False) if isinstance(n, ast.For) and any(isinstance(x, ast.Return) for x in ast.walk(n))]
    run.anchor(loops, r, 'loop examining the leaves in _create_stabilization_step')
    for lp in loops:
        env = o.flow(fi, F, upto=lp)
        t = o.tag(lp.iter, env, fi, F)
        run.check(t[0] == 'SORTED' and t[1][:2] == ('depth-', 'name+'), r, fi.short, 'stabilisation examines leaves by (-depth, name)',
                  'leaves are examined in %s order' % show(t), lp)
    si = run.fn('Interpreter._sort_transitions')
    t = o.summary(si)
    run.check(t[0] == 'SORTED' and t[1][:2] == ('srcdepth-', 'src+'), r, si.short, 'several transitions ordered by (-source depth, source name)',
              'transitions are ordered %s' % show(t), si.node)
    ci = run.fn('Interpreter._compute_steps')
    cr = q.calls_to(run, ci.node, {'Interpreter._create_steps'})
    so = q.calls_to(run, ci.node, {'Interpreter._sort_transitions'})
    good = len(cr) == 1 and len(so) == 1
    if good:
        st = q.enclosing_stmt(so[0])
        a1 = q.arg(cr[0], 1, 'transitions')
        good = isinstance(st, ast.Assign) and isinstance(st.targets[0], ast.Name) and isinstance(a1, ast.Name) and a1.id == st.targets[0].id \
            and q.strictly_before(ci.node, st, cr[0])
        # no reordering between
        between = [s for s, v in q.assigned_value(ci.node, a1.id)] if isinstance(a1, ast.Name) else []
        good = good and all(s is st or q.strictly_before(ci.node, s, st) for s in between)
    run.check(good, r, ci.short, 'steps are created in the sorted transition order', 'the sorted order must be the one handed to _create_steps', ci.node)
    # _create_steps iterates its transitions parameter in order
    fi = run.fn('Interpreter._create_steps')
    tp = q.param_names(fi.node)[2]
    lps = [n for n in q.walk(fi.node, False) if isinstance(n, ast.For) and isinstance(strip_cast(n.iter), ast.Name) and strip_cast(n.iter).id == tp]
    run.check(len(lps) == 1 and not q.assigned_value(fi.node, tp), r, fi.short, 'one step per transition, in the given order',
              'the transitions must be turned into steps in the order given', fi.node)
    rets = [n for n in q.walk(fi.node, False) if isinstance(n, ast.Return)]
    if lps and len(rets) == 1 and isinstance(rets[0].value, ast.Name):
        acc = rets[0].value.id
        apps = [c for c in q.calls(lps[0]) if isinstance(c.func, ast.Attribute) and c.func.attr == 'append' and isinstance(c.func.value, ast.Name) and c.func.value.id == acc]
        other = [c for c in q.calls(fi.node) if isinstance(c.func, ast.Attribute) and c.func.attr in ('insert', 'sort', 'reverse', 'extend') and isinstance(c.func.value, ast.Name) and c.func.value.id == acc]
        run.check(len(apps) >= 1 and not other, r, fi.short, 'steps appended in iteration order', 'steps are not returned in the order of the transitions', fi.node)
    return o


def rules_taint(run):
    r = run.rule('C07.1', 'no declaration-order or hash-order sequence reaches an ordered sink: MicroStep state lists, the order in which '
                          'stabilisation leaves are examined, the order of several transitions, the invariants loop, the initial step')
    o = Orders(run)
    n = 0
    for short in ('Interpreter._create_steps', 'Interpreter._create_stabilization_step', 'Interpreter._compute_steps'):
        fi = run.fn(short)
        for c, k, t, v in micro_lists(run, o, fi):
            n += 1
            run.check(deterministic(t), r, fi.short, 'MicroStep(%s=%s)' % (k, q.unparse(v)[:40]),
                      'order of %s depends on %s (%s)' % (k, taint(t), show(t)), c)
    run.floor(n, 6, r, 'MicroStep state lists')
    fi = run.fn('Interpreter._create_stabilization_step')
    for lp in [x for x in q.walk(fi.node, False) if isinstance(x, ast.For) and any(isinstance(y, ast.Return) for y in ast.walk(x))]:
        env = o.flow(fi, fi.node, upto=lp)
        t = o.tag(lp.iter, env, fi, fi.node)
        run.check(deterministic(t), r, fi.short, 'order in which leaves are stabilised', 'depends on %s (%s)' % (taint(t), show(t)), lp)
    si = run.fn('Interpreter._sort_transitions')
    t = o.summary(si)
    run.check(deterministic(t), r, si.short, 'order of several transitions', 'depends on %s (%s)' % (taint(t), show(t)), si.node)
    # configuration property and the invariants loop
    cp = run.fn('Interpreter.configuration')
    t = o.summary(cp)
    run.check(deterministic(t) and t[0] == 'SORTED' and t[1][:2] == ('depth+', 'name+'), r, cp.short, 'configuration is sorted by (depth, name)',
              'configuration order is %s' % show(t), cp.node)
    ei = run.fn('Interpreter.execute_once')
    E = ei.node
    inv = [c for (obj, kind, step, c) in q.contract_calls(run, E) if kind == 'invariants']
    inv += [c for c in q.calls(E) if isinstance(c.func, ast.Attribute) and c.func.attr == 'evaluate_invariants']      # (evaluator asked directly)
    run.anchor(inv, r, 'state invariants evaluation in execute_once')
    for c in inv:
        lp = q.enclosing(c, ast.For)
        while lp is not None and q.in_node(c, lp.iter):       # (a loop over the failing conditions is not the loop over the states)
            lp = q.enclosing(lp, ast.For)
        run.anchor(lp is not None, r, 'loop around the invariants evaluation')
        env = o.flow(ei, E, upto=lp)
        t = o.tag(lp.iter, env, ei, E)
        run.check(deterministic(t), r, ei.short, 'invariants evaluated over a sorted configuration', 'order depends on %s (%s)' % (taint(t), show(t)), lp)
    # every loop in the interpreter / evaluator that executes statechart code or emits events iterates a deterministic sequence
    n = 0
    for fi in run.prog.functions():
        if fi.outer is not None or fi.module.name not in ('sismic.interpreter.default', 'sismic.code.python', 'sismic.code.evaluator',
                                                           'sismic.interpreter.listener'):
            continue
        for lp in [x for x in q.walk(fi.node, False) if isinstance(x, ast.For)]:
            body_calls = [c for c in q.calls(lp)]
            eff = []
            for c in body_calls:
                shorts, ext = q.callee_shorts(run, c)
                if any(s.split('.')[-1] in ('execute_on_exit', 'execute_on_entry', 'execute_action', '_raise_event', '_execute_code',
                                            '_apply_step', '_evaluate_contract_conditions') for s in shorts) or ext == 'external-listener':
                    eff.append(c)
            if not eff:
                continue
            n += 1
            env = o.flow(fi, fi.node, upto=lp)
            t = o.tag(lp.iter, env, fi, fi.node)
            run.check(deterministic(t), r, fi.short, 'effectful loop over ' + q.unparse(lp.iter)[:50],
                      'a loop that executes statechart code / emits events iterates in %s order' % show(t), lp)
    run.floor(n, 5, r, 'effectful loops')

    # adjacency-dependent grouping of a declaration-ordered sequence
    ng = 0
    for fi in run.prog.functions():
        if fi.outer is not None or not fi.module.name.startswith('sismic.interpreter'):
            continue
        for c in q.calls(fi.node):
            nm = (dotted(c.func) or '').split('.')[-1]
            if nm == 'groupby':
                ng += 1
                a0 = strip_cast(c.args[0]) if c.args else None
                key = q.arg(c, 1, 'key')
                presorted = isinstance(a0, ast.Call) and isinstance(a0.func, ast.Name) and a0.func.id == 'sorted' and key is not None and \
                    q.arg(a0, None, 'key') is not None and q.unparse(q.arg(a0, None, 'key')) == q.unparse(key)
                run.check(presorted, r, fi.short, 'itertools.groupby over an input sorted by the same key', 'adjacency-based grouping of a sequence in declaration order: '
                          'the groups (hence the selected transitions) depend on the order in which items were declared', c)
            elif nm == 'sorted_groupby':
                ng += 1
                run.ok(r, fi.short, 'full (order-independent) grouping ' + q.unparse(c)[:50], c)
    run.floor(ng, 4, r, 'grouping sites in the interpreter')

    r = run.rule('C07.3', 'no id()/hash() value is used outside __hash__ definitions and dictionary keys (no address- or seed-dependent control)')
    n = 0
    for fi in run.prog.functions():
        if fi.outer is not None:
            continue
        for c in q.calls(fi.node, nested=True):
            if isinstance(c.func, ast.Name) and c.func.id in ('id', 'hash') and run.prog._resolve_name(c.func.id, fi) == ('builtin', c.func.id):
                n += 1
                par = c._parent
                okk = False
                if isinstance(par, ast.Return) and fi.name == '__hash__':
                    okk = True
                elif isinstance(par, ast.Subscript) and par.slice is c:
                    okk = True
                elif isinstance(par, ast.Call) and isinstance(par.func, ast.Attribute) and par.func.attr in ('get', 'pop', 'setdefault') and par.args and par.args[0] is c:
                    okk = True
                run.check(okk, r, fi.short, '%s(..) used as %s' % (c.func.id, type(par).__name__),
                          'an identity/hash value influences more than a dictionary lookup', c)
    run.floor(n, 2, r, 'id()/hash() uses')
    # iteration of sets feeding ordered outputs is covered by C07.1 (HASH tags); record the DECL sources for the evidence
    run.note('C07.4 DECL sources: Statechart._children lists (add_state appends; rename_state re-appends; import_from_dict pops a stack => '
             'reverse document order), Statechart._transitions; harmless exactly when C07.1 holds')


def rules_own_context(run):
    """Same chart, same initial context, same events -> same run: the evaluator must not keep working in a mapping the caller (and the next
    interpreter built from it) still holds."""
    prog = run.prog
    r = run.rule('C07.6', 'the context of PythonEvaluator is its own dictionary: every binding of _context is a fresh container (a display, dict(..), a copy), '
                          'never a mapping received from the caller (a second run seeded with the same mapping would start from what the first one left)')
    n = 0
    fresh_calls = ('dict', 'copy.copy', 'copy.deepcopy', 'copy', 'deepcopy', 'collections.OrderedDict', 'OrderedDict')
    for f in prog.functions():
        if f.outer is not None or f.cls is None or not prog.is_subclass(f.cls.name, 'PythonEvaluator'):
            continue
        params = {a.arg for a in f.node.args.args + f.node.args.kwonlyargs} - {'self'}
        for c, fld, kind, node in prog.direct_writes(f):
            if fld != '_context' or kind != 'assign':
                continue
            n += 1
            vals = [node.value] + q.local_origin(f.node, node.value)
            def fresh(v):
                v = strip_cast(v)
                if isinstance(v, (ast.Dict, ast.DictComp)):
                    return True
                if isinstance(v, ast.Call) and (dotted(v.func) in fresh_calls or (isinstance(v.func, ast.Attribute) and v.func.attr == 'copy')):
                    return True
                if isinstance(v, ast.IfExp):
                    return fresh(v.body) and fresh(v.orelse)
                if isinstance(v, ast.BoolOp):
                    return all(fresh(x) for x in v.values)
                return False
            okk = all(fresh(v) for v in vals if not isinstance(strip_cast(v), ast.Name)) and not any(
                isinstance(strip_cast(v), ast.Name) and strip_cast(v).id in params for v in vals) and any(not isinstance(strip_cast(v), ast.Name) for v in vals)
            run.check(okk, r, f.short, 'write:_context is a fresh dictionary', 'the context is (or may be) the very mapping passed by the caller: runs seeded with the same '
                      'mapping are not independent', node)
    run.floor(n, 1, r, 'bindings of PythonEvaluator._context')


def check(run):
    run.guard(rules_taint, run)
    run.guard(rules_own_context, run)
    run.guard(rules_order, run, 'C07', '.2')
    from .c16 import rules_caches
    run.guard(rules_caches, run, 'C07', '.4')
    # grouping must not depend on the adjacency (declaration order) of the items
    from .c01 import rules_groupby
    run.guard(rules_groupby, run, 'C07.5')
