"""C08 Contracts are checked at the documented points; failures raise the right error."""
import ast

from .. import q
from ..cfg import guards, guard_atoms
from ..prog import strip_cast, dotted
from .common import ApplyStep, labelled_sites, obj_is
from .c04 import swallow_check

EXPLANATION = (
    'Static rules over the contract machinery: dominance order of the contract evaluation calls around exit code, transition action and '
    'entry code in _apply_step (with the object each call is given), the end-of-step invariants loop of execute_once post-dominating '
    'the entry on every normal path, the kind -> error-class table and the unconditional raise on the first unsatisfied condition with '
    'obj/assertion carrying the checked object and that condition, lazy (declaration-order) evaluator results, sibling agreement of '
    'the evaluate_<kind> implementations on the attribute they read, the eager __old__ snapshot written at precondition time from a '
    'copy of the context and read back under the same key, and absence of handlers catching ContractError. Decides where and how '
    'contracts are checked on every path, not the values of conditions.')

KINDS = ('preconditions', 'postconditions', 'invariants')
ERR = {'preconditions': 'PreconditionError', 'postconditions': 'PostconditionError', 'invariants': 'InvariantError'}


def rules_points(run):
    A = ApplyStep(run, 'C08.1')
    fi, F = A.fi, A.F
    r = run.rule('C08.1', 'evaluation points: exit code < state postconditions (per exited state); transition preconditions < invariants < action < '
                          'postconditions < invariants; state preconditions < entry code (per entered state); each call is given the object of '
                          'its iteration and the step')
    cs = [s for s in A.sites if s.label.startswith('contract:')]
    run.floor(len(cs), 4, r, 'contract evaluation sites in _apply_step')
    by = {}
    for s in cs:
        by.setdefault((A.region(s), s.label.split(':')[1]), []).append(s)
    expect = {('exit', 'postconditions'): 1, ('transition', 'preconditions'): 1, ('transition', 'invariants'): 2,
              ('transition', 'postconditions'): 1, ('entry', 'preconditions'): 1}
    for k, n in expect.items():
        run.check(len(by.get(k, [])) == n, r, fi.short, '%d %s check(s) in the %s phase' % (n, k[1], k[0]),
                  'expected %d, found %d' % (n, len(by.get(k, []))), F)
    for k in by:
        run.check(k in expect, r, fi.short, 'contract check %s in phase %s is documented' % (k[1], k[0]), 'undocumented evaluation point', by[k][0].node)
    for s in cs:
        reg = A.region(s)
        cont = {'exit': A.exit_loop, 'transition': A.trans_if, 'entry': A.entry_loop}.get(reg)
        if cont is None:
            continue
        run.check(not guards(s.node, stop=cont), r, fi.short, '%s check is unconditional in the %s phase' % (s.label, reg), 'evaluation skipped under a condition', s.node)
        want = A.step + '.transition' if reg == 'transition' else (cont.target.id if isinstance(cont.target, ast.Name) else '?')
        run.check(dotted(strip_cast(s.extra['obj'])) == want, r, fi.short, '%s check concerns %s' % (s.label, want), 'checked object is %s' % q.unparse(s.extra['obj']), s.node)
        run.check(obj_is(s.extra['step'], A.step), r, fi.short, '%s check is given the step' % s.label, 'step argument missing', s.node)

    def one(reg, lab):
        xs = [s for s in A.sites if A.region(s) == reg and s.label == lab]
        return xs[0] if len(xs) == 1 else None
    exit_code, action, entry_code = one('exit', 'exit_code'), one('transition', 'action'), one('entry', 'entry_code')
    if not (exit_code and action and entry_code):
        # the code of a phase does not run in the phase where its contract is checked (e.g. preconditions in a loop of their own, before any entry code)
        have = {lab: [A.region(s) for s in A.sites if s.label == lab] for lab in ('exit_code', 'action', 'entry_code')}
        if all(have.values()):
            run.fail(r, fi.short, 'contract checks and the code they surround run in the same phase',
                     'exit code / action / entry code are executed in %s while the contract checks sit in the exit / transition / entry phases: a condition is no longer '
                     'evaluated just before / after the code of the same state' % have, F)
            return
    run.anchor(exit_code and action and entry_code, r, 'exit code / action / entry code sites')
    for s in by.get(('exit', 'postconditions'), []):
        run.check(q.ordered(F, exit_code.node, s.node), r, fi.short, 'state postconditions just after its exit code', 'postconditions evaluated before the exit code ran', s.node)
    for s in by.get(('entry', 'preconditions'), []):
        run.check(q.ordered(F, s.node, entry_code.node), r, fi.short, 'state preconditions just before its entry code', 'preconditions evaluated after the entry code ran', s.node)
    pre = by.get(('transition', 'preconditions'), [])
    post = by.get(('transition', 'postconditions'), [])
    inv = sorted(by.get(('transition', 'invariants'), []), key=lambda s: s.node.lineno)
    if len(pre) == 1 and len(post) == 1 and len(inv) == 2:
        seq = [pre[0].node, inv[0].node, action.node, post[0].node, inv[1].node]
        names = ['preconditions', 'invariants', 'action', 'postconditions', 'invariants']
        for (a, na), (b, nb) in zip(zip(seq, names), list(zip(seq, names))[1:]):
            run.check(q.ordered(F, a, b), r, fi.short, 'transition: %s before %s' % (na, nb), 'order of the transition contract checks broken', b)

    r = run.rule('C08.2', 'invariants of every active state are evaluated at the end of every macro step (also empty / None steps), before `step ended`')
    ei = run.fn('Interpreter.execute_once')
    E = ei.node
    es = labelled_sites(run, ei)
    inv = [s for s in es if s.label == 'contract:invariants']
    run.check(len(inv) == 1, r, ei.short, 'one end-of-step invariants site', 'found %d' % len(inv), E)
    ended = [s for s in es if s.label == 'emit:step ended']
    for s in inv:
        lp = q.enclosing(s.node, ast.For)
        run.anchor(lp is not None, r, 'loop around the end-of-step invariants')
        run.check(q.enclosing(lp, (ast.If, ast.For, ast.While)) is None and q.always_followed_by(E, E.body[0], lp), r, ei.short,
                  'invariants loop runs on every normal path', 'the invariants are skipped on some path (e.g. empty step)', lp)
        it_src = [q.unparse(x) for x in [lp.iter] + q.local_origin(E, lp.iter)]
        run.check(any(x in ('self.configuration', 'self._configuration') for x in it_src), r, ei.short, 'over the whole active configuration',
                  'loop ranges over %s' % it_src, lp)
        lv = lp.target.id if isinstance(lp.target, ast.Name) else '?'
        o = [q.unparse(x) for x in q.local_origin(E, s.extra['obj'])]
        run.check(any('state_for(%s)' % lv in x for x in o), r, ei.short, 'of the state of each active name', 'checked object is %s' % o, s.node)
        run.check(not guards(s.node, stop=lp), r, ei.short, 'unconditionally per state', 'conditional invariant evaluation', s.node)
        for a in [x for x in es if x.label in ('apply_step', 'stabilize')]:
            run.check(q.never_after(E, a.node, lp), r, ei.short, 'after the steps were executed', 'invariants evaluated before %s' % a.label, lp)
        for e in ended:
            run.check(q.ordered(E, lp, e.node), r, ei.short, "before 'step ended'", "invariants evaluated after 'step ended'", e.node)


def rules_raise(run):
    r = run.rule('C08.3', 'kind -> error class of the same stem; the first unsatisfied condition raises unconditionally with obj= the checked object and '
                          'assertion= that condition; evaluators return lazy sequences so later conditions are not evaluated')
    fi = run.fn('Interpreter._evaluate_contract_conditions')
    F = fi.node
    ps = q.param_names(F)
    objp, kindp, stepp = ps[1], ps[2], ps[3]
    table = None
    for n in q.walk(F):
        if isinstance(n, ast.Subscript) and q.unparse(n.slice) == kindp:
            for v, st_ in q.alternatives(F, n.value):
                if isinstance(v, ast.Dict):
                    table = v
                    table_sub = n
                elif isinstance(v, ast.Name):
                    # a module-level table
                    mod_ = fi.module.tree
                    defs_ = [st2.value for st2 in mod_.body if isinstance(st2, ast.Assign) and len(st2.targets) == 1 and isinstance(st2.targets[0], ast.Name) and st2.targets[0].id == v.id]
                    if len(defs_) == 1 and isinstance(defs_[0], ast.Dict):
                        table = defs_[0]
                        table_sub = n
    run.anchor(table is not None, r, 'kind -> exception class table indexed by cond_type')
    got = {q.const_str(k): dotted(v) for k, v in zip(table.keys, table.values)}
    for k in KINDS:
        run.check(got.get(k) == ERR[k], r, fi.short, '%s -> %s' % (k, ERR[k]), 'table maps %s to %s' % (k, got.get(k)), table)
    run.check(set(got) == set(KINDS), r, fi.short, 'table has exactly the three kinds', 'keys are %s' % sorted(got), table)
    for k in KINDS:
        run.check(run.prog.has_cls(ERR[k]) and run.prog.is_subclass(ERR[k], 'ContractError'), r, ERR[k], ERR[k] + ' is a ContractError', 'hierarchy changed', None)
    # klass variable
    kv = None
    for st, v in [(st, v) for n in q.walk(F) if isinstance(n, ast.Assign) for st, v in [(n, n.value)]]:
        if any(x is table_sub for x in ast.walk(v)) and isinstance(st.targets[0], ast.Name):
            kv = st.targets[0].id
    def is_selected_class(funcexpr):
        """The raised callable is the table entry selected by cond_type (directly, or through a local)."""
        for v, st_ in q.alternatives(F, funcexpr):
            if v is table_sub or any(x is table_sub for x in ast.walk(v)) and isinstance(strip_cast(v), ast.Subscript):
                return True
        return kv is not None and dotted(strip_cast(funcexpr)) == kv
    # dynamic dispatch on the same kind
    disp = [c for c in q.calls(F) if isinstance(c.func, ast.Call) and isinstance(c.func.func, ast.Name) and c.func.func.id == 'getattr']
    run.check(len(disp) == 1, r, fi.short, 'single evaluator dispatch', 'found %d' % len(disp), F)
    uv = None
    for c in disp:
        a = c.func.args[1]
        good = isinstance(a, ast.BinOp) and q.const_str(a.left) == 'evaluate_' and q.unparse(a.right) == kindp and dotted(c.func.args[0]) == 'self._evaluator'
        run.check(good, r, fi.short, "evaluator method is 'evaluate_' + cond_type", 'dispatch uses %s' % q.unparse(a), c)
        run.check(c.args and q.unparse(c.args[0]) == objp, r, fi.short, 'evaluator is given the checked object', 'argument is %s' % (q.unparse(c.args[0]) if c.args else None), c)
        ev = q.unparse(c.args[1]) if len(c.args) > 1 else ''
        run.check(ev in ("getattr(%s, 'event', None)" % stepp, stepp + '.event'), r, fi.short, 'evaluator is given the step event', 'event argument is %s' % ev, c)
        st = q.enclosing_stmt(c)
        uv = st.targets[0].id if isinstance(st, ast.Assign) and isinstance(st.targets[0], ast.Name) else None
    loops = [n for n in q.walk(F, False) if isinstance(n, ast.For) and ((isinstance(strip_cast(n.iter), ast.Name) and strip_cast(n.iter).id == uv)
                                                                      or any(strip_cast(n.iter) is c_ for c_ in disp))]
    run.check(len(loops) == 1, r, fi.short, 'loop over the unsatisfied conditions', 'missing', F)
    for lp in loops:
        first = lp.body[0]
        good = isinstance(first, ast.Raise) and isinstance(first.exc, ast.Call) and is_selected_class(first.exc.func)
        run.check(good, r, fi.short, 'first unsatisfied condition raises unconditionally', 'the loop body must start with `raise <class>(..)`', lp)
        if good:
            kw = q.kwargs_of(first.exc)
            lv = lp.target.id if isinstance(lp.target, ast.Name) else '?'
            run.check(obj_is(kw.get('obj'), objp), r, fi.short, 'error carries obj = the checked object', 'obj=%s' % (q.unparse(kw['obj']) if 'obj' in kw else None), first)
            run.check(obj_is(kw.get('assertion'), lv), r, fi.short, 'error carries assertion = the failing condition', 'assertion mismatch', first)
            run.check(obj_is(kw.get('step'), stepp), r, fi.short, 'error carries the step', 'step mismatch', first)
            run.check('configuration' in kw and 'context' in kw, r, fi.short, 'error carries configuration and context', 'missing keyword', first)
    # laziness of evaluator results + attribute agreement (C08.4)
    r4 = run.rule('C08.4', 'every evaluate_<kind> implementation reads attribute <kind> of the object, evaluates each condition through _evaluate_code '
                           'and returns a lazy sequence of the conditions that evaluate false, in declaration order')
    n = 0
    for k in KINDS:
        for m in run.prog.impls('Evaluator', 'evaluate_' + k):
            n += 1
            M = m.node
            op = q.param_names(M)[1]
            rets = [x for x in q.walk(M, False) if isinstance(x, ast.Return)]
            run.check(len(rets) == 1, r4, m.short, 'single return', 'found %d' % len(rets), M)
            for rt in rets:
                v = strip_cast(rt.value)
                lazy = isinstance(v, ast.Call) and isinstance(v.func, ast.Name) and v.func.id == 'filter' or isinstance(v, ast.GeneratorExp)
                run.check(lazy, r, m.short, 'lazy result (filter / generator)', 'eager evaluation: conditions after the failing one would be evaluated too', rt)
                seq = v.args[1] if isinstance(v, ast.Call) and len(v.args) == 2 else (v.generators[0].iter if isinstance(v, ast.GeneratorExp) else None)
                s = q.unparse(seq) if seq is not None else ''
                run.check(s in ("getattr(%s, '%s', [])" % (op, k), '%s.%s' % (op, k)), r4, m.short, 'reads %s.%s' % (op, k), 'reads %s' % s, rt)
                pred = v.args[0] if isinstance(v, ast.Call) and v.args else None
                pf = q.predicate_function(run, M, pred) if pred is not None else None
                if pf is not None:
                    pparam, body = pf
                    good = isinstance(body, ast.UnaryOp) and isinstance(body.op, ast.Not) and isinstance(body.operand, ast.Call) \
                        and q.unparse(body.operand.func) == 'self._evaluate_code' and q.unparse(body.operand.args[0]) == pparam
                    run.check(good, r4, m.short, 'keeps exactly the conditions evaluating false', 'predicate is %s' % q.unparse(body)[:60], rt)
                elif isinstance(v, ast.GeneratorExp):
                    good = len(v.generators[0].ifs) == 1 and 'not self._evaluate_code(' in q.unparse(v.generators[0].ifs[0])
                    run.check(good, r4, m.short, 'keeps exactly the conditions evaluating false', 'generator filter differs', rt)
                else:
                    run.fail(r4, m.short, 'predicate of the filter', 'unrecognised predicate', rt)
    run.floor(n, 6, r4, 'evaluate_<kind> implementations')
    # eval mode
    ec = run.fn('PythonEvaluator._evaluate_code')
    comp = [c for c in q.calls(ec.node) if isinstance(c.func, ast.Name) and c.func.id == 'compile']
    run.check(len(comp) == 1 and len(comp[0].args) == 3 and q.const_str(comp[0].args[2]) == 'eval', r4, ec.short, "conditions compiled in 'eval' mode",
              'conditions must be expressions', ec.node)
    evs = [c for c in q.calls(ec.node) if isinstance(c.func, ast.Name) and c.func.id in ('eval', 'exec')]
    run.check(len(evs) == 1 and evs[0].func.id == 'eval', r4, ec.short, 'evaluated with eval()', 'found %s' % [e.func.id for e in evs], ec.node)


def rules_old(run):
    r = run.rule('C08.5', '__old__: snapshot written eagerly in evaluate_preconditions from a copy of the context when the object has invariants or '
                          'postconditions, read by evaluate_invariants / evaluate_postconditions under the same key expression')
    pre = run.fn('PythonEvaluator.evaluate_preconditions')
    P = pre.node
    op = q.param_names(P)[1]
    stores = [n for n in q.walk(P, nested=True) if isinstance(n, ast.Assign) and isinstance(n.targets[0], ast.Subscript)
              and dotted(strip_cast(n.targets[0].value)) == 'self._memory']
    run.check(len(stores) == 1, r, pre.short, 'single snapshot store', 'found %d' % len(stores), P)
    keyx = None
    for st in stores:
        keyx = q.unparse(st.targets[0].slice)
        run.check(q.enclosing(st, (ast.Lambda,)) is None and run.prog.func_of(st) is pre, r, pre.short, 'snapshot taken eagerly (not inside the lazy filter)',
                  'snapshot would be taken only when a precondition is evaluated', st)
        v = strip_cast(st.value)
        run.check(isinstance(v, ast.Call) and dotted(v.func) == 'FrozenContext' and v.args and q.unparse(v.args[0]) == 'self._context', r, pre.short,
                  'snapshot = FrozenContext(self._context)', 'snapshot value is %s' % q.unparse(v)[:60], st)

        def classify(o_, l, r_, e):
            if o_ == 'truthy' and l in ("getattr(%s, 'invariants', [])" % op, op + '.invariants'):
                return 'INV'
            if o_ == 'truthy' and l in ("getattr(%s, 'postconditions', [])" % op, op + '.postconditions'):
                return 'POST'
            return None
        ba = q.BoolAbs(classify)
        vs, sat = ba.table(guards(st))
        bad = q.table_equals(vs, sat, lambda v_: v_.get('INV', False) or v_.get('POST', False))
        alw = not guards(st)
        run.check(alw or (not bad and set(vs) == {'INV', 'POST'}), r, pre.short, 'snapshot whenever the object has invariants or postconditions',
                  'snapshot condition differs (%s)' % vs, st)
        rets = [x for x in q.walk(P, False) if isinstance(x, ast.Return)]
        for rt in rets:
            run.check(q.strictly_before(P, st, rt) or q.never_after(P, st, rt), r, pre.short, 'snapshot precedes the evaluation of preconditions', 'order', rt)
    # the key under which a snapshot is stored must tell owners apart: a transition must not share the key of a state
    keyfn = None
    if keyx is not None:
        mk = ast.parse(keyx, mode='eval').body
        if isinstance(mk, ast.Call) and isinstance(mk.func, ast.Attribute) and isinstance(mk.func.value, ast.Name) and mk.func.value.id == 'self':
            keyfn = run.prog.cls('PythonEvaluator').methods.get(mk.func.attr)
    if keyfn is not None:
        kp = [a.arg for a in keyfn.node.args.args if a.arg != 'self'][0]
        rets_k = [n for n in q.walk(keyfn.node, False) if isinstance(n, ast.Return)]
        kinds = []
        for rt in rets_k:
            for v, at in q.cases(keyfn.node, rt.value):
                at = at + guard_atoms(rt)
                is_tr = any(a[0] == 'truthy' and 'isinstance(%s, Transition)' % kp in a[1] for a in at)
                txt = q.unparse(v)
                kind = 'object' if txt == kp else 'tagged' if isinstance(v, ast.Tuple) and v.elts and isinstance(v.elts[0], ast.Constant) else 'name-like'
                kinds.append((is_tr, kind, txt))
        tr_kinds = {k for t_, k, x in kinds if t_}
        st_kinds = {k for t_, k, x in kinds if not t_}
        collide = bool(tr_kinds & st_kinds & {'name-like'}) or not tr_kinds or not st_kinds
        run.check(not collide, r, keyfn.short, 'snapshot key of a transition differs in kind from the key of a state: %s' % sorted(kinds),
                  'a transition and a state can share a snapshot key (%s): processing an internal transition overwrites the __old__ of its source state' % sorted(kinds), keyfn.node)
    elif keyx is not None:
        run.check(keyx.replace(' ', '') not in ('%s.name' % op, '%s.source' % op), r, pre.short, 'snapshot key distinguishes owners', 'key %s can collide' % keyx, P)
    fc = run.prog.cls('FrozenContext')
    init = fc.methods.get('__init__')
    cp = init is not None and any(isinstance(c, ast.Call) and dotted(c.func) in ('copy.copy', 'copy.deepcopy', 'copy', 'deepcopy') for c in q.calls(init.node)) \
        and any(isinstance(n, ast.DictComp) for n in q.walk(init.node))
    run.check(cp, r, 'FrozenContext.__init__', 'values are copied one by one', 'the snapshot shares the live context', init.node if init else fc.node)
    for name in ('evaluate_invariants', 'evaluate_postconditions'):
        m = run.fn('PythonEvaluator.' + name)
        d = None
        for n in q.walk(m.node):
            if isinstance(n, ast.Dict):
                for k, v in zip(n.keys, n.values):
                    if k is not None and q.const_str(k) == '__old__':
                        d = v
        run.check(d is not None, r, m.short, "exposes '__old__'", "missing '__old__'", m.node)
        if d is not None and keyx is not None:
            d = strip_cast(d)
            if isinstance(d, ast.Name):
                # an explanatory local defined once before the dict
                o_ = q.local_origin(m.node, d)
                if len(o_) == 1:
                    d = strip_cast(o_[0])
            good = isinstance(d, ast.Call) and q.unparse(d.func) == 'self._memory.get' and d.args and \
                q.unparse(d.args[0]).replace(q.param_names(m.node)[1], op) == keyx
            run.check(good, r, m.short, '__old__ read under the key it was stored under (%s)' % keyx, 'reads %s' % q.unparse(d)[:60], m.node)
    d = [k for n in q.walk(P) if isinstance(n, ast.Dict) for k in n.keys if k is not None and q.const_str(k) == '__old__']
    run.check(not d, r, pre.short, "preconditions do not see '__old__'", "preconditions expose '__old__'", P)


def rules_predicates(run):
    r = run.rule('C08.7', 'the predicates conditions are written with mean what the documentation says: active(n) = n is in the configuration, received(n) = n is the '
                          'name of the event, sent(n) = n names an event sent during the current step (_sent_events: cleared when a step starts, one entry per raised event)')
    prog = run.prog
    ci = prog.cls('PythonEvaluator')
    count = {'active': 0, 'received': 0, 'sent': 0}
    for m in ci.methods.values():
        for d in [x for x in q.walk(m.node) if isinstance(x, ast.Dict)]:
            for k, v in zip(d.keys, d.values):
                nm = q.const_str(k) if k is not None else None
                if nm not in count:
                    continue
                count[nm] += 1
                lam = strip_cast(v)
                good = isinstance(lam, ast.Lambda) and len(lam.args.args) == 1
                if good:
                    p_ = lam.args.args[0].arg
                    c = q.canon_atom(lam.body)
                    if nm == 'active':
                        good = c is not None and c[0] == 'in' and c[3] and c[1] == p_ and c[2] in ('self._interpreter.configuration', 'self._interpreter._configuration')
                    elif nm == 'received':
                        good = c is not None and c[0] == '==' and c[3] and p_ in (c[1], c[2]) and ({c[1], c[2]} - {p_}) <= {"getattr(event, 'name', None)", 'event.name'}
                    elif isinstance(strip_cast(lam.body), ast.Call) and isinstance(strip_cast(lam.body).func, ast.Name) and strip_cast(lam.body).func.id == 'any':
                        # any(e.name == name for e in self._interpreter._sent_events)
                        g_ = strip_cast(lam.body).args[0] if strip_cast(lam.body).args else None
                        good = isinstance(g_, (ast.GeneratorExp, ast.ListComp)) and len(g_.generators) == 1 and not g_.generators[0].ifs and \
                            q.unparse(g_.generators[0].iter) == 'self._interpreter._sent_events' and isinstance(g_.generators[0].target, ast.Name)
                        if good:
                            ce = q.canon_atom(g_.elt)
                            good = ce is not None and ce[0] == '==' and ce[3] and {ce[1], ce[2]} == {p_, g_.generators[0].target.id + '.name'}
                    else:
                        b = strip_cast(lam.body)
                        good = c is not None and c[0] == 'in' and c[3] and c[1] == p_ and isinstance(b, ast.Compare)
                        if good:
                            coll = strip_cast(b.comparators[0])
                            good = isinstance(coll, (ast.ListComp, ast.GeneratorExp, ast.SetComp)) and len(coll.generators) == 1 and not coll.generators[0].ifs and \
                                q.unparse(coll.generators[0].iter) == 'self._interpreter._sent_events' and isinstance(coll.generators[0].target, ast.Name) and \
                                q.unparse(coll.elt) == coll.generators[0].target.id + '.name'
                run.check(good, r, m.short, '%s() has its documented meaning' % nm, '%s is defined as %s' % (nm, q.unparse(v)[:70]), v)
    run.floor(count['active'], 2, r, "exposures of 'active'")
    run.floor(count['received'], 3, r, "exposures of 'received'")
    run.floor(count['sent'], 3, r, "exposures of 'sent'")
    # _sent_events: who writes it, and how
    writers = {}
    for f in prog.functions():
        if f.outer is not None:
            continue
        for c, fld, kind, node in prog.direct_writes(f):
            if c == 'Interpreter' and fld == '_sent_events':
                writers.setdefault(f.short, []).append((kind, node))
    run.check(sorted(writers) == ['Interpreter.__init__', 'Interpreter._apply_step', 'Interpreter.execute_once'], r, 'Interpreter', '_sent_events written by __init__, execute_once and _apply_step only',
              'writers: %s' % sorted(writers), None)
    A = ApplyStep(run, r)
    apps = [n for k, n in writers.get('Interpreter._apply_step', []) if k == 'mut:append']
    run.check(len(apps) == 1 and q.in_node(apps[0], A.send_loop) and not guards(apps[0], stop=A.send_loop) and isinstance(A.send_loop.target, ast.Name)
              and apps[0].args and q.unparse(apps[0].args[0]) == A.send_loop.target.id, r, A.fi.short, 'every raised event is recorded in _sent_events', 'the record of sent events is incomplete', A.F)
    eo = run.fn('Interpreter.execute_once')
    clr = [n for k, n in writers.get('Interpreter.execute_once', []) if k == 'mut:clear']
    comp = q.calls_to(run, eo.node, {'Interpreter._compute_steps'})
    run.check(len(clr) == 1 and not guards(clr[0]) and all(q.strictly_before(eo.node, clr[0], c_) for c_ in comp) and bool(comp), r, eo.short, '_sent_events is emptied when a step starts',
              'events of an earlier step stay visible to sent()', eo.node)


def rules_base_evaluator(run):
    r = run.rule('C08.8', 'the default implementations in Evaluator (used by every evaluator that only provides _evaluate_code / _execute_code): conditions of a transition see '
                          'the event, conditions of a state do not; every condition of the kind is evaluated')
    prog = run.prog
    ci = prog.cls('Evaluator')
    for kind in ('preconditions', 'invariants', 'postconditions'):
        m = ci.methods.get('evaluate_' + kind)
        run.anchor(m is not None, r, 'Evaluator.evaluate_' + kind)
        M = m.node
        op, evp = q.param_names(M)[1:3]
        ecalls = [c for c in q.calls(M) if isinstance(c.func, ast.Attribute) and c.func.attr == '_evaluate_code']
        run.check(len(ecalls) == 1, r, m.short, 'one _evaluate_code site', 'found %d' % len(ecalls), M)
        for c in ecalls:
            ac = q.arg(c, None, 'additional_context')
            cs = q.cases(M, ac) if ac is not None else []
            good = len(cs) == 2
            for v, at in cs:
                v = strip_cast(v)
                tr = any(a[0] == 'truthy' and a[1].replace(' ', '') == 'isinstance(%s,Transition)' % op for a in at)
                ntr = any(a[0] == 'falsy' and a[1].replace(' ', '') == 'isinstance(%s,Transition)' % op for a in at)
                if tr:
                    good = good and isinstance(v, ast.Dict) and [q.const_str(k) for k in v.keys] == ['event'] and q.unparse(v.values[0]) == evp
                elif ntr:
                    good = good and (isinstance(v, ast.Constant) and v.value is None or isinstance(v, ast.Dict) and not v.keys)
                else:
                    good = False
            run.check(good, r, m.short, "'event' is exposed to the %s of transitions only" % kind, 'exposure is %s' % [(q.unparse(v)[:30], at) for v, at in cs], c)


def rules_always_asked(run):
    """The evaluator is asked for the conditions of every kind whenever contracts are checked - also for an element that declares none of that kind:
    evaluate_preconditions is where the context is frozen for __old__, so skipping the call for an element without preconditions leaves its postconditions and
    invariants without __old__."""
    r = run.rule('C08.9', 'with contract checking on, _evaluate_contract_conditions reaches the evaluator on every path: nothing but the ignore_contract flag decides '
                          'whether evaluate_<kind> is called (the call for preconditions also takes the __old__ snapshot)')
    fi = run.fn('Interpreter._evaluate_contract_conditions')
    F = fi.node
    calls = [c for c in q.calls(F) if 'evaluate_' in q.unparse(c.func) or (isinstance(c.func, ast.Call) and 'evaluate_' in q.unparse(c.func))]
    ev = []
    for c in q.calls(F):
        txt = q.unparse(c)
        if 'self._evaluator' in txt and 'evaluate_' in txt and not any(q.in_node(c, o) and o is not c for o in q.calls(F) if 'self._evaluator' in q.unparse(o) and 'evaluate_' in q.unparse(o)
                                                                           and q.in_node(c, o.func)):
            ev.append(c)
    ev = [c for c in ev if not any(c is not o and q.in_node(c, o) for o in ev)] or ev
    run.floor(len(ev), 1, r, 'evaluator calls in the gate function')

    kindp_ = q.param_names(F)[2]

    def classify_g(op, l, r_, e):
        if op == 'truthy' and l == 'self._ignore_contract':
            return 'IGNORE'
        if op == '==' and {l, r_} == {kindp_, "'preconditions'"}:
            return 'PRE'
        return None
    for c in ev:
        st = q.enclosing_stmt(c)
        dnf = q.reach_dnf(st)
        ba = q.BoolAbs(classify_g)
        for conj in dnf:
            for e_, pol in conj:
                ba.ev(e_, {})
        vs = list(ba.vars)
        skipped = []
        for mask in range(1 << len(vs)):
            val = {v: bool(mask >> i_ & 1) for i_, v in enumerate(vs)}
            if not val.get('IGNORE') and not q.dnf_holds(ba, dnf, val):
                if 'PRE' in vs and not val.get('PRE'):
                    continue      # postconditions / invariants of an element that has none: nothing to evaluate, and no snapshot is taken for those kinds
                skipped.append(sorted(v for v in vs if v not in ('IGNORE', 'PRE')))
        run.check(not skipped, r, fi.short, 'the evaluator is asked whenever contracts are not ignored', 'the call is skipped depending on %s: an element without conditions of '
                  'one kind gets no __old__ snapshot for the others' % (skipped[0] if skipped else ''), c)


def check(run):
    run.guard(rules_always_asked, run)
    run.guard(rules_predicates, run)
    run.guard(rules_base_evaluator, run)
    run.guard(rules_points, run)
    run.guard(rules_raise, run)
    run.guard(rules_old, run)
    r = run.rule('C08.6', 'no try statement around a call that can reach the contract check catches ContractError (or a supertype)')
    run.guard(swallow_check, run, r, ['Interpreter._evaluate_contract_conditions'], 'PreconditionError', 'contract check')
