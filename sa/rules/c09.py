"""C09 Contract checking is transparent."""
import ast

from .. import q
from ..cfg import guards, guard_atoms, build_cfg
from ..prog import strip_cast, dotted

EXPLANATION = (
    'Static rules: every call of an evaluate_{preconditions,postconditions,invariants} implementation made by the interpreter sits in '
    '_evaluate_contract_conditions, whose first statement returns when _ignore_contract is set (it dominates every other statement); '
    '_ignore_contract is written only by the constructor from its parameter. Effect analysis (transitive, call-site specialised): the '
    'write effects of the contract subtree, intersected with the read effects of everything else reachable from the public entry '
    'points, contain nothing but the compiled-code cache, which is checked to be a pure cache (value is a function of the key); the '
    'contract subtree reaches no event raising, queue mutation or code execution; conditions are compiled in eval mode. Decides that '
    'checking contracts cannot influence a run in which no condition fails; purity of user conditions is assumed (A2).')

CONTRACT_METHODS = ('evaluate_preconditions', 'evaluate_postconditions', 'evaluate_invariants')
PUBLIC_ROOTS = ('Interpreter.__init__', 'Interpreter.execute_once', 'Interpreter.execute', 'Interpreter.queue', 'Interpreter.configuration',
                'Interpreter.context', 'Interpreter.final', 'Interpreter.time', 'Interpreter.bind', 'Interpreter.bind_property_statechart',
                'Interpreter.attach', 'Interpreter.detach', 'Interpreter.statechart')


def check(run):
    prog = run.prog
    r = run.rule('C09.1', 'single gate: all contract evaluator calls are inside _evaluate_contract_conditions, which returns first thing when '
                          '_ignore_contract is set; _ignore_contract is written only in __init__ from the constructor parameter')
    gate = run.fn('Interpreter._evaluate_contract_conditions')
    G = gate.node
    impls = []
    for k in CONTRACT_METHODS:
        impls += prog.impls('Evaluator', k)
    run.floor(len(impls), 6, r, 'contract evaluator implementations')
    n = 0
    for fi in prog.functions():
        if fi.outer is not None or fi.module.name.startswith('sismic.code'):
            continue
        for c in q.calls(fi.node):
            tg, ext, ok = prog.resolve_call(c, prog.func_of(c) or fi)
            hit = [t for t in tg if t in impls]
            if hit:
                n += 1
                run.check(fi is gate, r, fi.short, 'contract evaluator call ' + q.unparse(c.func)[:50],
                          'contract conditions are evaluated outside the gate (would run with ignore_contract=True)', c)
    run.floor(n, 1, r, 'contract evaluator call sites')
    # every call, raise and loop of the gate function runs only when _ignore_contract is not set (early return or enclosing test alike):
    # on each path to it, the test of the flag has been passed on its "not set" side
    def classify_g(op, l, r_, e):
        if op == 'truthy' and l == 'self._ignore_contract':
            return 'IGNORE'
        return None
    n_eff = 0
    for x in q.walk(G, False):
        if not isinstance(x, (ast.Call, ast.Raise, ast.For, ast.While)):
            continue
        st = x if isinstance(x, ast.stmt) else q.enclosing_stmt(x)
        if isinstance(x, ast.Call) and any(isinstance(p_, ast.If) and q.in_node(x, p_.test) and 'self._ignore_contract' in q.unparse(p_.test) for p_ in [st]):
            continue
        n_eff += 1
        dnf = q.reach_dnf(st)
        ba = q.BoolAbs(classify_g)
        for conj in dnf:
            for e_, pol in conj:
                ba.ev(e_, {})
        vs = list(ba.vars)
        okg = 'IGNORE' in vs
        for mask in range(1 << len(vs)):
            val = {v: bool(mask >> i_ & 1) for i_, v in enumerate(vs)}
            if val.get('IGNORE') and q.dnf_holds(ba, dnf, val):
                okg = False
        run.check(okg, r, gate.short, 'runs only when contracts are not ignored: ' + (q.unparse(x.func)[:40] if isinstance(x, ast.Call) else type(x).__name__),
                  'reachable with ignore_contract=True', x)
    run.floor(n_eff, 2, r, 'calls / raises / loops in the gate function')
    from ..inline import known_functions
    known = known_functions() or set()

    def new_api(fi_):
        """a function the reference tree does not have and that nothing in the package calls: an addition to the API, outside what today's callers can reach"""
        qual_ = '%s:%s' % (fi_.module.name, fi_.short if fi_.cls is not None else fi_.name)
        return bool(known) and qual_ not in known and not prog.callers_of(fi_) and not fi_.name.startswith('__')
    nwr = 0
    for fi in prog.functions():
        if fi.outer is not None:
            continue
        if new_api(fi):
            continue
        for c, fld, kind, node in prog.direct_writes(fi):
            if fld == '_ignore_contract':
                nwr += 1
                good = fi.short == 'Interpreter.__init__' and kind == 'assign' and isinstance(node.value, ast.Name) and node.value.id == 'ignore_contract'
                run.check(good, r, fi.short, 'write:_ignore_contract ' + kind, '_ignore_contract must only be set by the constructor from its parameter', node)
    run.floor(nwr, 1, r, 'writers of _ignore_contract')
    # who-may-read: the flag influences nothing but the gate
    nrd = 0
    for fi in prog.functions():
        if fi.outer is not None or new_api(fi):
            continue
        for n_ in q.walk(fi.node):
            if isinstance(n_, ast.Attribute) and n_.attr == '_ignore_contract' and isinstance(n_.ctx, ast.Load):
                nrd += 1
                in_test = any(isinstance(p_, ast.If) and q.in_node(n_, p_.test) for p_ in q.walk(fi.node, False))
                run.check(fi is gate and in_test, r, fi.short, 'read of _ignore_contract in the gate test only',
                          'behaviour other than contract evaluation depends on ignore_contract: runs with and without contract checking can differ', n_)
    run.check(nrd >= 1, r, gate.short, 'the gate reads _ignore_contract', '_ignore_contract is never read: ignore_contract=True has no effect through the gate', G)
    init = run.fn('Interpreter.__init__')
    run.check(q.param_defaults(init.node).get('ignore_contract', None) is False, r, init.short, 'contracts are checked by default', 'default changed', init.node)

    r = run.rule('C09.2', 'non-interference: writes of the contract subtree ∩ reads of the rest of the public API ⊆ {compiled-code cache}, and that '
                          'cache is pure (get(code) then setdefault(code, compile(code)))')
    roots = list(impls)
    W = prog.transitive_writes(roots)
    contract_reach = {f.qual for f, _, _ in prog.reachable_spec(roots).values()}
    pub = [prog.fn(s) for s in PUBLIC_ROOTS if prog.has_fn(s)]
    run.floor(len(pub), 8, r, 'public entry points')
    stop = tuple(t.short for t in impls) + (gate.short,)
    R = prog.transitive_reads(pub, stop=stop)
    # functions shared by both subtrees (e.g. _evaluate_code) read on behalf of guards too: include reads of all functions reachable outside
    from .c16 import derived_caches
    memo = set(derived_caches(prog))
    from .c02 import interpreter_memo_findings
    imemo = set(interpreter_memo_findings(prog)[0])
    for (c, fld), sites in sorted(W.items()):
        if c == 'Statechart' and fld in memo:
            continue      # memoised query result, governed by the invalidation rule C16.7
        if c == 'Interpreter' and fld in imemo:
            continue      # memo on the interpreter, dropped at every write of what it is computed from (C02.10, also run below)
        real = [(f, kind, node) for f, kind, node in sites
                if not (f.name == '__init__' and f.cls is not None and (c == f.cls.name or prog.is_subclass(f.cls.name, c))) and not c.startswith('?')]
        if not real:
            continue
        readers = [f.short for f, node in R.get((c, fld), [])]
        if (c, fld) == ('PythonEvaluator', '_evaluable_code'):
            ec = run.fn('PythonEvaluator._evaluate_code')
            gets = [x for x in q.calls(ec.node) if q.unparse(x.func) == 'self._evaluable_code.get']
            sets = [x for x in q.calls(ec.node) if q.unparse(x.func) == 'self._evaluable_code.setdefault']
            pure = len(gets) == 1 and len(sets) == 1 and q.unparse(gets[0].args[0]) == q.unparse(sets[0].args[0]) and \
                isinstance(sets[0].args[1], ast.Call) and dotted(sets[0].args[1].func) == 'compile' and \
                q.unparse(sets[0].args[1].args[0]) == q.unparse(sets[0].args[0]) and \
                all(f.short == 'PythonEvaluator._evaluate_code' for f, _, _ in real)
            run.check(pure, r, ec.short, 'compiled-code cache is a pure cache', 'cache value is not a function of its key only', ec.node)
            continue
        run.check(not readers, r, real[0][0].short, 'contract-side write %s.%s not read elsewhere' % (c, fld),
                  'written while checking contracts and read by %s: checking contracts can change the run' % sorted(set(readers))[:4], real[0][2])
    run.floor(len(W), 1, r, 'written fields of the contract subtree')

    # a memo on the interpreter that a contract condition can fill (active(..) reads the configuration) must not outlive what it was computed from
    from .c02 import rules_memo
    run.guard(rules_memo, run, 'C09.4')

    r = run.rule('C09.3', 'the contract subtree reaches no event raising, queue mutation or code execution')
    names = prog.reach_names(roots)
    forbidden = {'Interpreter._raise_event', 'Interpreter._queue_event', 'Interpreter._apply_step', 'Interpreter.execute_once', 'Interpreter.queue',
                 'Evaluator.execute_action', 'Evaluator.execute_on_entry', 'Evaluator.execute_on_exit', 'PythonEvaluator._execute_code',
                 'Evaluator._execute_code', 'DummyEvaluator._execute_code'}
    hit = sorted(set(names) & forbidden)
    run.check(not hit, r, 'contract subtree', 'reaches only evaluation code (%d functions)' % len(names), 'contract evaluation can reach %s' % hit, G)
    ec = run.fn('PythonEvaluator._evaluate_code')
    comp = [c for c in q.calls(ec.node) if isinstance(c.func, ast.Name) and c.func.id == 'compile']
    run.check(len(comp) == 1 and len(comp[0].args) == 3 and q.const_str(comp[0].args[2]) == 'eval', r, ec.short, "conditions compiled in 'eval' mode",
              'statements (assignments) could be executed while checking contracts', ec.node)
    evs = [c for c in q.calls(ec.node) if isinstance(c.func, ast.Name) and c.func.id in ('eval', 'exec')]
    run.check(len(evs) == 1 and evs[0].func.id == 'eval', r, ec.short, 'evaluated with eval()', 'found %s' % [e.func.id for e in evs], ec.node)
    # the dicts exposed to contract code contain no state-changing helper
    for m in impls:
        for n_ in q.walk(m.node):
            if isinstance(n_, ast.Dict):
                keys = [q.const_str(k) for k in n_.keys if k is not None]
                bad = [k for k in keys if k in ('send', 'notify', 'setdefault')]
                run.check(not bad, r, m.short, 'context exposed to conditions: %s' % keys, 'state-changing helpers %s exposed to contract code' % bad, n_)
