"""C03 Steps run to completion in documented order and the trace tells the truth."""
import ast

from .. import q
from ..cfg import atoms as cfg_atoms, guards, guard_atoms, build_cfg
from ..prog import strip_cast, dotted
from .common import ApplyStep, labelled_sites, obj_is

EXPLANATION = (
    'Static rules over Interpreter._apply_step / execute_once / _stabilize / _create_steps / _sort_transitions and the '
    'MacroStep aggregation properties: dominance order of the four phases of a micro step and of the actions inside one '
    'exit / entry iteration, order-preserving iteration of the step lists, value flow of every list of sent events into '
    'both the raise loop and the returned MicroStep, of every applied micro step into the returned MacroStep, agreement '
    'between the returned MicroStep and the applied one, depth direction and tie-break of the exit / entry / history / '
    'orthogonal / transition orders (order lattice), and name/attribute agreement of the MacroStep properties. Decides '
    'the structural reasons why trace and execution coincide, not the executed fragments themselves.')


def list_sink(call):
    """The local list a call's value is accumulated into: L.append(call) / L.extend(call) / L += call."""
    par = getattr(call, '_parent', None)
    while isinstance(par, ast.Call) and isinstance(par.func, ast.Name) and par.func.id in ('cast', 'list') and call in par.args:
        call, par = par, par._parent
    if isinstance(par, ast.Call) and isinstance(par.func, ast.Attribute) and par.func.attr in ('append', 'extend') \
            and isinstance(par.func.value, ast.Name) and call in par.args:
        if not guards(par, stop=q.enclosing_stmt(par)):
            return par.func.value.id, par.func.attr
    if isinstance(par, ast.AugAssign) and isinstance(par.op, ast.Add) and isinstance(par.target, ast.Name) and par.value is call:
        return par.target.id, 'extend'
    if isinstance(par, ast.Assign) and len(par.targets) == 1 and isinstance(par.targets[0], ast.Name) and par.value is call:
        # through a temporary: tmp = list(call) ... L.extend(tmp), the extend always following the definition
        tmp = par.targets[0].id
        F = q.enclosing(par, (ast.FunctionDef,))
        if F is not None and len(q.assigned_value(F, tmp)) == 1:
            uses = [n for n in q.walk(F, False) if isinstance(n, ast.Name) and n.id == tmp and isinstance(n.ctx, ast.Load)]
            sinks = [u for u in uses if isinstance(u._parent, ast.Call) and isinstance(u._parent.func, ast.Attribute) and u._parent.func.attr == 'extend'
                     and isinstance(u._parent.func.value, ast.Name) and u in u._parent.args]
            if len(sinks) == 1 and len(uses) == 1 and q.always_followed_by(F, par, q.enclosing_stmt(sinks[0])):
                return sinks[0]._parent.func.value.id, 'extend'
    return None, None


def rules_apply(run):
    A = ApplyStep(run, 'C03.1')
    fi, F = A.fi, A.F
    r = run.rule('C03.1', 'a micro step runs exit loop < transition block < entry loop < send loop; within an exit iteration: exit '
                          'code < history save < removal from the configuration; within an entry iteration: entry code < insertion')
    regs = [('exit loop', A.exit_loop), ('transition block', A.trans_if), ('entry loop', A.entry_loop), ('send loop', A.send_loop)]
    for (n1, a), (n2, b) in zip(regs, regs[1:]):
        run.check(q.ordered(F, a, b) and not q.in_node(b, a), r, fi.short, '%s precedes %s' % (n1, n2),
                  '%s must complete before %s starts on every path' % (n1, n2), b)
    for lab, reg in (('exit_code', 'exit'), ('action', 'transition'), ('entry_code', 'entry')):
        sites = [s for s in A.sites if s.label == lab]
        run.check(len(sites) == 1, r, fi.short, 'single %s site' % lab, 'expected exactly one %s call, found %d' % (lab, len(sites)), F)
        for s in sites:
            run.check(A.region(s) == reg, r, fi.short, '%s runs in the %s phase' % (lab, reg),
                      '%s is executed outside the %s phase' % (lab, reg), s.node)
            cont = {'exit': A.exit_loop, 'transition': A.trans_if, 'entry': A.entry_loop}[reg]
            inner = q.enclosing(s.node, (ast.For, ast.While, ast.If))
            lim = guards(s.node, stop=cont)
            run.check(not lim, r, fi.short, '%s is unconditional within its phase' % lab,
                      '%s is skipped under a condition %s' % (lab, [q.unparse(g[0]) for g in lim]), s.node)
    for s in [s for s in A.sites if s.label == 'raise_event']:
        run.check(A.region(s) == 'send', r, fi.short, 'collected events are raised in the send phase only',
                  'events are raised before the micro step completed', s.node)
    # inside one exit iteration
    ex = A.in_region('exit')
    code = [s for s in ex if s.label == 'exit_code']
    rem = [s for s in ex if s.label == 'cfg_remove']
    mem = [s for s in ex if s.label.startswith('mem_save')]
    run.check(len(rem) == 1, r, fi.short, 'one removal from the configuration per exited state', 'expected one removal', A.exit_loop)
    for c in code:
        for m in mem:
            run.check(q.never_after(F, c.node, m.node), r, fi.short, 'exit code before history save', 'history must be saved after the exit code ran', m.node)
        for x in rem:
            run.check(q.ordered(F, c.node, x.node), r, fi.short, 'exit code before removal from the configuration',
                      'the state must still be active while its exit code runs', x.node)
    for m in mem:
        for x in rem:
            run.check(q.never_after(F, m.node, x.node), r, fi.short, 'history save before removal', 'memory must be recorded before the state leaves the configuration', x.node)
    en = A.in_region('entry')
    code = [s for s in en if s.label == 'entry_code']
    add = [s for s in en if s.label == 'cfg_add']
    run.check(len(add) == 1, r, fi.short, 'one insertion into the configuration per entered state', 'expected one insertion', A.entry_loop)
    for c in code:
        for x in add:
            run.check(q.ordered(F, c.node, x.node), r, fi.short, 'entry code before insertion into the configuration',
                      'a state becomes active only after its entry code ran', x.node)
    for x in rem + add:
        lp = A.exit_loop if x in rem else A.entry_loop
        v = lp.target.id if isinstance(lp.target, ast.Name) else None
        run.check(v and (obj_is(x.extra['obj'], v, 'name') or obj_is(x.extra['obj'], v)) and not guards(x.node, stop=lp), r, fi.short,
                  'configuration update concerns the iterated state, unconditionally',
                  'the configuration must be updated with the state of the current iteration on every path', x.node)

    r = run.rule('C03.2', 'the exit / entry loops iterate step.exited_states / step.entered_states in the given order, and the code '
                          'executed is that of the iterated state')
    run.check(not A.exit_direct, r, fi.short, 'exit loop keeps the order of step.exited_states', 'order altered by %s' % A.exit_direct, A.exit_loop)
    run.check(not A.entry_direct, r, fi.short, 'entry loop keeps the order of step.entered_states', 'order altered by %s' % A.entry_direct, A.entry_loop)
    for lab, lp in (('exit_code', A.exit_loop), ('entry_code', A.entry_loop)):
        v = lp.target.id if isinstance(lp.target, ast.Name) else None
        for s in [s for s in A.sites if s.label == lab]:
            run.check(obj_is(s.extra['obj'], v), r, fi.short, '%s of the iterated state' % lab, 'code of another object is executed', s.node)
    for s in [s for s in A.sites if s.label == 'action']:
        run.check(obj_is(s.extra['obj'], A.step, 'transition') and obj_is(s.extra['event'], A.step, 'event'), r, fi.short,
                  'action of step.transition with step.event', 'the action must be that of the step transition, run with the step event', s.node)

    r = run.rule('C03.3', 'nothing dropped: events returned by exit code, action and entry code all flow into the one list that is raised '
                          'and returned; applied micro steps all flow into the returned MacroStep; _stabilize returns every applied step')
    lists = set()
    for s in [s for s in A.sites if s.label in ('exit_code', 'action', 'entry_code')]:
        l, how = list_sink(s.node)
        run.check(l is not None and how == 'extend', r, fi.short, 'events of %s are collected' % s.label,
                  'the events returned by %s are dropped' % s.label, s.node)
        if l:
            lists.add(l)
    run.check(len(lists) == 1, r, fi.short, 'one collection list', 'events are collected in %d different lists' % len(lists), F)
    L = next(iter(lists)) if lists else None
    it = strip_cast(A.send_loop.iter)
    run.check(isinstance(it, ast.Name) and it.id == L, r, fi.short, 'the send loop raises the collected events in order',
              'the send loop does not iterate the collected list', A.send_loop)
    rets = [n for n in q.walk(F, False) if isinstance(n, ast.Return)]
    run.check(len(rets) == 1, r, fi.short, 'single return', 'expected one return', F)
    r4 = run.rule('C03.4', 'the MicroStep returned by _apply_step carries the event, transition and state lists of the applied step and '
                           'the collected events')
    for rt in rets:
        v = strip_cast(rt.value)
        good = isinstance(v, ast.Call) and dotted(v.func) == 'MicroStep' and not v.args
        run.check(good, r4, fi.short, 'returns a new MicroStep', 'must return MicroStep(..) built from keywords', rt)
        if good:
            kw = q.kwargs_of(v)
            for k in ('event', 'transition', 'entered_states', 'exited_states'):
                run.check(k in kw and obj_is(kw[k], A.step, k), r4, fi.short, 'returned %s = step.%s' % (k, k),
                          'returned micro step must mirror step.%s' % k, rt)
            run.check('sent_events' in kw and isinstance(kw['sent_events'], ast.Name) and kw['sent_events'].id == L, r, fi.short,
                      'returned sent_events = the collected list', 'the trace must list exactly the events that were raised', rt)
    # the raised events are raised exactly once each, and also recorded in _sent_events
    for s in [s for s in A.sites if s.label == 'raise_event']:
        run.check(not guards(s.node, stop=A.send_loop), r, fi.short, 'each collected event is raised unconditionally', 'some collected events are not raised', s.node)

    rules_trace_complete(run, r)


def rules_trace_complete(run, r):
    """Every applied micro step (with the events it sent) reaches the returned MacroStep."""
    # execute_once
    ei = run.fn('Interpreter.execute_once')
    E = ei.node
    es = labelled_sites(run, ei)
    aps = [s for s in es if s.label == 'apply_step']
    sts = [s for s in es if s.label == 'stabilize']
    run.check(len(aps) == 1 and len(sts) == 1, r, ei.short, 'one _apply_step and one _stabilize site', 'unexpected number of apply/stabilize sites', E)
    accs = set()
    for s, how in [(x, 'append') for x in aps] + [(x, 'extend') for x in sts]:
        l, h = list_sink(s.node)
        run.check(l is not None and h == how, r, ei.short, 'result of %s kept (%s)' % (s.label, how), 'the micro steps returned by %s are dropped from the trace' % s.label, s.node)
        if l:
            accs.add(l)
    run.check(len(accs) == 1, r, ei.short, 'one list of executed steps', 'executed steps are spread over several lists', E)
    acc = next(iter(accs)) if accs else None
    ms = [c for c in q.calls(E) if dotted(c.func) == 'MacroStep']
    run.check(len(ms) == 1, r, ei.short, 'single MacroStep construction', 'expected one MacroStep(..)', E)
    for m in ms:
        sa = q.arg(m, 1, 'steps')
        run.check(isinstance(sa, ast.Name) and sa.id == acc, r, ei.short, 'MacroStep(steps=<executed steps>)', 'the macro step must carry the executed steps', m)
        st = q.enclosing_stmt(m)
        mv = st.targets[0].id if isinstance(st, ast.Assign) and isinstance(st.targets[0], ast.Name) else None
        rets = [n for n in q.walk(E, False) if isinstance(n, ast.Return)]
        run.check(mv and all(isinstance(x.value, ast.Name) and x.value.id == mv for x in rets) and rets, r, ei.short,
                  'the MacroStep is the returned value', 'execute_once must return the macro step it built', E)
        for s in aps + sts:
            run.check(q.never_after(E, s.node, m), r, ei.short, '%s precedes the MacroStep construction' % s.label, 'steps executed after the macro step was built', m)
    # apply / stabilise pairing & step loop order
    for s in aps:
        lp = q.enclosing(s.node, ast.For)
        run.check(lp is not None and isinstance(strip_cast(lp.iter), ast.Name) and isinstance(lp.target, ast.Name)
                  and obj_is(s.extra['arg'], lp.target.id), r, ei.short, 'each computed step is applied in order',
                  'the computed steps must be applied one by one in their order', s.node)
        if lp is not None:
            bad = [n for n in ast.walk(lp.iter) if isinstance(n, ast.Call)]
            run.check(not bad, r, ei.short, 'computed steps iterated as given', 'order of computed steps altered', lp)
            for t in sts:
                run.check(q.in_node(t.node, lp) and q.ordered(E, s.node, t.node), r, ei.short,
                          'apply one transition then stabilise before the next', 'stabilisation must follow each applied step inside the loop', t.node)
    # _stabilize
    si = run.fn('Interpreter._stabilize')
    S = si.node
    ss = labelled_sites(run, si)
    aps2 = [s for s in ss if s.label == 'apply_step']
    run.check(len(aps2) >= 1, r, si.short, '_stabilize applies steps', 'no _apply_step in _stabilize', S)
    rets = [n for n in q.walk(S, False) if isinstance(n, ast.Return)]
    for s in aps2:
        l, h = list_sink(s.node)
        run.check(l is not None and h == 'append' and rets and all(isinstance(x.value, ast.Name) and x.value.id == l for x in rets), r, si.short,
                  'every applied stabilisation step is returned', 'a stabilisation step is applied but not reported', s.node)


def rules_macro(run, rid='C03.6'):
    r = run.rule(rid, 'each MacroStep property concatenates the attribute of the same name of its micro steps in order; transitions '
                          'keeps the non-None ones; event is the first non-None')
    ci = run.prog.cls('MacroStep')
    init = ci.methods.get('__init__')
    run.anchor(init, r, 'MacroStep.__init__')
    stored = {}
    for n in q.walk(init.node):
        if isinstance(n, ast.Assign) and q.is_self_attr(n.targets[0]) and isinstance(n.value, ast.Name):
            stored[n.value.id] = n.targets[0].attr
    run.check('steps' in stored and 'time' in stored, r, 'MacroStep.__init__', 'steps and time stored as given', 'constructor must store its arguments', init.node)
    fld = stored.get('steps', '_steps')
    for prop in ('entered_states', 'exited_states', 'sent_events', 'transitions', 'event'):
        m = ci.methods.get(prop)
        run.anchor(m is not None, r, 'MacroStep.' + prop)
        M = m.node
        loops = [n for n in q.walk(M) if isinstance(n, (ast.For, ast.comprehension))]
        outer = [l for l in loops if dotted(strip_cast(l.iter)) in ('self.' + fld, 'self.steps')]
        run.check(len(outer) == 1, r, m.short, 'iterates the micro steps in order', 'must iterate self._steps directly, once', M)
        if not outer:
            continue
        tv = outer[0].target.id if isinstance(outer[0].target, ast.Name) else None
        attrs = sorted({n.attr for n in ast.walk(M) if isinstance(n, ast.Attribute) and isinstance(n.value, ast.Name) and n.value.id == tv} |
                       {q.const_str(n.args[1]) for n in ast.walk(M) if isinstance(n, ast.Call) and isinstance(n.func, ast.Name) and n.func.id == 'getattr' and len(n.args) == 2
                        and isinstance(n.args[0], ast.Name) and n.args[0].id == tv and q.const_str(n.args[1])})
        want = {'transitions': ['transition'], 'event': ['event']}.get(prop, [prop])
        run.check(attrs == want, r, m.short, 'reads micro-step attribute %s' % want, 'reads %s of the micro steps instead of %s' % (attrs, want), M)
        calls_bad = [c for c in q.calls(M) if isinstance(c.func, ast.Name) and c.func.id in ('sorted', 'reversed', 'set')]
        run.check(not calls_bad, r, m.short, 'no reordering', 'aggregation reorders the micro steps', M)
        if prop in ('entered_states', 'exited_states', 'sent_events'):
            rets = [n for n in q.walk(M, False) if isinstance(n, ast.Return)]
            # a shortcut for a macro step made of one micro step: `return list(self._steps[0].<prop>)` under len(self._steps) == 1 is the concatenation
            one = 'self.%s[0].%s' % (fld, prop)
            shortcuts = [x for x in rets if x.value is not None and q.unparse(strip_cast(x.value)) in ('list(%s)' % one, one + '[:]', '[] + ' + one, one + '.copy()', '[*%s]' % one)
                         and any(a[0] == '==' and {a[1], a[2]} == {'len(self.%s)' % fld, '1'} for a in guard_atoms(x))]
            rets = [x for x in rets if x not in shortcuts]
            good = len(rets) == 1 and isinstance(rets[0].value, ast.Name)
            comp = strip_cast(rets[0].value) if len(rets) == 1 else None
            if isinstance(comp, ast.ListComp):
                # [x for step in self._steps for x in step.P]  (no filter, element is the inner variable)
                gens = comp.generators
                good = len(gens) == 2 and not gens[0].ifs and not gens[1].ifs and isinstance(gens[1].target, ast.Name) and \
                    q.unparse(comp.elt) == gens[1].target.id and q.unparse(gens[1].iter) == '%s.%s' % (tv, prop) and gens[0] is outer[0]
            elif good:
                acc = rets[0].value.id
                ups = [n for n in q.walk(M) if (isinstance(n, ast.AugAssign) and isinstance(n.target, ast.Name) and n.target.id == acc)
                       or (isinstance(n, ast.Call) and isinstance(n.func, ast.Attribute) and n.func.attr in ('append', 'extend')
                           and isinstance(n.func.value, ast.Name) and n.func.value.id == acc)]
                good = len(ups) == 1 and not guards(ups[0], stop=outer[0] if isinstance(outer[0], ast.For) else None)
                init_empty = [v for st, v in q.assigned_value(M, acc) if isinstance(st, ast.Assign)]
                good = good and len(init_empty) == 1 and isinstance(init_empty[0], ast.List) and not init_empty[0].elts
            run.check(good, r, m.short, 'unconditional concatenation into the returned list', 'some micro-step entries may be dropped or duplicated', M)
        elif prop == 'transitions':
            accs = []
            for x in [x for x in q.walk(M, False) if isinstance(x, ast.Return) and x.value is not None]:
                v = strip_cast(x.value)
                if isinstance(v, ast.ListComp) and len(v.generators) == 1:
                    accs.append((v.elt, v.generators[0].iter, [(c_, True) for c_ in v.generators[0].ifs]))
                elif isinstance(v, ast.Name):
                    accs += [(e_, it_, cs_) for e_, it_, cs_, nd_ in q.accumulations(M, v.id)]
            good = len(accs) == 1 and accs[0][0] is not None and q.unparse(accs[0][0]) == tv + '.transition' and len(accs[0][2]) == 1
            if good:
                c_, pol_ = accs[0][2][0]
                good = cfg_atoms(c_, pol_) in ([('truthy', tv + '.transition', '')], [('is not', tv + '.transition', 'None')])
            run.check(good, r, m.short, 'exactly the non-None transitions', 'transitions must be those of the micro steps that have one', M)
        elif prop == 'event':
            fm = q.first_matches(M)
            good = len(fm) == 1
            if good:
                e_, v_, it_, cs_, d_ = fm[0]
                ats = [a for c_, p_ in cs_ for a in cfg_atoms(c_, p_)]
                good = q.unparse(e_) == v_ + '.event' and dotted(strip_cast(it_)) in ('self.' + fld, 'self.steps') and \
                    ats in ([('truthy', v_ + '.event', '')], [('is not', v_ + '.event', 'None')]) and \
                    (d_ is None or (isinstance(d_, ast.Constant) and d_.value is None))
            run.check(good, r, m.short, 'first non-None event', 'event must be the first event carried by a micro step', M)
    for prop, f in (('steps', fld), ('time', stored.get('time', '_time'))):
        m = ci.methods.get(prop)
        rets = [n for n in q.walk(m.node, False) if isinstance(n, ast.Return)] if m else []
        run.check(m is not None and len(rets) == 1 and dotted(rets[0].value) == 'self.' + f, r, 'MacroStep.' + prop,
                  '%s returns the stored value' % prop, 'accessor does not return the stored field', m.node if m else ci.node)
    # MicroStep constructor stores its arguments under the same names
    mi = run.prog.cls('MicroStep').methods.get('__init__')
    run.anchor(mi, r, 'MicroStep.__init__')
    for n in q.walk(mi.node):
        if isinstance(n, ast.Assign) and q.is_self_attr(n.targets[0]):
            a = n.targets[0].attr
            names = {x.id for x in ast.walk(n.value) if isinstance(x, ast.Name)}
            run.check(names == {a}, r, 'MicroStep.__init__', 'field %s stores parameter %s' % (a, a), 'field %s is fed from %s' % (a, sorted(names)), n)
            v = strip_cast(n.value)
            if isinstance(v, ast.IfExp):
                run.check(q.unparse(v.body) == a and q.unparse(v.test) == a and isinstance(v.orelse, ast.List) and not v.orelse.elts, r,
                          'MicroStep.__init__', 'field %s defaults to an empty list only' % a, 'given list is not stored as is', n)


def check(run):
    run.guard(rules_apply, run)
    from . import c07
    run.guard(c07.rules_order, run, 'C03', '.5')
    run.guard(rules_macro, run)
    from .c16 import rules_caches
    run.guard(rules_caches, run, 'C03', '.8')
    # "then default children are entered until stable": the content and completeness of the stabilisation steps
    from .c02 import rules_stabilization, rules_pairing
    run.guard(rules_stabilization, run, ('C03.9a', 'C03.9b', 'C03.9c'))
