"""C10 Property-statechart monitoring: complete, ordered, fail-fast, non-intrusive."""
import ast
import re

from .. import q
from ..cfg import guards, guard_atoms
from ..prog import strip_cast, dotted
from .common import exactly_for_class, ApplyStep, labelled_sites, obj_is
from .c04 import swallow_check

EXPLANATION = (
    'Static rules: the set of (name, attributes) of MetaEvent constructions in the interpreter equals the table documented in the '
    'docstring of Interpreter.attach (extra: deprecated `delayed event sent`); each reported action is paired, by dominance and '
    'post-dominance within its iteration, with exactly one emission carrying the same object; _raise_event calls every listener, in '
    'list order, without filter or early exit; PropertyStatechartListener queues, executes and raises when final on every path and no '
    'handler can intercept the error; both branches of bind_property_statechart install a SynchronizedClock on the monitored '
    'interpreter, whose time property returns that interpreter\'s frozen time; ownership: the monitored interpreter escapes into the '
    'property side only as the clock\'s reference, which is used for the `.time` read alone. Decides delivery/ordering/fail-fast shape, '
    'not exactly-once over whole runs of concrete property charts.')

LISTED_EXTRA = {'delayed event sent': ['event']}   # deprecated since 1.4.0, emitted in addition (documented in CHANGELOG)


def documented_table(run, r):
    fi = run.fn('Interpreter.attach')
    doc = ast.get_docstring(fi.node) or ''
    table = {}
    for m in re.finditer(r'^- \*([a-z ]+)\*:(.*?)(?=^- |\Z)', doc, re.S | re.M):
        name = m.group(1).strip()
        attrs = re.findall(r'``([a-z_]+)``', m.group(2))
        table[name] = sorted(set(attrs))
    run.anchor(len(table) >= 5, r, 'documented meta-event table in the docstring of Interpreter.attach')
    return table


def rules_delivery(run, P='C10', rid='.3'):
    prog = run.prog
    ri = run.fn('Interpreter._raise_event')
    R = ri.node
    evp = q.param_names(R)[1]
    r = run.rule(P + rid, 'delivery: a MetaEvent is handed to every element of _listeners once, in list order, no filter, no early exit; attach appends, detach removes')
    loops = [n for n in q.walk(R, False) if isinstance(n, ast.For) and dotted(strip_cast(n.iter)) == 'self._listeners']
    run.check(len(loops) == 1, r, ri.short, 'single delivery loop over self._listeners', 'found %d' % len(loops), R)
    for lp in loops:
        lv = lp.target.id if isinstance(lp.target, ast.Name) else '?'
        body_calls = [c for c in q.calls(lp) if isinstance(c.func, ast.Name) and c.func.id == lv]
        run.check(len(body_calls) == 1 and len(lp.body) == 1 and not guards(body_calls[0], stop=lp), r, ri.short, 'each listener called exactly once, unconditionally',
                  'delivery is filtered or repeated', lp)
        for c in body_calls:
            run.check(len(c.args) == 1 and obj_is(c.args[0], evp), r, ri.short, 'listener receives the meta-event itself', 'argument differs', c)
        run.check(not any(isinstance(x, (ast.Break, ast.Return, ast.Continue, ast.Try)) for x in ast.walk(lp)), r, ri.short, 'no early exit / handler in the delivery loop',
                  'delivery can stop before every listener was called', lp)
        at = guard_atoms(lp)
        good = exactly_for_class(run, lp, evp, 'MetaEvent')
        run.check(good, r, ri.short, 'delivery exactly for MetaEvent instances', 'delivery condition is %s' % at, lp)
    for name, meth in (('Interpreter.attach', 'append'), ('Interpreter.detach', 'remove')):
        m = run.fn(name)
        cs = [c for c in q.calls(m.node) if q.unparse(c.func) == 'self._listeners.' + meth]
        p = q.param_names(m.node)[1]
        reached = len(cs) == 1 and not guards(cs[0])
        if len(cs) == 1 and not reached and meth == 'remove':
            # the removal may be skipped when (and only when) there is nothing to remove: every valuation of the path conditions under which the call is not
            # reached has `listener not in self._listeners` true (e.g. an early return under `missing_ok and listener not in self._listeners`)
            def classify_l(op, l, r_, e):
                return 'PRESENT' if op == 'in' and l == p and r_ == 'self._listeners' else None
            st_ = q.enclosing_stmt(cs[0])
            dnf = q.reach_dnf(st_)
            ba = q.BoolAbs(classify_l)
            for conj in dnf:
                for e_, pol in conj:
                    ba.ev(e_, {})
            vs = list(ba.vars)
            reached = 'PRESENT' in vs
            for mask in range(1 << len(vs)):
                val = {v: bool(mask >> i_ & 1) for i_, v in enumerate(vs)}
                if val.get('PRESENT') and not q.dnf_holds(ba, dnf, val):
                    reached = False
        run.check(len(cs) == 1 and obj_is(cs[0].args[0], p) and reached and len([c for c in q.calls(m.node) if 'self._listeners' in q.unparse(c.func)]) == 1, r, name,
                  '%s does _listeners.%s(listener)' % (name.split('.')[1], meth), 'registration differs', m.node)
    nw = 0
    for fi in prog.functions():
        if fi.outer is not None:
            continue
        for c, fld, kind, node in prog.direct_writes(fi):
            if fld == '_listeners' and c == 'Interpreter':
                nw += 1
                run.check(fi.short in ('Interpreter.__init__', 'Interpreter.attach', 'Interpreter.detach'), r, fi.short, 'write:_listeners ' + kind,
                          'listener list modified outside attach/detach', node)
    run.floor(nw, 3, r, 'writers of _listeners')



def rules_send_order(run):
    """Listeners see what happened in the order it happened: the events and notifications collected while a piece of code ran are raised by one loop over the
    collected list, each unconditionally - not sorted into kinds and raised kind by kind."""
    r = run.rule('C10.8', 'sent events and user notifications of a micro step reach the listeners in the order the code produced them: one loop over the collected list '
                          'raises each of them unconditionally')
    A = ApplyStep(run, r)
    sites = [s for s in A.sites if s.label == 'raise_event']
    run.floor(len(sites), 1, r, '_raise_event sites in _apply_step')
    in_send = [s for s in sites if A.region(s) == 'send']
    run.check(len(in_send) >= 1, r, A.fi.short, 'the collected events are raised in the send loop', 'no raise in the send loop', A.F)
    for s in sites:
        if A.region(s) in ('send',):
            run.check(not guards(s.node, stop=A.send_loop), r, A.fi.short, 'each collected event is raised where it stands in the list', 'raised under a condition: events of '
                      'another kind are raised elsewhere, out of order', s.node)
        elif strip_cast(s.node.args[0] if isinstance(s.node, ast.Call) and s.node.args else ast.Constant(value=None)).__class__ is ast.Name and \
                q.enclosing(s.node, ast.For) is not None and q.enclosing(s.node, ast.For) is not A.send_loop and \
                any(isinstance(x, ast.Name) and x.id in {n.id for n in ast.walk(A.send_loop.iter) if isinstance(n, ast.Name)}
                    for o_ in [q.enclosing(s.node, ast.For).iter] + q.local_origin(A.F, q.enclosing(s.node, ast.For).iter) for x in ast.walk(o_)):
            run.fail(r, A.fi.short, 'a second loop raises part of the collected events', 'events of the collected list are raised by another loop: the listeners do not see '
                     'them in the order they were produced', s.node)


def check(run):
    prog = run.prog
    r = run.rule('C10.1', 'emission table = documented table (names and attributes)')
    doc = documented_table(run, r)
    emitted = {}
    for fi in prog.functions():
        if fi.outer is not None or fi.module.name != 'sismic.interpreter.default':
            continue
        for name, kw, c in q.meta_events(run, fi.node):
            emitted.setdefault(name, []).append((fi, sorted(kw), c))
    run.floor(len(emitted), 5, r, 'distinct meta-events constructed in the interpreter')
    for name, attrs in sorted(doc.items()):
        sites = emitted.get(name, [])
        run.check(len(sites) >= 1, r, 'Interpreter', "documented meta-event '%s' is emitted" % name, 'never emitted', run.fn('Interpreter.attach').node)
        for fi, kws, c in sites:
            run.check(kws == attrs, r, fi.short, "'%s' carries %s" % (name, attrs), 'emitted with attributes %s, documented %s' % (kws, attrs), c)
    for name, sites in sorted(emitted.items()):
        if name.startswith('?'):
            run.fail(r, sites[0][0].short, 'meta-event name computed at run time: ' + name[1:], 'the name of an emitted meta-event is chosen by a condition: a documented '
                     'meta-event is then delivered only in some cases', sites[0][2])
            continue
        if name not in doc:
            run.check(name in LISTED_EXTRA and all(k == LISTED_EXTRA[name] for _, k, _ in sites), r, sites[0][0].short,
                      "extra meta-event '%s' is the listed deprecated one" % name, 'undocumented meta-event emitted', sites[0][2])
        run.check(len(sites) == 1, r, sites[0][0].short, "'%s' has a single emission site" % name, 'emitted from %d sites (duplicate delivery)' % len(sites), sites[0][2])

    r = run.rule('C10.2', 'pairing: each action is followed, within its iteration and on every normal path, by exactly one emission carrying the same object; '
                          "'step started' precedes everything else of the step and carries the frozen time, 'step ended' is last")
    A = ApplyStep(run, r)
    F = A.F

    def emits(region, name):
        return [s for s in A.sites if s.label == 'emit:' + name and A.region(s) == region]
    pairs = [('exit', 'cfg_remove', 'state exited', 'state'), ('entry', 'cfg_add', 'state entered', 'state')]
    for reg, act, name, attr in pairs:
        acts = [s for s in A.sites if s.label == act and A.region(s) == reg]
        ems = emits(reg, name)
        run.check(len(acts) == 1 and len(ems) == 1, r, A.fi.short, "one '%s' per %s" % (name, act), 'found %d actions / %d emissions' % (len(acts), len(ems)), F)
        for a in acts:
            for e in ems:
                run.check(q.ordered(F, a.node, e.node), r, A.fi.short, "%s then '%s'" % (act, name), 'emission does not follow the action on every path (or precedes it)', e.node)
                run.check(q.unparse(e.extra['kwargs'].get(attr)) == q.unparse(a.extra['obj']), r, A.fi.short, "'%s' names the state just updated" % name,
                          'emission carries %s, action concerns %s' % (q.unparse(e.extra['kwargs'].get(attr)) if attr in e.extra['kwargs'] else None, q.unparse(a.extra['obj'])), e.node)
    acts = [s for s in A.sites if s.label == 'action']
    ems = emits('transition', 'transition processed')
    run.check(len(ems) == 1, r, A.fi.short, "one 'transition processed'", 'found %d' % len(ems), F)
    for a in acts:
        for e in ems:
            run.check(q.ordered(F, a.node, e.node), r, A.fi.short, "action then 'transition processed'", 'order / path coverage broken', e.node)
            kw = e.extra['kwargs']
            good = obj_is(kw.get('source'), A.step, 'transition.source') or q.unparse(kw.get('source')) == A.step + '.transition.source'
            good = good and q.unparse(kw.get('target')) == A.step + '.transition.target' and q.unparse(kw.get('event')) == A.step + '.event'
            run.check(good, r, A.fi.short, "'transition processed' carries source/target of the step transition and the step event", 'attribute values differ', e.node)
    for s in A.sites:
        if s.label.startswith('emit:'):
            reg = A.region(s)
            cont = {'exit': A.exit_loop, 'transition': A.trans_if, 'entry': A.entry_loop, 'send': A.send_loop}.get(reg)
            run.check(cont is not None and not guards(s.node, stop=cont), r, A.fi.short, "emission '%s' is unconditional in its phase" % s.label[5:],
                      'emission is conditional or outside the phases', s.node)
    # execute_once
    ei = run.fn('Interpreter.execute_once')
    E = ei.node
    es = labelled_sites(run, ei)
    started = [s for s in es if s.label == 'emit:step started']
    ended = [s for s in es if s.label == 'emit:step ended']
    consumed = [s for s in es if s.label == 'emit:event consumed']
    run.check(len(started) == 1 and len(ended) == 1 and len(consumed) == 1, r, ei.short, 'step started / event consumed / step ended emitted once each',
              'found %d/%d/%d' % (len(started), len(consumed), len(ended)), E)
    tw = [s for s in es if s.label.startswith('time:')]
    for s in started:
        run.check(q.unparse(s.extra['kwargs'].get('time')) == 'self.time', r, ei.short, "'step started' carries time=self.time", 'time attribute differs', s.node)
        run.check(not guards(s.node) and q.always_followed_by(E, E.body[0], s.node), r, ei.short, "'step started' on every path", 'conditional', s.node)
        for t in tw:
            run.check(q.ordered(E, t.node, s.node), r, ei.short, "time sampled before 'step started'", 'the emitted time is stale', s.node)
        for o in es:
            if o is not s and o.label not in ('time:assign',) and not o.label.startswith('sent_events') and not o.label.startswith('time:'):
                run.check(q.strictly_before(E, s.node, o.node), r, ei.short, "'step started' precedes " + o.label, 'something of the step happens before step started', o.node)
    for s in ended:
        run.check(not guards(s.node) and q.always_followed_by(E, E.body[0], s.node), r, ei.short, "'step ended' on every normal path", 'conditional', s.node)
        for o in es:
            if o is not s:
                run.check(q.never_after(E, o.node, s.node), r, ei.short, "'step ended' follows " + o.label, 'something happens after step ended', o.node)
    pops = [s for s in es if s.label == 'select_event']
    for p in pops:
        for c in consumed:
            run.check(q.ordered(E, p.node, c.node), r, ei.short, "pop then 'event consumed'", 'consumption and its report are not paired', c.node)
            st = q.enclosing_stmt(p.node)
            v = st.targets[0].id if isinstance(st, ast.Assign) and isinstance(st.targets[0], ast.Name) else None
            run.check(v and obj_is(c.extra['kwargs'].get('event'), v), r, ei.short, "'event consumed' carries the popped event", 'carries another object', c.node)
    # _raise_event: internal event -> queue then 'event sent'
    ri = run.fn('Interpreter._raise_event')
    R = ri.node
    rs = labelled_sites(run, ri)
    evp = q.param_names(R)[1]
    qe = q.calls_to(run, R, {'Interpreter._queue_event'})
    sent = [s for s in rs if s.label == 'emit:event sent']
    run.check(len(qe) == 1 and len(sent) == 1, r, ri.short, "one queueing and one 'event sent' per internal event", 'found %d/%d' % (len(qe), len(sent)), R)
    for c in qe:
        for s in sent:
            run.check(q.ordered(R, c, s.node), r, ri.short, "queue then 'event sent'", 'not paired on every path', s.node)
            run.check(obj_is(s.extra['kwargs'].get('event'), evp) and guard_atoms(s.node) == guard_atoms(c), r, ri.short,
                      "'event sent' carries the event, under the same condition as the queueing", 'attribute or condition differs', s.node)

    from . import c05
    run.guard(c05.rules_send, run, 'C10', '.7')
    run.guard(rules_delivery, run, 'C10', '.3')
    run.guard(rules_send_order, run)

    r = run.rule('C10.4', 'fail-fast: the property listener queues the meta-event, executes the property interpreter and raises PropertyStatechartError when it '
                          'is final, on every path; no handler can intercept it')
    li = run.fn('PropertyStatechartListener.__call__')
    Lf = li.node
    evq = q.param_names(Lf)[1]
    qs = [c for c in q.calls_to(run, Lf, {'Interpreter.queue'})]
    xs = [c for c in q.calls_to(run, Lf, {'Interpreter.execute'})]
    rz = [x for x in q.raises_in(Lf) if q.raised_class(x) == 'PropertyStatechartError']
    run.check(len(qs) == 1 and len(xs) == 1 and len(rz) == 1, r, li.short, 'queue, execute, raise present once each', 'found %d/%d/%d' % (len(qs), len(xs), len(rz)), Lf)
    if qs and xs and rz:
        run.check(q.ordered(Lf, qs[0], xs[0]) and not guards(qs[0]) and not guards(xs[0]), r, li.short, 'queue then execute, unconditionally', 'order or condition differs', xs[0])
        run.check(obj_is(qs[0].args[0] if qs[0].args else None, evq), r, li.short, 'the received meta-event is queued', 'queues another object', qs[0])
        run.check(not xs[0].args and not xs[0].keywords, r, li.short, 'property interpreter runs to quiescence', 'execute() is bounded', xs[0])
        run.check(guard_atoms(rz[0]) == [('truthy', 'self._interpreter.final', '')] and q.strictly_before(Lf, xs[0], rz[0]), r, li.short,
                  'raise iff the property interpreter is final after executing', 'condition is %s' % guard_atoms(rz[0]), rz[0])
        for c in [qs[0], xs[0]]:
            run.check(dotted(c.func.value) == 'self._interpreter', r, li.short, 'acts on the property interpreter', 'receiver differs', c)
    run.guard(swallow_check, run, r, ['PropertyStatechartListener.__call__'], 'PropertyStatechartError', 'property listener')

    r = run.rule('C10.5', 'both branches of bind_property_statechart install SynchronizedClock(self); SynchronizedClock.time returns the time of the interpreter '
                          'it was built with')
    bi = run.fn('Interpreter.bind_property_statechart')
    B = bi.node
    lst = [c for c in q.calls(B) if dotted(c.func) == 'PropertyStatechartListener']
    run.check(len(lst) == 1, r, bi.short, 'one PropertyStatechartListener built', 'found %d' % len(lst), B)
    iv = lst[0].args[0].id if lst and lst[0].args and isinstance(lst[0].args[0], ast.Name) else None
    run.anchor(iv, r, 'variable holding the property interpreter')
    defs = q.assigned_value(B, iv)
    run.check(len(defs) == 2, r, bi.short, 'two ways of obtaining the property interpreter', 'found %d' % len(defs), B)
    for st, v in defs:
        v = strip_cast(v)
        if isinstance(v, ast.Call):
            clk = q.kwargs_of(v).get('clock')
            good = isinstance(clk, ast.Call) and dotted(clk.func) == 'SynchronizedClock' and len(clk.args) == 1 and obj_is(clk.args[0], 'self')
            run.check(good, r, bi.short, 'new property interpreter built with clock=SynchronizedClock(self)', 'clock argument is %s' % (q.unparse(clk) if clk is not None else None), st)
            a0 = v.args[0] if v.args else None
            run.check(obj_is(a0, q.param_names(B)[1]), r, bi.short, 'built for the given property statechart', 'first argument differs', st)
        else:
            blk = q.block_of(st)
            clk_set = [s for s in blk if isinstance(s, ast.Assign) and q.unparse(s.targets[0]) == iv + '.clock']
            good = len(clk_set) == 1 and isinstance(clk_set[0].value, ast.Call) and dotted(clk_set[0].value.func) == 'SynchronizedClock' and \
                len(clk_set[0].value.args) == 1 and obj_is(clk_set[0].value.args[0], 'self')
            run.check(good, r, bi.short, 'deprecated branch re-clocks the given interpreter with SynchronizedClock(self)', 'clock not installed', st)
    at = [c for c in q.calls_to(run, B, {'Interpreter.attach'})]
    run.check(len(at) == 1 and dotted(at[0].func) == 'self.attach' and not guards(at[0]), r, bi.short, 'listener attached to the monitored interpreter', 'attach missing', B)
    rets = [n for n in q.walk(B, False) if isinstance(n, ast.Return)]
    lv = q.enclosing_stmt(lst[0]).targets[0].id if lst and isinstance(q.enclosing_stmt(lst[0]), ast.Assign) else None
    run.check(lv and at and obj_is(at[0].args[0], lv) and all(obj_is(x.value, lv) for x in rets), r, bi.short, 'the attached listener is returned (for detach)', 'differs', B)
    sc = run.fn('SynchronizedClock.time')
    rets = [n for n in q.walk(sc.node, False) if isinstance(n, ast.Return)]
    run.check(len(rets) == 1 and q.unparse(rets[0].value) == 'self._interpreter.time', r, sc.short, 'time = self._interpreter.time', 'returns %s' % [q.unparse(x.value) for x in rets], sc.node)
    si = run.fn('SynchronizedClock.__init__')
    st = [n for n in q.walk(si.node) if isinstance(n, ast.Assign) and q.unparse(n.targets[0]) == 'self._interpreter']
    run.check(len(st) == 1 and obj_is(st[0].value, q.param_names(si.node)[1]), r, si.short, 'follows the interpreter it was constructed with', 'differs', si.node)
    tp = run.fn('Interpreter.time')
    rets = [n for n in q.walk(tp.node, False) if isinstance(n, ast.Return)]
    run.check(len(rets) == 1 and q.unparse(rets[0].value) == 'self._time', r, tp.short, 'Interpreter.time returns the frozen step time', 'differs', tp.node)

    r = run.rule('C10.6', 'non-intrusive (ownership): in bind_property_statechart `self` escapes only as SynchronizedClock(self) and as the receiver of attach; '
                          'the listener\'s interpreter never is `self`; the clock uses its interpreter reference for the `.time` read only')
    for n in q.walk(B):
        if isinstance(n, ast.Name) and n.id == 'self':
            par = n._parent
            if isinstance(par, ast.Attribute) and par.attr == 'attach':
                run.ok(r, bi.short, 'self.attach(..)', n)
            elif isinstance(par, ast.Call) and dotted(par.func) == 'SynchronizedClock':
                run.ok(r, bi.short, 'SynchronizedClock(self)', n)
            else:
                run.fail(r, bi.short, 'use of self: ' + q.unparse(par)[:50], 'the monitored interpreter leaks into the property side', n)
    for st, v in defs:
        run.check(not any(isinstance(x, ast.Name) and x.id == 'self' for x in ast.walk(v) if not (isinstance(getattr(x, '_parent', None), ast.Call)
                                                                                               and dotted(x._parent.func) == 'SynchronizedClock')), r, bi.short,
                  'property interpreter does not originate from self', 'listener would act on the monitored interpreter', st)
    ck = prog.cls('SynchronizedClock')
    for m in ck.methods.values():
        for n in q.walk(m.node):
            if isinstance(n, ast.Attribute) and n.attr == '_interpreter' and isinstance(n.ctx, ast.Load):
                par = n._parent
                if isinstance(par, ast.Return) and m.name not in ('time', '__init__') and not any(
                        isinstance(x_, ast.Attribute) and x_.attr == m.name and isinstance(x_.value, ast.Attribute) and x_.value.attr in ('clock', '_clock')
                        for f_ in prog.functions() if f_.module.name.startswith('sismic.') for x_ in q.walk(f_.node)):
                    run.ok(r, m.short, 'read-only accessor handing out the followed interpreter; nothing in sismic reads it through a clock', n)
                    continue
                run.check(isinstance(par, ast.Attribute) and par.attr == 'time' and isinstance(par.ctx, ast.Load), r, m.short,
                          'clock reads only .time of the followed interpreter', 'other use: %s' % q.unparse(par)[:40], n)
    for m in prog.cls('PropertyStatechartListener').methods.values():
        for n in q.walk(m.node):
            if isinstance(n, ast.Name) and n.id == q.param_names(m.node)[1] and m.name == '__call__':
                par = n._parent
                run.check(isinstance(par, ast.Call) and n in par.args, r, m.short, 'meta-event only forwarded', 'meta-event otherwise used', n)
