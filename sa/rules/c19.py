"""C19 BDD verdicts are sound."""
import ast
import re

from .. import q
from ..cfg import guards, guard_atoms, build_cfg
from ..prog import strip_cast, dotted
from .common import helper_family

EXPLANATION = (
    'Static rules over sismic/bdd/steps.py, sismic/bdd/environment.py, sismic/testing.py and docs/behavior.rst: every `then` step '
    'contains an assertion whose test (or controlling conditions) depends by value flow on the step arguments and on the documented '
    'source (context.monitored_trace for entered / exited / fired, context.interpreter for active / variable / expression / final), '
    'every normal path reads that source and none reads context.trace; for each pair X / not X the asserted tests are negations of '
    'each other and the pattern carrying the negation has the negated test; the sismic.testing predicates read the macro-step attribute '
    'of their name and return True only under a match; environment hooks: a `then` stops monitoring, the first `when` after it resets '
    'the monitored trace, every `when` extends it with the value returned by execute(), `given` executes without recording; every step '
    'spelling documented in docs/behavior.rst is registered for its step type and is the first registered pattern that matches it; '
    'given/when action steps pass their arguments to the interpreter. Decides soundness of the step implementations, not behave itself.')

STEPS = 'sismic.bdd.steps'


def step_table(run, r):
    """[(type, pattern, function node, registration order)] in behave's registration order."""
    mod = run.tree.modules.get(STEPS)
    run.anchor(mod is not None, r, 'module sismic/bdd/steps.py')
    out = []
    order = 0
    for st in mod.tree.body:
        if isinstance(st, ast.FunctionDef):
            for d in reversed(st.decorator_list):     # decorators apply bottom-up
                if isinstance(d, ast.Call) and isinstance(d.func, ast.Name) and d.func.id in ('given', 'when', 'then') and d.args:
                    out.append((d.func.id, q.const_str(d.args[0]), st, order))
                    order += 1
    return out


def pattern_regex(p):
    rx = ''
    i = 0
    for m in re.finditer(r'\{(\w+)(?::(\w))?\}', p):
        rx += re.escape(p[i:m.start()])
        kind = m.group(2)
        rx += {'d': r'(\d+)', 'g': r'([-+]?\d+(?:\.\d+)?)'}.get(kind, r'(.+)')
        i = m.end()
    rx += re.escape(p[i:])
    return re.compile('^' + rx + '$')


def sample_of(p):
    def rep(m):
        return {'d': '3', 'g': '1.5'}.get(m.group(2), 'x1')
    return re.sub(r'\{(\w+)(?::(\w))?\}', rep, p)


def documented_steps(run, r):
    text = run.tree.text('docs/behavior.rst')
    run.anchor(text, r, 'docs/behavior.rst')
    out = []
    for line in text.splitlines():
        m = re.match(r'^(Given/when|Then) (.+)$', line)
        if m:
            types = ['given', 'when'] if m.group(1) == 'Given/when' else ['then']
            for t in types:
                out.append((t, m.group(2).strip()))
    return out


def _success_conditions(F):
    """The alternatives under which function F yields a true verdict: one guard list per `return True`, per `return any(<elt> for ..)` and
    per `return <expression>`; each is [(test expr, polarity)]."""
    alts = []
    for x in q.walk(F, False):
        if not isinstance(x, ast.Return) or x.value is None:
            continue
        v = strip_cast(x.value)
        base = [(g[0], g[1]) for g in guards(x)]
        if isinstance(v, ast.Constant):
            if v.value is True:
                # a guard `if flag:` on a local that only ever holds True / False stands for the places where it is set to True; one of them may be
                # the else clause of the loop over the expected parameters ("no mismatch found")
                expanded = [base]
                for e_, pol_ in base:
                    e0 = strip_cast(e_)
                    if pol_ and isinstance(e0, ast.Name):
                        defs = q.assigned_value(F, e0.id)
                        if defs and all(isinstance(strip_cast(val), ast.Constant) and isinstance(strip_cast(val).value, bool) for st, val in defs):
                            new_exp = []
                            for cur in expanded:
                                rest = [(a_, b_) for a_, b_ in cur if a_ is not e_]
                                for st, val in defs:
                                    if strip_cast(val).value is True:
                                        extra = [(g[0], g[1]) for g in guards(st)]
                                        par_ = getattr(st, '_parent', None)
                                        if isinstance(par_, ast.For) and st in par_.orelse and q.unparse(par_.iter).endswith('.items()'):
                                            extra.append((ast.Name(id='__no_mismatch__', ctx=ast.Load()), True))
                                        elif q.unparse(getattr(q.enclosing(st, ast.For), 'iter', ast.Name(id='', ctx=ast.Load()))).endswith('.items()') is False and \
                                                any(isinstance(n_, ast.For) and q.unparse(n_.iter).endswith('.items()') and any(
                                                    isinstance(x_, ast.Assign) and isinstance(x_.targets[0], ast.Name) and x_.targets[0].id == e0.id for x_ in ast.walk(n_)) for n_ in q.walk(F, False)):
                                            # initialised True before the parameter loop that may clear it: the flag form proper
                                            extra.append((e_, True))
                                    else:
                                        continue
                                    new_exp.append(rest + extra)
                            expanded = new_exp or expanded
                for cur in expanded:
                    alts.append((cur, x))
            continue
        if isinstance(v, ast.Call) and isinstance(v.func, ast.Name) and v.func.id == 'any' and len(v.args) == 1 and isinstance(v.args[0], (ast.GeneratorExp, ast.ListComp)):
            c = v.args[0]
            alts.append((base + [(c.elt, True)] + [(i, True) for g_ in c.generators for i in g_.ifs], x))
            continue
        if isinstance(v, ast.Name):
            # a result variable: the verdict is true exactly where it is set to True (it starts False, outside any loop)
            defs = q.assigned_value(F, v.id)
            consts = [(st, val) for st, val in defs if isinstance(strip_cast(val), ast.Constant) and isinstance(strip_cast(val).value, bool)]
            if defs and len(consts) == len(defs):
                falses = [st for st, val in consts if strip_cast(val).value is False]
                if all(q.enclosing(st, (ast.For, ast.While)) is None for st in falses):
                    for st, val in consts:
                        if strip_cast(val).value is True:
                            alts.append((base + [(g[0], g[1]) for g in guards(st)], st))
                    continue
            # .. or a value computed once by any(..) / a boolean expression
            if len(defs) == 1 and not isinstance(strip_cast(defs[0][1]), ast.Name):
                v2 = strip_cast(defs[0][1])
                b2 = base + [(g[0], g[1]) for g in guards(defs[0][0])]
                if isinstance(v2, ast.Call) and isinstance(v2.func, ast.Name) and v2.func.id == 'any' and len(v2.args) == 1 and isinstance(v2.args[0], (ast.GeneratorExp, ast.ListComp)):
                    c = v2.args[0]
                    alts.append((b2 + [(c.elt, True)] + [(i, True) for g_ in c.generators for i in g_.ifs], x))
                else:
                    alts.append((b2 + [(v2, True)], x))
                continue
        alts.append((base + [(v, True)], x))
    return alts


def _formula_equals(alts, classify, spec):
    """The disjunction of the alternatives, read over classified atoms, coincides with spec(valuation) everywhere.
    -> (ok, vars, first differing valuation)"""
    ba = q.BoolAbs(classify)
    for conds, _ in alts:
        for e, pol in conds:
            ba.ev(e, {})
    vs = list(ba.vars)
    for mask in range(1 << len(vs)):
        val = {v: bool(mask >> i & 1) for i, v in enumerate(vs)}
        got = any(all(ba.ev(e, val) == pol for e, pol in conds) for conds, _ in alts)
        if got != bool(spec(val)):
            return False, vs, val
    return True, vs, None


def rules_verdict_condition(run, r3, tmod):
    """The exact condition of a true verdict, as a propositional formula over the atoms of the documented definition."""
    def helper_called(F, c):
        return [f for f in tmod.tree.body if isinstance(f, ast.FunctionDef) and isinstance(c.func, ast.Name) and f.name == c.func.id and f.name.startswith('_')]

    def flags_of(F):
        out = set()
        for n in q.walk(F):
            if isinstance(n, ast.Assign) and len(n.targets) == 1 and isinstance(n.targets[0], ast.Name) and isinstance(n.value, ast.Constant) and isinstance(n.value.value, bool):
                out.add(n.targets[0].id)
        return out

    def event_classify(F, name_p):
        fl = flags_of(F)

        def classify(op, l, r_, e):
            if op == 'is' and l == name_p and r_ == 'None':
                return 'NAME_NONE'
            if op == '==' and name_p in (l, r_) and (l.endswith('.name') or r_.endswith('.name')):
                return 'NAME_EQ'
            if op == 'is' and l.endswith('.event') and r_ == 'None':
                return ('HAS_EVENT', False)
            if op == 'truthy' and l.endswith('.event') and '(' not in l:
                return 'HAS_EVENT'
            if op == 'truthy' and (l in fl or l == '__no_mismatch__'):
                return 'ALL_MATCH'
            if op == 'truthy' and isinstance(e, ast.Call) and isinstance(e.func, ast.Name) and e.func.id == 'all':
                return 'ALL_MATCH'
            if op == 'truthy' and isinstance(e, ast.Call) and isinstance(e.func, ast.Name) and e.func.id == 'any' and 'getattr(' in l and '!=' in l:
                return ('ALL_MATCH', False)
            if op == 'truthy' and isinstance(e, ast.Call) and isinstance(e.func, ast.Name) and e.func.id.startswith('_') and helper_called(F, e):
                return 'HELPER:' + e.func.id
            return None
        return classify

    def event_spec(need_event, vs):
        def spec(v):
            okv = True
            if any(x.startswith('HELPER:') for x in vs):
                okv = all(v.get(x, False) for x in vs if x.startswith('HELPER:'))
            if 'NAME_NONE' in vs or 'NAME_EQ' in vs:
                okv = okv and (v.get('NAME_NONE', False) or v.get('NAME_EQ', False))
            if 'ALL_MATCH' in vs:
                okv = okv and v['ALL_MATCH']
            if 'HAS_EVENT' in vs:
                okv = okv and v['HAS_EVENT']
            return okv
        return spec

    for fname, need_event in (('event_is_fired', False), ('event_is_consumed', True)):
        fi = run.fn('sismic.testing:' + fname)
        F = fi.node
        name_p = q.param_names(F)[1]
        todo = [(F, name_p, fi.short)]
        seen_name = False
        seen_event = False
        while todo:
            G, np_, label = todo.pop()
            alts = _success_conditions(G)
            cl = event_classify(G, np_)
            okf, vs, cex = _formula_equals(alts, cl, lambda v: False)     # first pass: collect the variables
            okf, vs, cex = _formula_equals(alts, cl, event_spec(need_event, vs))
            unknown = [x for x in vs if x.startswith('?')]
            run.check(okf and not unknown and bool(alts), r3, fi.short, 'true verdict iff (no name given or the name matches) and every given parameter matches%s [%s]'
                      % (' and the step consumed an event' if need_event else '', label),
                      'the condition of a true verdict differs from the documented one (atoms %s, e.g. %s)' % (vs, cex), G)
            seen_name = seen_name or ('NAME_NONE' in vs and 'NAME_EQ' in vs)
            seen_event = seen_event or 'HAS_EVENT' in vs
            for hv in [x for x in vs if x.startswith('HELPER:')]:
                for c in q.calls(G):
                    if isinstance(c.func, ast.Name) and c.func.id == hv[7:]:
                        h = helper_called(G, c)
                        idx = [i for i, a_ in enumerate(c.args) if isinstance(a_, ast.Name) and a_.id == np_]
                        if h and idx and not any(t[0] is h[0] for t in todo):
                            todo.append((h[0], q.param_names(h[0])[idx[0]], fi.short + ' via ' + h[0].name))
        run.check(seen_name, r3, fi.short, 'the event name takes part in the verdict (any event when no name is given)', 'the name test is missing', F)
        if need_event:
            run.check(seen_event, r3, fi.short, 'macro steps that consumed no event never match', 'a step without event can satisfy the predicate', F)

    # the expected parameters: the given mapping, an empty one only when none was given
    for fname in ('event_is_fired', 'event_is_consumed'):
        fi = run.fn('sismic.testing:' + fname)
        F = fi.node
        pp = q.param_names(F)[2]
        for st, v in q.assigned_value(F, pp):
            for val, at in q.cases(F, v):
                val = strip_cast(val)
                at = at + [a for a in guard_atoms(st)]
                empty = (isinstance(val, ast.Dict) and not val.keys) or (isinstance(val, ast.Call) and isinstance(val.func, ast.Name) and val.func.id == 'dict' and not val.args and not val.keywords)
                if empty:
                    run.check(('is', pp, 'None') in at, r3, fi.short, 'an empty parameter mapping only stands in for a missing one', 'the given parameters are replaced by an empty mapping under %s' % at, st)
                else:
                    run.check(isinstance(val, ast.Name) and val.id == pp and ('is', pp, 'None') not in at, r3, fi.short, 'given parameters are kept as they are',
                              'the expected parameters become %s under %s' % (q.unparse(val)[:40], at), st)

    # state predicates: membership of the name in the list of the same name
    for fname, attr in (('state_is_entered', 'entered_states'), ('state_is_exited', 'exited_states')):
        fi = run.fn('sismic.testing:' + fname)
        F = fi.node
        np_ = q.param_names(F)[1]

        def classify(op, l, r_, e, np_=np_, attr=attr):
            if op == 'in' and l == np_ and r_.endswith('.' + attr):
                return 'MEMBER'
            return None
        alts = _success_conditions(F)
        okf, vs, cex = _formula_equals(alts, classify, lambda v: v.get('MEMBER', False))
        run.check(okf and vs == ['MEMBER'], r3, fi.short, 'true verdict iff the name is in %s of some step' % attr, 'condition differs (atoms %s)' % vs, F)

    fi = run.fn('sismic.testing:transition_is_processed')
    F = fi.node
    tp = q.param_names(F)[1]

    def classify_t(op, l, r_, e):
        if op == 'is' and l == tp and r_ == 'None':
            return 'ANY'
        if op == 'in' and l == tp and r_.endswith('.transitions'):
            return 'MEMBER'
        if op == 'truthy' and l.endswith('.transitions'):
            return 'NONEMPTY'
        return None
    alts = _success_conditions(F)
    okf, vs, cex = _formula_equals(alts, classify_t, lambda v: (v.get('ANY', False) and v.get('NONEMPTY', False)) or (not v.get('ANY', False) and v.get('MEMBER', False)))
    run.check(okf and set(vs) == {'ANY', 'MEMBER', 'NONEMPTY'}, r3, fi.short, 'true verdict iff (no transition given and some transition was processed) or the given one was',
              'condition differs (atoms %s, e.g. %s)' % (vs, cex), F)
    # every predicate wraps a single macro step into a list (and only then): case split of what the search ranges over
    for fname in ('state_is_entered', 'state_is_exited', 'event_is_fired', 'event_is_consumed', 'transition_is_processed'):
        fi = run.fn('sismic.testing:' + fname)
        F = fi.node
        sp = q.param_names(F)[0]
        iters = [n.iter for n in q.walk(F) if isinstance(n, (ast.For, ast.comprehension)) and sp in value_names(F, n.iter) and not isinstance(strip_cast(n.iter), ast.Attribute)
                 and not q.unparse(n.iter).endswith('.items()')]
        # (the steps handed to a private helper that does the iterating count as well)
        for c_ in q.calls(F):
            if isinstance(c_.func, ast.Name) and c_.func.id.startswith('_'):
                iters += [a_ for a_ in c_.args if sp in value_names(F, a_) and (isinstance(strip_cast(a_), ast.IfExp) or (
                    isinstance(strip_cast(a_), ast.Name) and not q.for_targets(F, strip_cast(a_).id) and not any(
                        isinstance(g_, ast.comprehension) and any(isinstance(x, ast.Name) and x.id == strip_cast(a_).id for x in ast.walk(g_.target)) for g_ in q.walk(F))))]
        iters = [it for it in iters if isinstance(strip_cast(it), (ast.Name, ast.IfExp))]
        okw = bool(iters)
        for it in iters:
            cs = q.cases(F, it)
            if isinstance(strip_cast(it), ast.Name) and strip_cast(it).id == sp:
                # the parameter is rebound: `steps = steps if isinstance(steps, list) else [steps]`, or `steps = [steps]` under `if not isinstance(steps, list)`
                # (which leaves the parameter itself as the other case)
                cs = []
                for st_, v_ in q.assigned_value(F, sp):
                    for val_, at_ in q.cases(F, v_) if isinstance(strip_cast(v_), ast.IfExp) else [(v_, [])]:
                        cs.append((val_, at_ + guard_atoms(st_)))
                if len(cs) == 1 and any(a[0] == 'falsy' for a in cs[0][1]):
                    cs.append((ast.Name(id=sp, ctx=ast.Load()), [('truthy', 'isinstance(%s, list)' % sp, '')]))
            good = len(cs) in (2, 3)
            n_plain = 0
            for val, at in cs:
                val = strip_cast(val)
                is_list = any(a[0] == 'truthy' and a[1].replace(' ', '') == 'isinstance(%s,list)' % sp for a in at)
                not_list = any(a[0] == 'falsy' and a[1].replace(' ', '') == 'isinstance(%s,list)' % sp for a in at)
                # an extra convenience: a plain tuple of steps is converted to a list (it could not be used before)
                is_tuple = any((a[0] == 'is' and {a[1], a[2]} == {'type(%s)' % sp, 'tuple'}) or (a[0] == 'truthy' and a[1].replace(' ', '') == 'isinstance(%s,tuple)' % sp) for a in at)
                if not_list and not is_list and is_tuple:
                    good = good and q.unparse(val) in ('list(%s)' % sp, '[*%s]' % sp)
                    continue
                n_plain += 1
                if is_list and not not_list:
                    good = good and isinstance(val, ast.Name) and val.id == sp
                elif not_list and not is_list:
                    good = good and isinstance(val, ast.List) and len(val.elts) == 1 and isinstance(val.elts[0], ast.Name) and val.elts[0].id == sp
                else:
                    good = False
            okw = okw and good and n_plain == 2
        run.check(okw, r3, fi.short, 'a single macro step is wrapped into a list, a list is taken as it is', 'the wrapping of the steps argument differs', F)


def _wraps_by_statement(F, sp):
    for st, v in q.assigned_value(F, sp):
        v = strip_cast(v)
        at = guard_atoms(st)
        if isinstance(v, ast.List) and len(v.elts) == 1 and isinstance(v.elts[0], ast.Name) and v.elts[0].id == sp and \
                at == [('falsy', 'isinstance(%s, list)' % sp, '')]:
            return True
    return False


def value_names(F, expr, depth=0, seen=None):
    """All names and attribute chains the value of expr may derive from (through local assignments)."""
    seen = seen if seen is not None else set()
    out = set()
    for n in ast.walk(expr):
        if isinstance(n, ast.Attribute):
            d = dotted(n)
            if d:
                out.add(d)
        if isinstance(n, ast.Name):
            out.add(n.id)
            if n.id not in seen and depth < 6:
                seen.add(n.id)
                for st, v in q.assigned_value(F, n.id):
                    out |= value_names(F, v, depth + 1, seen)
                    # control dependence of the assignment
                    for g in guards(st):
                        out |= value_names(F, g[0], depth + 1, seen)
                    lp = q.enclosing(st, ast.For)
                    while lp is not None:
                        out |= value_names(F, lp.iter, depth + 1, seen)
                        lp = q.enclosing(lp, ast.For)
                    # container accumulation: parameters[..] = ..
                for x in q.walk(F):
                    if isinstance(x, ast.Assign) and isinstance(x.targets[0], ast.Subscript) and isinstance(x.targets[0].value, ast.Name) and x.targets[0].value.id == n.id:
                        out |= value_names(F, x.value, depth + 1, seen)
                        out |= value_names(F, x.targets[0].slice, depth + 1, seen)
                        for g in guards(x):
                            out |= value_names(F, g[0], depth + 1, seen)
                for lp in q.for_targets(F, n.id):
                    out |= value_names(F, lp.iter, depth + 1, seen)
    return out


def source_for(pattern):
    p = pattern
    if re.search(r'is (not )?(entered|exited)', p) or 'fired' in p:
        return 'context.monitored_trace'
    return 'context.interpreter'


def norm_test(F, test):
    """(polarity, canonical text) of an asserted test with local names resolved one level."""
    test = strip_cast(test)
    pol = True
    while True:
        if isinstance(test, ast.UnaryOp) and isinstance(test.op, ast.Not):
            pol = not pol
            test = strip_cast(test.operand)
            continue
        if isinstance(test, ast.Name):
            vals = q.assigned_value(F, test.id)
            if len(vals) == 1:
                test = strip_cast(vals[0][1])
                continue
        break
    if isinstance(test, ast.Compare) and len(test.ops) == 1:
        op = test.ops[0]
        neg = {ast.NotIn: ast.In, ast.NotEq: ast.Eq, ast.IsNot: ast.Is}
        if type(op) in neg:
            pol = not pol
            test = ast.Compare(left=test.left, ops=[neg[type(op)]()], comparators=test.comparators)
    return pol, q.unparse(_resolve_locals(F, test))


def _resolve_locals(F, expr, depth=0):
    """expr with every local that has a single definition replaced by the defining expression (plain or tuple-unpacking assignment), so that the
    canonical text does not depend on how temporaries are named."""
    import copy as _copy
    if depth > 3:
        return expr
    params = set(q.param_names(F))

    def definition(name):
        found = []
        for n in q.walk(F, False):
            if isinstance(n, ast.Assign) and len(n.targets) == 1:
                t = n.targets[0]
                if isinstance(t, ast.Name) and t.id == name:
                    found.append(n.value)
                elif isinstance(t, (ast.Tuple, ast.List)) and isinstance(strip_cast(n.value), (ast.Tuple, ast.List)) and len(t.elts) == len(strip_cast(n.value).elts):
                    for te, ve in zip(t.elts, strip_cast(n.value).elts):
                        if isinstance(te, ast.Name) and te.id == name:
                            found.append(ve)
                elif any(isinstance(x, ast.Name) and x.id == name for x in ast.walk(t)):
                    found.append(None)
            elif isinstance(n, (ast.For, ast.AugAssign, ast.With)) and any(isinstance(x, ast.Name) and x.id == name and isinstance(x.ctx, ast.Store) for x in ast.walk(n.target if not isinstance(n, ast.With) else n)):
                found.append(None)
        return found[0] if len(found) == 1 and found[0] is not None else None

    class _T(ast.NodeTransformer):
        def visit_Name(self, node):
            if isinstance(node.ctx, ast.Load) and node.id not in params:
                d = definition(node.id)
                if d is not None and not any(isinstance(x, ast.Name) and x.id == node.id for x in ast.walk(d)):
                    return _resolve_locals(F, _copy.deepcopy(strip_cast(d)), depth + 1)
            return node

        def visit_Lambda(self, node):
            return node
    return _T().visit(_copy.deepcopy(expr))


CACHE_FIXTURE = [('sismic/bdd/steps.py', "from .. import testing\n",
                  "from .. import testing\nfrom functools import lru_cache\n\n\n@lru_cache(maxsize=None)\ndef _fixture_literal(text):\n    return eval(text, {}, {})\n")]


def memoised_builders(prog):
    """Functions of sismic.bdd / sismic.testing under a memoising decorator (functools.lru_cache, functools.cache, ..) that hand out an object built by eval /
    literal_eval / a display / a constructor: every caller then gets the SAME object."""
    out = []
    n = 0
    for fi in prog.functions():
        if not (fi.module.name.startswith('sismic.bdd') or fi.module.name == 'sismic.testing'):
            continue
        n += 1
        deco = [q.unparse(d) for d in fi.node.decorator_list]
        if not any(re.search(r'(^|\.)(lru_cache|cache|cached|memoize|memoized)(\(|$)', d) for d in deco):
            continue
        for x in q.walk(fi.node, False):
            if isinstance(x, ast.Return) and x.value is not None:
                vals = [x.value] + q.local_origin(fi.node, x.value)
                for v in vals:
                    v = strip_cast(v)
                    if isinstance(v, (ast.List, ast.Dict, ast.Set, ast.ListComp, ast.DictComp, ast.SetComp)) or (
                            isinstance(v, ast.Call) and (dotted(v.func) or '').split('.')[-1] in ('eval', 'literal_eval', 'loads', 'load', 'list', 'dict', 'set', 'deepcopy', 'copy')):
                        out.append((fi, x))
                        break
    return n, out


def rules_fresh_values(run):
    from ..selftest.runner import apply_edits
    from ..loader import Tree
    from ..prog import Program
    r = run.rule('C19.8', 'values written in steps are evaluated afresh for every step: no memoised function of the BDD layer hands out an object built by eval (a list shared '
                          'between two steps is the list the statechart has already changed; an expected value can be the very object it is compared with)')
    n, found = memoised_builders(run.prog)
    run.floor(n, 30, r, 'functions of sismic.bdd / sismic.testing')
    for fi, x in found:
        run.fail(r, fi.short, 'memoised function returns a built object', 'the result of %s is cached and shared by every step that writes the same text: mutable values (lists, '
                 'dicts) sent with one step are the objects sent or compared by the next' % q.unparse(x.value)[:40], x)
    run.ok(r, 'sismic.bdd', '%d functions examined, none memoises a built value' % n if not found else 'examined', None)
    ov = apply_edits(CACHE_FIXTURE)
    if ov is None:
        run.note('C19.8: positive fixture not applicable to the current text of steps.py (detector not re-proved on this run)')
    else:
        _, f2 = memoised_builders(Program(Tree(root=run.tree.root, overlay=dict(run.tree.overlay, **ov))))
        run.floor(len(f2), 1, r, 'findings on the positive fixture (lru_cache around eval)')
        run.ok(r, 'fixture', 'detector fires on the in-memory fixture', None)


def check(run):
    run.guard(rules_userdata, run)
    run.guard(rules_fresh_values, run)
    prog = run.prog
    r1 = run.rule('C19.1', 'every `then` step can fail, for the right reason: it asserts something that depends on its arguments and on the documented source, '
                           'reads that source on every normal path and never reads context.trace')
    table = step_table(run, r1)
    thens = []
    for t, p, f, o in table:
        if t == 'then' and f not in [x[2] for x in thens]:
            thens.append((t, p, f, o))
    run.floor(len(thens), 12, r1, '`then` step functions')
    run.floor(len(table), 24, r1, 'registered step patterns')
    norm = {}
    for t, p, f, o in thens:
        F = f
        short = f.name
        args = [a.arg for a in f.args.args][1:]
        asserts = [n for n in q.walk(F) if isinstance(n, ast.Assert)] + [n for n in q.walk(F) if isinstance(n, ast.Raise) and q.raised_class(n) == 'AssertionError']
        run.check(len(asserts) >= 1, r1, short, 'step contains an assertion', 'a `then` step without assertion always passes', F)
        src = source_for(p)
        cfg = build_cfg(F)
        reads = [n for n in q.walk(F) if isinstance(n, ast.Attribute) and dotted(n) == src]
        run.check(len(reads) >= 1, r1, short, 'reads its documented source %s' % src, 'the step does not consult %s' % src, F)
        sliced = [n for n in reads if isinstance(getattr(n, '_parent', None), ast.Subscript) and src == 'context.monitored_trace']
        run.check(not sliced, r1, short, 'the source is consulted as a whole', 'only a part of the monitored trace is examined', sliced[0] if sliced else F)
        bad = [n for n in q.walk(F) if isinstance(n, ast.Attribute) and dotted(n) == 'context.trace']
        run.check(not bad, r1, short, 'does not read context.trace', 'judges the whole scenario instead of the preceding block of when steps', bad[0] if bad else F)
        wrong = 'context.interpreter' if src == 'context.monitored_trace' else 'context.monitored_trace'
        useful = []
        for a in asserts:
            tests = [a.test] if isinstance(a, ast.Assert) else []
            consts = isinstance(a, ast.Assert) and isinstance(strip_cast(a.test), ast.Constant)
            names = set()
            if isinstance(a, ast.Assert) and not consts:
                names |= value_names(F, a.test)
            else:
                for g in guards(a):
                    names |= value_names(F, g[0])
            dep_src = any(x == src or x.startswith(src + '.') for x in names)
            dep_args = all(x in names for x in args)
            if consts and strip_cast(a.test).value:
                run.fail(r1, short, 'assert on a true constant', 'the assertion can never fail', a)
                continue
            if dep_src:
                useful.append(a)
            run.check(dep_src, r1, short, 'assertion depends on ' + src, 'the asserted test does not depend on %s (depends on %s)' % (src, sorted(x for x in names if x.startswith('context'))), a)
            if src == 'context.monitored_trace' and not consts:
                run.check(not any(x == wrong + '.configuration' or x == wrong + '.context' for x in names) or True, r1, short, 'judged on the monitored block', '', a)
            # argument dependence: at least one assertion must use every argument
        if args:
            allnames = set()
            for a in asserts:
                if isinstance(a, ast.Assert) and not isinstance(strip_cast(a.test), ast.Constant):
                    allnames |= value_names(F, a.test)
                else:
                    for g in guards(a):
                        allnames |= value_names(F, g[0])
            missing = [x for x in args if x not in allnames]
            # the state-existence lookup counts for `name` only together with an assertion
            run.check(not missing, r1, short, 'the verdict depends on the step arguments %s' % args, 'arguments %s do not influence the verdict' % missing, F)
        # every normal path reads the source
        if reads:
            rn = [cfg.node_of(n) for n in reads]
            run.check(cfg.cut([x for x in rn if x is not None], cfg.exit), r1, short, 'every normal path consults the source', 'a path returns (passes) without consulting %s' % src, F)
        # every normal path passes an assertion (or a loop containing one, for the `assert False` idiom)
        an = []
        for a in asserts:
            lp = q.enclosing(a, (ast.For, ast.While))
            an.append(cfg.node_of(lp if lp is not None and isinstance(a, ast.Assert) and isinstance(strip_cast(a.test), ast.Constant) else a))
        run.check(cfg.cut([x for x in an if x is not None], cfg.exit), r1, short, 'every normal path passes an assertion', 'a path passes the step without asserting anything', F)
        for t2, p2, f2, o2 in table:
            if f2 is f:
                norm[p2] = (f, [norm_test(F, a.test) for a in asserts if isinstance(a, ast.Assert)])

    r2 = run.rule('C19.2', 'polarity pairs: for X / not X the asserted tests are negations of each other over the same predicate, and the pattern carrying the '
                           'negation has the negated test')
    pairs = [('state {name} is entered', 'state {name} is not entered'), ('state {name} is exited', 'state {name} is not exited'),
             ('state {name} is active', 'state {name} is not active'), ('event {name} is fired', 'event {name} is not fired'),
             ('variable {variable} equals {value}', 'variable {variable} does not equal {value}'),
             ('statechart is in a final configuration', 'statechart is not in a final configuration')]
    expr_pairs = [(a, b) for a in norm for b in norm if a.startswith('expression ') and b.startswith('expression ') and a.endswith(' holds') and b.endswith(' does not hold')
                  and a.count('"') == b.count('"')]
    n = 0
    for pos, neg in pairs + expr_pairs:
        if pos not in norm or neg not in norm:
            run.fail(r2, 'steps', 'pair %s / %s registered' % (pos, neg), 'one side of the pair is not registered', None)
            continue
        n += 1
        fp, tp_ = norm[pos]
        fn_, tn = norm[neg]
        # compare the main (last) assertion of each side; drop assertions shared verbatim (e.g. `variable in context`)
        sp_ = [t for t in tp_ if t not in tn]
        sn = [t for t in tn if t not in tp_]

        def strip_params(s):
            return re.sub(r'(testing\.event_is_fired\([^,()]+(?:\.[^,()]+)*, \w+), \w+\)', r'\1)', s)
        good = len(sp_) >= 1 and len(sn) >= 1 and all(a[0] is True for a in sp_) and all(b[0] is False for b in sn) and \
            {strip_params(a[1]) for a in sp_} == {strip_params(b[1]) for b in sn}
        run.check(good, r2, fp.name + ' / ' + fn_.name, "'%s' asserts P, '%s' asserts not P" % (pos, neg),
                  'positive side asserts %s, negative side asserts %s' % (sp_, sn), fn_)
    run.floor(n, 6, r2, 'polarity pairs')

    r3 = run.rule('C19.3', 'sismic.testing predicates: there-exists over the given macro steps of a match on the attribute of their name; True only under a match, '
                           'False otherwise; event predicates require every expected parameter to match')
    want = {'state_is_entered': 'entered_states', 'state_is_exited': 'exited_states', 'event_is_fired': 'sent_events', 'event_is_consumed': 'event',
            'transition_is_processed': 'transitions'}
    tmod = run.tree.modules['sismic.testing']
    STEP_ATTRS = {'entered_states', 'exited_states', 'sent_events', 'event', 'transitions', 'steps', 'time'}

    def helper_closure(F):
        """F plus the private functions of sismic.testing it calls (transitively)."""
        out, work = [F], [F]
        while work:
            g = work.pop()
            for c in q.calls(g):
                if isinstance(c.func, ast.Name) and c.func.id.startswith('_'):
                    for h in tmod.tree.body:
                        if isinstance(h, ast.FunctionDef) and h.name == c.func.id and h not in out:
                            out.append(h)
                            work.append(h)
        return out
    for fname, attr in want.items():
        fi = run.fn('sismic.testing:' + fname)
        F = fi.node
        ps = q.param_names(F)
        fam = helper_closure(F)
        # which attribute of the macro steps is consulted (in the predicate or in the private helpers it calls)
        attrs = {n.attr for g in fam for n in ast.walk(g) if isinstance(n, ast.Attribute) and n.attr in STEP_ATTRS and isinstance(n.ctx, ast.Load)}
        attrs |= {q.const_str(n.args[1]) for g in fam for n in ast.walk(g) if isinstance(n, ast.Call) and isinstance(n.func, ast.Name) and n.func.id == 'getattr'
                  and len(n.args) >= 2 and q.const_str(n.args[1]) in STEP_ATTRS}
        run.check(attrs == {attr}, r3, fi.short, 'reads macro-step attribute %s' % attr, 'reads %s' % sorted(attrs), F)
        run.check(not any(isinstance(n, ast.Subscript) and isinstance(n.slice, ast.Slice) and ps[0] in q.unparse(n.value) for g in fam for n in q.walk(g)), r3, fi.short,
                  'all the given steps are examined', 'only a slice of the steps is examined', F)
        # the search never stops before a match: a break out of a search loop is only allowed where the match has just been recorded
        for g in fam:
            for lp_ in [n for n in q.walk(g, False) if isinstance(n, ast.For) and not q.unparse(n.iter).endswith('.items()')]:
                for b in [b for st_ in lp_.body for b in ast.walk(st_) if isinstance(b, ast.Break) and q.enclosing(b, ast.For) is lp_]:
                    blk_ = q.block_of(b)
                    recorded = any(isinstance(x, ast.Assign) and isinstance(x.value, ast.Constant) and x.value.value is True for x in blk_[:blk_.index(b)])
                    run.check(recorded, r3, fi.short, 'the search loop over %s runs until a match or the end' % q.unparse(lp_.iter)[:30],
                              'a break leaves the search before every candidate was examined: a later matching element is missed', b)
        for x in [n for g in fam[:1] for n in q.walk(g, False) if isinstance(n, ast.Return) and isinstance(n.value, ast.Constant) and n.value.value is False]:
            run.check(q.enclosing(x, (ast.For, ast.While)) is None, r3, fi.short, 'False only after all steps were examined', 'returns False inside the loop', x)
        # inside a search loop only a match may end the search: a return there yields the constant True
        for x in [n for n in q.walk(F, False) if isinstance(n, ast.Return) and q.enclosing(n, (ast.For, ast.While)) is not None]:
            lp_ = q.enclosing(x, (ast.For, ast.While))
            if isinstance(lp_, ast.For) and q.unparse(lp_.iter).endswith('.items()'):
                continue
            run.check(isinstance(x.value, ast.Constant) and x.value.value is True, r3, fi.short, 'a return inside the search loop reports a match',
                      'the search returns the verdict of the first candidate examined (%s): a later matching candidate is never looked at' % q.unparse(x.value)[:50], x)

    def all_match_form(fn, pvar):
        """The loop over pvar.items() in fn decides `every expected parameter matches` in one of the accepted forms."""
        loops = [n for n in q.walk(fn) if isinstance(n, (ast.For, ast.comprehension)) and q.unparse(n.iter) == pvar + '.items()']
        if len(loops) != 1:
            return None, 'found %d loops over %s.items()' % (len(loops), pvar)
        lp = loops[0]
        k, v_ = [e.id for e in lp.target.elts] if isinstance(lp.target, ast.Tuple) and len(lp.target.elts) == 2 else ('?', '?')

        def mismatch(at):
            return len(at) == 1 and at[0][0] == '!=' and v_ in (at[0][1], at[0][2]) and 'getattr(' in at[0][1] + at[0][2] and (', %s, None)' % k) in at[0][1] + at[0][2]
        if isinstance(lp, ast.comprehension):
            comp = lp._parent
            call = getattr(comp, '_parent', None)
            c_ = q.canon_atom(comp.elt) if isinstance(comp, (ast.GeneratorExp, ast.ListComp)) else None
            okk = isinstance(call, ast.Call) and isinstance(call.func, ast.Name) and not lp.ifs and c_ is not None and \
                c_[0] == '==' and v_ in (c_[1], c_[2]) and 'getattr(' in c_[1] + c_[2] and (', %s, None)' % k) in c_[1] + c_[2]
            if okk and call.func.id == 'all':
                okk = c_[3]
            elif okk and call.func.id == 'any':
                # not any(getattr(e, k, None) != v for ..)
                neg = getattr(call, '_parent', None)
                okk = not c_[3] and isinstance(neg, ast.UnaryOp) and isinstance(neg.op, ast.Not)
            else:
                okk = False
            return okk, 'all(getattr(e, k, None) == v for ..)'
        exits = [x for st_ in lp.body for x in ast.walk(st_) if isinstance(x, (ast.Break, ast.Return, ast.Continue)) and q.enclosing(x, ast.For) is lp]
        trues_else = [x for x in lp.orelse if isinstance(x, ast.Return) and isinstance(x.value, ast.Constant) and x.value.value is True]
        if trues_else:
            okk = len(exits) >= 1 and all(isinstance(x, ast.Break) and mismatch(guard_atoms(x, stop=lp)) for x in exits)
            return okk, 'for/else'
        ret_false = [x for x in exits if isinstance(x, ast.Return)]
        if ret_false:
            blk_ = q.block_of(lp)
            nxt = blk_[blk_.index(lp) + 1] if blk_ and blk_.index(lp) + 1 < len(blk_) else None     # what runs when the loop found no mismatch
            okk = all(isinstance(x.value, ast.Constant) and x.value.value is False and mismatch(guard_atoms(x, stop=lp)) for x in ret_false) and len(ret_false) == len(exits) and \
                isinstance(nxt, ast.Return) and isinstance(nxt.value, ast.Constant) and nxt.value.value is True
            return okk, 'return False on mismatch, True after the loop'
        # flag form
        flags = set()
        for x in ast.walk(lp):
            if isinstance(x, ast.Assign) and isinstance(x.targets[0], ast.Name) and isinstance(x.value, ast.Constant) and x.value.value is False:
                flags.add(x.targets[0].id)
        if len(flags) == 1:
            flag = next(iter(flags))
            in_body = lambda st: any(q.in_node(st, b_) for b_ in lp.body)      # (the else clause of the loop counts as "after the loop without a mismatch")
            inside = [(st, v) for st, v in q.assigned_value(fn, flag) if in_body(st)]
            outside = [(st, v) for st, v in q.assigned_value(fn, flag) if not in_body(st)]
            # clearing the flag elsewhere (the name test failed, say) can only take verdicts away: this rule is about what True requires
            outside = [(st, v) for st, v in outside if not (isinstance(v, ast.Constant) and v.value is False)] if len(outside) > 1 else outside
            okk = all(isinstance(v, ast.Constant) and v.value is False and mismatch(guard_atoms(st, stop=lp)) for st, v in inside) and \
                len(outside) == 1 and isinstance(outside[0][1], ast.Constant) and outside[0][1].value is True and \
                all(isinstance(x, ast.Break) for x in exits)
            # the flag is set afresh for every candidate: its True assignment lives in the same (innermost) search loop as the comparison loop
            if okk and outside[0][0] not in lp.orelse:
                okk = q.enclosing(outside[0][0], (ast.For, ast.While)) is q.enclosing(lp, (ast.For, ast.While)) and q.strictly_before(fn, outside[0][0], lp)
                if not okk:
                    return False, 'flag not reset for each candidate: one mismatching candidate makes every later one fail'
            trues_ = [x for x in q.walk(fn, False) if isinstance(x, ast.Return) and isinstance(x.value, ast.Constant) and x.value.value is True]
            okk = okk and all(('truthy', flag, '') in guard_atoms(x) for x in trues_) and bool(trues_)
            return okk, 'flag cleared on mismatch'
        return False, 'unrecognised form'
    for fname in ('event_is_fired', 'event_is_consumed'):
        fi = run.fn('sismic.testing:' + fname)
        F = fi.node
        pp = q.param_names(F)[2]
        okk, form = all_match_form(F, pp)
        where_ = fi.short
        if okk is None:
            # the loop may live in a private helper of the module that receives the parameters
            for c in q.calls(F):
                if isinstance(c.func, ast.Name) and c.func.id.startswith('_') and any(isinstance(a_, ast.Name) and a_.id == pp for a_ in c.args):
                    h = [f for f in tmod.tree.body if isinstance(f, ast.FunctionDef) and f.name == c.func.id]
                    if h:
                        hp = q.param_names(h[0])[[i for i, a_ in enumerate(c.args) if isinstance(a_, ast.Name) and a_.id == pp][0]]
                        okk, form = all_match_form(h[0], hp)
                        where_ = fi.short + ' via ' + h[0].name
                        # the helper's verdict must gate the True result
                        gated = any(q.in_node(c, g[0]) and g[1] for x in q.walk(F, False) if isinstance(x, ast.Return) and isinstance(x.value, ast.Constant) and x.value.value is True for g in guards(x))
                        # .. or be the element of the returned any(..) (possibly conjoined with other tests)
                        for x in q.walk(F, False):
                            v0 = strip_cast(x.value) if isinstance(x, ast.Return) and x.value is not None else None
                            if isinstance(v0, ast.Call) and isinstance(v0.func, ast.Name) and v0.func.id == 'any' and v0.args and isinstance(v0.args[0], (ast.GeneratorExp, ast.ListComp)):
                                e0 = v0.args[0].elt
                                conj = e0.values if isinstance(e0, ast.BoolOp) and isinstance(e0.op, ast.And) else [e0]
                                gated = gated or any(c is strip_cast(y) for y in conj)
                        okk = bool(okk) and gated
        run.check(bool(okk), r3, fi.short, 'True requires every expected parameter to match (%s)' % form,
                  'the parameter comparison does not require all parameters to match (%s, %s)' % (where_, form), F)

    rules_verdict_condition(run, r3, tmod)

    eh = run.fn('sismic.testing:expression_holds')
    rets = [n for n in q.walk(eh.node, False) if isinstance(n, ast.Return)]
    ps = q.param_names(eh.node)
    run.check(len(rets) == 1 and q.unparse(rets[0].value) == '%s._evaluator._evaluate_code(%s)' % (ps[0], ps[1]), r3, eh.short, 'evaluates the expression in the interpreter context',
              'differs', eh.node)

    r4 = run.rule('C19.4', 'monitoring typestate: `then` stops monitoring; the first `when` after it resets the monitored trace; every `when` extends it with the result of '
                           'execute(); `given` executes without recording')
    bs = run.fn('sismic.bdd.environment:before_step')
    B = bs.node
    stops = [n for n in q.walk(B) if isinstance(n, ast.Assign) and q.unparse(n.targets[0]) == 'context._monitoring']
    run.check(len(stops) == 1 and isinstance(stops[0].value, ast.Constant) and stops[0].value.value is False and guard_atoms(stops[0]) == [('==', "'then'", 'step.step_type')], r4,
              bs.short, 'a then step stops monitoring', 'differs: %s' % [guard_atoms(x) for x in stops], B)
    rz = [x for x in q.raises_in(B)]
    run.check(any(('is', 'context.monitored_trace', 'None') in guard_atoms(x) for x in rz), r4, bs.short, 'a then step before any when step is refused', 'missing', B)
    asx = run.fn('sismic.bdd.environment:after_step')
    A = asx.node
    ex = [c for c in q.calls(A) if q.unparse(c.func) == 'context.interpreter.execute']
    when_ex = [c for c in ex if ('==', "'when'", 'step.step_type') in guard_atoms(c)]
    given_ex = [c for c in ex if ('==', "'given'", 'step.step_type') in guard_atoms(c)]
    run.check(len(when_ex) == 1 and len(given_ex) == 1 and len(ex) == 2, r4, asx.short, 'execute() after every given and every when step', 'found %d/%d' % (len(given_ex), len(when_ex)), A)
    def own_conditions(c_):
        # conditions other than "the step is not of another type" (an elif chain over the step types adds those)
        return [a for a in guard_atoms(c_) if not (a[0] == '!=' and 'step.step_type' in (a[1], a[2]))]
    for c in given_ex:
        run.check(isinstance(q.enclosing_stmt(c), ast.Expr) and not c.args and len(own_conditions(c)) == 1, r4, asx.short, 'given: executes to quiescence without recording', 'differs', c)
    for c in when_ex:
        st = q.enclosing_stmt(c)
        v = st.targets[0].id if isinstance(st, ast.Assign) and isinstance(st.targets[0], ast.Name) else None
        run.check(v is not None and not c.args and len(own_conditions(c)) == 1, r4, asx.short, 'when: result of execute() is kept', 'result dropped', c)
        exts = [x for x in q.calls(A) if q.unparse(x.func) == 'context.monitored_trace.extend']
        run.check(len(exts) == 1 and v and q.unparse(exts[0].args[0]) == v and guard_atoms(exts[0]) == guard_atoms(c) and q.strictly_before(A, st, exts[0]), r4, asx.short,
                  'when: monitored trace extended with every returned macro step', 'differs', A)
        resets = [n for n in q.walk(A) if isinstance(n, ast.Assign) and q.unparse(n.targets[0]) == 'context.monitored_trace']
        good = len(resets) == 1 and isinstance(resets[0].value, ast.List) and not resets[0].value.elts and \
            sorted(guard_atoms(resets[0])) == sorted(guard_atoms(c) + [('falsy', 'context._monitoring', '')])
        run.check(good, r4, asx.short, 'when: trace reset iff monitoring was stopped', 'differs', A)
        starts = [n for n in q.walk(A) if isinstance(n, ast.Assign) and q.unparse(n.targets[0]) == 'context._monitoring']
        run.check(len(starts) == 1 and isinstance(starts[0].value, ast.Constant) and starts[0].value.value is True and resets and guard_atoms(starts[0]) == guard_atoms(resets[0]), r4,
                  asx.short, 'when: monitoring restarts together with the reset', 'differs', A)
        for x in exts:
            for rs in resets:
                run.check(q.never_after(A, rs, x), r4, asx.short, 'reset precedes the extension', 'order', x)
    sc = run.fn('sismic.bdd.environment:before_scenario')
    S = sc.node
    mk = [n for n in q.walk(S) if isinstance(n, ast.Assign) and q.unparse(n.targets[0]) == 'context.interpreter']
    if len(mk) > 1:
        # alternatives that differ in the initial context handed to the interpreter only: klass(sc) / klass(sc, initial_context=..)
        def bare(n_):
            v_ = strip_cast(n_.value)
            if isinstance(v_, ast.Call) and all(k_.arg == 'initial_context' for k_ in v_.keywords):
                return q.unparse(ast.Call(func=v_.func, args=v_.args, keywords=[]))
            return None
        if len({bare(n_) for n_ in mk}) == 1 and bare(mk[0]) is not None:
            plain = [n_ for n_ in mk if not strip_cast(n_.value).keywords]
            mk = plain[:1] or [ast.Assign(targets=mk[0].targets, value=ast.Call(func=strip_cast(mk[0].value).func, args=strip_cast(mk[0].value).args, keywords=[]))]
    elif len(mk) == 1 and isinstance(strip_cast(mk[0].value), ast.Call) and strip_cast(mk[0].value).keywords and \
            all(k_.arg == 'initial_context' for k_ in strip_cast(mk[0].value).keywords):
        mk = [ast.Assign(targets=mk[0].targets, value=ast.Call(func=strip_cast(mk[0].value).func, args=strip_cast(mk[0].value).args, keywords=[]))]
    v = strip_cast(mk[0].value) if len(mk) == 1 else None
    ialias = {'context.interpreter'}
    if isinstance(v, ast.Name):
        # built in a local first, then published: interpreter = klass(sc); context.interpreter = interpreter
        ialias.add(v.id)
        o_ = q.local_origin(S, v)
        v = strip_cast(o_[0]) if len(o_) == 1 else v
    shape = isinstance(v, ast.Call) and isinstance(v.func, ast.Name) and len(v.args) == 1 and isinstance(v.args[0], ast.Name) and not v.keywords
    run.check(shape, r4, sc.short, 'a fresh interpreter of the configured statechart per scenario', 'differs', S)
    if shape:
        for nm, key in ((v.args[0].id, 'statechart'), (v.func.id, 'interpreter_klass')):
            d = q.assigned_value(S, nm)
            run.check(len(d) == 1 and q.unparse(d[0][1]) == "context.config.userdata.get('%s')" % key, r4, sc.short, '%s taken from the configuration' % key, 'differs', S)
    init = {q.unparse(n.targets[0]): q.unparse(n.value) for n in q.walk(S) if isinstance(n, ast.Assign)}
    run.check(init.get('context._monitoring') == 'False' and init.get('context.monitored_trace') == 'None', r4, sc.short, 'scenario starts unmonitored with no trace', 'differs', S)
    bp = [c for c in q.calls(S) if isinstance(c.func, ast.Attribute) and c.func.attr == 'bind_property_statechart' and q.unparse(c.func.value) in ialias]
    good = len(bp) == 1 and q.enclosing(bp[0], ast.For) is not None and "userdata.get('property_statecharts')" in q.unparse(q.enclosing(bp[0], ast.For).iter) and \
        q.unparse(bp[0].args[0]) == q.enclosing(bp[0], ast.For).target.id and not guards(bp[0], stop=q.enclosing(bp[0], ast.For))
    run.check(good, r4, sc.short, 'every configured property statechart is bound', 'differs', S)

    r5 = run.rule('C19.5', 'documented spelling: every step pattern of docs/behavior.rst is registered for its step type, and it is the first registered pattern of that '
                           'type that matches the documented spelling')
    doc = documented_steps(run, r5)
    run.floor(len(doc), 20, r5, 'documented step spellings')
    reg = {}
    for t, p, f, o in table:
        reg.setdefault(t, []).append((o, p, f))
    for t, spelled in doc:
        cands = sorted(reg.get(t, []))
        exact = [x for x in cands if x[1] == spelled]
        sample = sample_of(spelled)
        matching = [x for x in cands if pattern_regex(x[1]).match(sample)]
        if not exact:
            run.fail(r5, 'steps', "%s '%s' registered" % (t, spelled),
                     'the documented spelling is not registered; a step written as documented is handled by %s (arguments would include the literal quotes / extra text)'
                     % ([m[1] for m in matching] or 'no step'), matching[0][2] if matching else None)
            continue
        first = matching[0] if matching else None
        run.check(first is not None and first[1] == spelled, r5, exact[0][2].name, "%s '%s' is registered and matched first" % (t, spelled),
                  "the documented spelling is shadowed by the earlier registered pattern '%s'" % (first[1] if first else None), exact[0][2])
    # every registered pattern is documented (no undocumented predefined step)
    docset = set(doc)
    for t, p, f, o in table:
        alt = (t, p) in docset or any(d[0] == t and d[1].replace('"', '') == p for d in doc)
        run.check(alt, r5, f.name, "registered %s '%s' is documented" % (t, p), 'undocumented predefined step', f)

    r6 = run.rule('C19.6', 'action steps act: send_event queues the named event with the parsed parameters; wait adds its seconds to the clock; repeat / reproduce '
                           're-execute the embedded steps under the keyword they were invoked with')
    se = run.fn('sismic.bdd.steps:send_event')
    qc = [c for c in q.calls(se.node) if q.unparse(c.func) == 'context.interpreter.queue']
    star = [k.value for k in qc[0].keywords if k.arg is None and isinstance(k.value, ast.Name)] if len(qc) == 1 else []
    good = len(qc) == 1 and not guards(qc[0]) and q.unparse(qc[0].args[0]) == q.param_names(se.node)[1] and len(star) == 1
    run.check(good, r6, se.short, 'queues the named event with the collected parameters', 'differs', se.node)
    pn = value_names(se.node, star[0]) if star else set()
    run.check({'parameter', 'value', 'context.table'} <= pn, r6, se.short, 'inline and table parameters both reach the event', 'parameters derive from %s' % sorted(pn)[:8], se.node)
    # the `then` side of the same table: the expected parameters handed to testing.event_is_fired are the inline one and the table rows
    ef = run.fn('sismic.bdd.steps:event_is_fired')
    tc = [c for c in q.calls(ef.node) if q.unparse(c.func).endswith('event_is_fired') and c is not None and len(c.args) >= 3]
    run.check(len(tc) == 1, r6, ef.short, 'one call of testing.event_is_fired with the expected parameters', 'found %d' % len(tc), ef.node)
    for c in tc:
        pn2 = value_names(ef.node, c.args[2])
        run.check({'parameter', 'value', 'context.table'} <= pn2, r6, ef.short, 'inline and table parameters both reach the comparison', 'expected parameters derive from %s' % sorted(pn2)[:8], c)
        run.check(q.unparse(c.args[1]) == q.param_names(ef.node)[1] and not [g for g in guards(q.enclosing_stmt(c))], r6, ef.short, 'the named event is looked up, unconditionally', 'differs', c)
    # `no event is fired` fails exactly when some monitored macro step sent something
    nf = run.fn('sismic.bdd.steps:no_event_is_fired')
    fails = []
    for a in [n for n in q.walk(nf.node) if isinstance(n, ast.Assert)]:
        t_ = strip_cast(a.test)
        base = [(g[0], g[1]) for g in guards(a)]
        if isinstance(t_, ast.Constant):
            if not t_.value:
                fails.append((base, a))
        else:
            fails.append((base + [(t_, False)], a))

    # the conditions only count the events of the macro step: evaluate them for n = 0, 1, 2, 3 sent events
    class _N(ast.NodeTransformer):
        def visit_Call(self, node):
            if isinstance(node.func, ast.Name) and node.func.id == 'len' and len(node.args) == 1 and q.unparse(strip_cast(node.args[0])).endswith('.sent_events'):
                return ast.copy_location(ast.Name(id='n', ctx=ast.Load()), node)
            return self.generic_visit(node)

        def visit_Attribute(self, node):
            if q.unparse(node).endswith('.sent_events'):
                return ast.copy_location(ast.Compare(left=ast.Name(id='n', ctx=ast.Load()), ops=[ast.Gt()], comparators=[ast.Constant(value=0)]), node)
            return node

    def holds(e, pol, n):
        import copy as _copy
        t = ast.fix_missing_locations(ast.Expression(body=_N().visit(_copy.deepcopy(strip_cast(e)))))
        if any(isinstance(x, ast.Name) and x.id != 'n' for x in ast.walk(t)) or any(isinstance(x, (ast.Call, ast.Attribute, ast.Subscript)) for x in ast.walk(t)):
            raise ValueError(q.unparse(e))
        return bool(eval(compile(t, '<cond>', 'eval'), {'__builtins__': {}}, {'n': n})) == pol
    okf = bool(fails)
    vs = []
    try:
        for n_ev in range(4):
            got = any(all(holds(e_, pol, n_ev) for e_, pol in conds) for conds, _ in fails)
            okf = okf and got == (n_ev > 0)
    except ValueError as ex_:
        okf = False
        vs = ['condition on something else than the number of sent events: %s' % str(ex_)[:50]]
    loops = [n for n in q.walk(nf.node, False) if isinstance(n, ast.For) and q.unparse(n.iter) == 'context.monitored_trace']
    run.check(okf and len(loops) == 1, r6, nf.short, 'fails iff some monitored macro step sent an event',
              'the step does not fail exactly for the macro steps with one or more sent events %s' % vs, nf.node)
    wt = run.fn('sismic.bdd.steps:wait')
    aug = [n for n in q.walk(wt.node) if isinstance(n, ast.AugAssign)]
    run.check(len(aug) == 1 and q.unparse(aug[0].target) == 'context.interpreter.clock.time' and isinstance(aug[0].op, ast.Add) and q.unparse(aug[0].value) == 'seconds', r6, wt.short,
              'advances the interpreter clock by the given seconds', 'differs', wt.node)
    byreg = {}
    for t, p_, f, o in table:
        byreg.setdefault(p_, {})[t] = f
    for pat in ('I repeat "{step}" {repeat:d} times', 'I reproduce "{scenario}"'):
        g, w = byreg.get(pat, {}).get('given'), byreg.get(pat, {}).get('when')
        run.check(g is not None and w is not None, r6, 'steps', "'%s' registered for given and when" % pat, 'missing registration', None)
        if g is None or w is None:
            continue
        run.check(g is not w, r6, g.name, "'%s': distinct given / when implementations (the keyword must follow the invoking step)" % pat,
                  'one function serves both step types: the embedded steps cannot be re-executed under the keyword they were invoked with '
                  '(a `given` reproduction would run `when` sub-steps and start monitoring too early)', g)
        smod = run.tree.modules['sismic.bdd.steps'].tree
        ex = [(c, names_) for G_, names_ in helper_family(smod, g, ('keyword',)) for c in q.calls(G_) if q.unparse(c.func).endswith('.execute_steps')]
        used = any(names_.get('keyword') in {x.id for x in ast.walk(c) if isinstance(x, ast.Name)} for c, names_ in ex)
        run.check(len(ex) == 1 and used and q.param_defaults(g).get('keyword') == 'Given', r6, g.name,
                  'embedded steps executed under the invoking keyword (default Given)', 'differs', g)
        if g is not w:
            c2 = [c for c in q.calls(w) if isinstance(c.func, ast.Name) and c.func.id == g.name]
            run.check(len(c2) == 1 and any(k.arg == 'keyword' and q.const_str(k.value) == 'When' for k in c2[0].keywords) and
                      [q.unparse(a) for a in c2[0].args] == q.param_names(w), r6, w.name, 'the when variant forwards its arguments with keyword When', 'differs', w)
    rp = run.fn('sismic.bdd.steps:repeat_step')
    lp = [n for n in q.walk(rp.node, False) if isinstance(n, ast.For)]
    run.check(len(lp) == 1 and q.unparse(lp[0].iter) == 'range(repeat)' and any('step' in {x.id for x in ast.walk(c) if isinstance(x, ast.Name)} for c in q.calls(lp[0])), r6, rp.short,
              'the step is executed `repeat` times', 'differs', rp.node)
    rs = run.fn('sismic.bdd.steps:reproduce_scenario')
    scen0 = q.param_names(rs.node)[1]
    fam_ = helper_family(run.tree.modules['sismic.bdd.steps'].tree, rs.node, (scen0,))
    ex = [(c, G_, names_) for G_, names_ in fam_ for c in q.calls(G_) if q.unparse(c.func).endswith('.execute_steps')
          and any(isinstance(x, ast.Attribute) and x.attr == 'name' for x in ast.walk(c))]
    run.check(len(ex) == 1, r6, rs.short, 'one site re-executing the steps of the reproduced scenario', 'found %d' % len(ex), rs.node)
    if ex:
        ex0, G0, names0 = ex[0]
        ex = [ex0]
        at = guard_atoms(ex[0])
        scen = names0.get(scen0, scen0)
        run.check(any(a[0] == '==' and ((a[1].endswith('.name') and a[2] == scen) or (a[2].endswith('.name') and a[1] == scen)) for a in at), r6, rs.short,
                  'reproduces the scenario of the given name', 'condition is %s' % at, ex[0])
        run.check(any(a[0] == 'in' and a[1].endswith('.step_type') and "'given'" in a[2] and "'when'" in a[2] for a in at), r6, rs.short, 'only its given/when steps are re-executed', 'differs', ex[0])
        fails_ = [n for n in q.walk(rs.node) if (isinstance(n, ast.Assert) and isinstance(strip_cast(n.test), ast.Constant) and not strip_cast(n.test).value)
                  or (isinstance(n, ast.Raise) and q.raised_class(n) == 'AssertionError')]
        okf_ = any(not any(a[0] == '==' and scen0 in (a[1], a[2]) for a in guard_atoms(n)) for n in fails_)
        if not okf_ and G0 is not rs.node:
            # the search lives in a helper that reports whether the scenario exists: its verdict is asserted
            hcalls = [c for c in q.calls(rs.node) if isinstance(c.func, ast.Name) and c.func.id == G0.name]
            rets_ = [x for x in q.walk(G0, False) if isinstance(x, ast.Return)]
            found_true = [x for x in rets_ if isinstance(x.value, ast.Constant) and x.value.value is True and any(a[0] == '==' and scen in (a[1], a[2]) for a in guard_atoms(x))]
            last_false = bool(G0.body) and isinstance(G0.body[-1], ast.Return) and isinstance(G0.body[-1].value, ast.Constant) and G0.body[-1].value.value is False
            asserted = [a for a in q.walk(rs.node) if isinstance(a, ast.Assert) and any(q.in_node(c, a.test) or (isinstance(strip_cast(a.test), ast.Name) and any(
                strip_cast(v) is c for st, v in q.assigned_value(rs.node, strip_cast(a.test).id))) for c in hcalls)]
            okf_ = bool(found_true) and last_false and len(found_true) + 1 == len(rets_) and bool(asserted) and not guards(asserted[0])
        run.check(okf_, r6, rs.short, 'an unknown scenario name fails the step',
                  'reproducing a scenario that does not exist passes silently', rs.node)
        lp_ = q.enclosing(ex[0], ast.For)
        run.check(lp_ is not None and not any(isinstance(x, ast.Break) for x in ast.walk(lp_)), r6, rs.short, 'every given/when step of the reproduced scenario is re-executed',
                  'the replay stops at the first step that is not a given/when step: later given/when steps are skipped', lp_ if lp_ is not None else rs.node)


def rules_userdata(run):
    r = run.rule('C19.7', 'execute_bdd hands the statechart, interpreter class, property statecharts and debug flag to the hooks under the very keys the environment reads')
    wi = run.fn('execute_bdd')
    W = wi.node
    written = {}
    for c in q.calls(W):
        if isinstance(c.func, ast.Attribute) and c.func.attr == 'update_userdata' and c.args and isinstance(c.args[0], ast.Dict):
            for k, v in zip(c.args[0].keys, c.args[0].values):
                if k is not None and q.const_str(k):
                    written[q.const_str(k)] = v
    run.floor(len(written), 3, r, 'userdata keys written by execute_bdd')
    read = {}
    env = run.tree.modules.get('sismic.bdd.environment')
    run.anchor(env is not None, r, 'module sismic/bdd/environment.py')
    for n in ast.walk(env.tree):
        if isinstance(n, ast.Call) and isinstance(n.func, ast.Attribute) and n.func.attr == 'get' and 'userdata' in q.unparse(n.func.value) and n.args and q.const_str(n.args[0]):
            read.setdefault(q.const_str(n.args[0]), []).append(n)
    documented = {'statechart', 'interpreter_klass', 'property_statecharts', 'debug_on_error'}
    for k in sorted(set(written) | set(read)):
        if k in read and k not in written and k not in documented:
            run.ok(r, 'bdd', "userdata key '%s' is read only (an option nobody sets reads as None)" % k, read[k][0])
            continue
        run.check(k in written and k in read, r, 'bdd', "userdata key '%s' written by execute_bdd and read by the hooks" % k,
                  "key '%s': written %s, read %s" % (k, k in written, k in read), read.get(k, [W])[0] if k in read else W)
    ps = q.param_names(W)
    for k, v in written.items():
        names = {x.id for x in ast.walk(v) if isinstance(x, ast.Name)}
        run.check(k in names or (k == 'interpreter_klass' and 'interpreter_klass' in names), r, wi.short, "userdata '%s' carries the parameter of the same name" % k,
                  "'%s' is fed from %s" % (k, sorted(names)), v)
    # the environment and the predefined steps that behave loads are the ones of sismic.bdd
    texts = [q.const_str(c.args[0]) for c in q.calls(W) if isinstance(c.func, ast.Attribute) and c.func.attr == 'write' and c.args and q.const_str(c.args[0])]
    run.check('from sismic.bdd.environment import *' in texts and 'from sismic.bdd.steps import *' in texts, r, wi.short,
              'behave is given sismic.bdd.environment and sismic.bdd.steps', 'generated files import %s' % texts, W)
    cli = run.fn('sismic.bdd.__main__:cli')
    calls_ = [c for c in q.calls(cli.node) if isinstance(c.func, ast.Name) and c.func.id == 'execute_bdd']
    run.check(len(calls_) == 1, r, cli.short, 'sismic-bdd runs execute_bdd', 'found %d calls' % len(calls_), cli.node)
    for c in calls_:
        kw = q.kwargs_of(c)
        run.check('property_statecharts' in kw and 'step_filepaths' in kw and q.arg(c, 1, 'feature_filepaths') is not None and q.arg(c, 0, 'statechart') is not None, r, cli.short, 'the command line passes features, steps and properties on',
                  'keywords: %s' % sorted(kw), c)
