"""C15 Bound statecharts: sent events reach every bound target once, in order."""
import ast

from .. import q
from ..cfg import guards, guard_atoms
from ..prog import strip_cast, dotted
from .common import exactly_for_class, ApplyStep, labelled_sites, obj_is

EXPLANATION = (
    'Static rules: InternalEventListener forwards iff the meta-event is `event sent`, builds exactly an Event (not an internal or meta '
    'event) from the name and all the data of the sent event and calls its callable once; bind wraps the queue method of a bound '
    'interpreter (or the callable itself), attaches the wrapper and returns the attached object; delivery follows the _listeners list '
    '(append on attach, remove on detach, one unconditional call per listener in list order); for an InternalEvent the sender queues it '
    'for itself and emits exactly one `event sent`, for a MetaEvent neither; the events raised in the send loop of a micro step are the '
    'ones reported in its sent_events. Decides the forwarding shape, not delivery over whole runs and topologies.')


def check(run):
    # "the internal events listed as sent in each returned MacroStep": MacroStep.sent_events lists the sent events of every micro step, unfiltered
    from .c03 import rules_macro
    run.guard(rules_macro, run, 'C15.6')
    # "name and parameters, delay included": events are stored as given
    from .c05 import rules_event_data
    run.guard(rules_event_data, run, 'C15', '.7')
    prog = run.prog
    r = run.rule('C15.1', "InternalEventListener.__call__ forwards iff name == 'event sent', as Event(sent.name, **sent.data), with one call of its callable")
    li = run.fn('InternalEventListener.__call__')
    L = li.node
    evp = q.param_names(L)[1]
    cs = [c for c in q.calls(L) if dotted(c.func) == 'self._callable']
    run.check(len(cs) == 1, r, li.short, 'single call of the bound callable', 'found %d' % len(cs), L)
    for c in cs:
        at = guard_atoms(c)
        good_at = at in ([('==', "'event sent'", evp + '.name')], [('==', evp + '.name', "'event sent'")])
        if not good_at:
            # optional filters that are off unless asked for (a field that is None for every listener built the documented way): the condition is judged with
            # `self.<field> is None` true
            from .common import optional_none_fields
            opt = optional_none_fields(prog, prog.cls('InternalEventListener'))

            def classify_f(op, l, r_, e):
                if op == '==' and {l, r_} == {"'event sent'", evp + '.name'}:
                    return 'SENT'
                if op == 'is' and r_ == 'None' and l.startswith('self.') and l[5:] in opt:
                    return 'OFF'
                return None
            ba = q.BoolAbs(classify_f)
            vs, sat = ba.table([(g[0], g[1], g[2]) for g in guards(c)])
            if 'SENT' in vs and 'OFF' in vs:
                bad = [b for b in q.table_equals(vs, sat, lambda v: v.get('SENT', False)) if b[0].get('OFF')]
                good_at = not bad
        run.check(good_at, r, li.short, "forward iff event.name == 'event sent'",
                  'forwarding condition is %s' % at, c)
        run.check(q.enclosing(c, (ast.For, ast.While)) is None, r, li.short, 'forwarded once', 'forwarding sits in a loop', c)
        a = c.args[0] if len(c.args) == 1 and not c.keywords else None
        good = isinstance(a, ast.Call) and isinstance(a.func, ast.Name) and a.func.id == 'Event'
        run.check(good, r, li.short, 'forwards a plain Event (external for the target)', 'forwards %s' % (q.unparse(a.func) if isinstance(a, ast.Call) else q.unparse(a)), c)
        if good:
            rr = prog.resolve_global(li.module.name, 'Event')
            run.check(rr is not None and rr[0] == 'class' and rr[1].name == 'Event' and not rr[1].bases, r, li.short, 'Event resolves to the base event class', 'Event is %s' % (rr,), c)
            nm = a.args[0] if a.args else None
            star = [k for k in a.keywords if k.arg is None]
            run.check(q.unparse(nm) == evp + '.event.name' and len(a.args) == 1, r, li.short, 'same name as the sent event', 'name is %s' % q.unparse(nm), c)
            run.check(len(star) == 1 and q.unparse(star[0].value) == evp + '.event.data' and len(a.keywords) == 1, r, li.short, 'all parameters of the sent event (delay included)',
                      'parameters are %s' % [q.unparse(k.value) for k in a.keywords], c)
    ii = run.fn('InternalEventListener.__init__')
    st = [n for n in q.walk(ii.node) if isinstance(n, ast.Assign) and q.unparse(n.targets[0]) == 'self._callable']
    run.check(len(st) == 1 and obj_is(st[0].value, q.param_names(ii.node)[1]), r, ii.short, 'stores the given callable', 'differs', ii.node)

    r = run.rule('C15.2', 'bind wraps target.queue for an interpreter (the callable itself otherwise), attaches the wrapper and returns it')
    bi = run.fn('Interpreter.bind')
    B = bi.node
    p = q.param_names(B)[1]
    mk = [c for c in q.calls(B) if dotted(c.func) == 'InternalEventListener']
    run.check(1 <= len(mk) <= 2, r, bi.short, 'wrapper construction site(s)', 'found %d constructions' % len(mk), B)
    seen = set()
    for c in mk:
        a0 = c.args[0] if c.args else None
        from .common import optional_feature_on
        cases_ = list(q.cases(B, a0)) if a0 is not None else []
        if cases_ and all(optional_feature_on(at_ + guard_atoms(c), B) for v, at_ in cases_) and isinstance(strip_cast(a0), ast.Name) and strip_cast(a0).id == p:
            cases_.append((a0, []))       # the parameter is re-bound only when the option is on: otherwise it is the argument itself
        for v, at_ in cases_:
            at = at_ + guard_atoms(c)
            if optional_feature_on(at, B):
                continue      # what an opt-in keyword parameter adds (a filter around the target) is outside the documented binding
            txt = q.unparse(v)
            if ('truthy', 'isinstance(%s, Interpreter)' % p, '') in at:
                seen.add('interp')
                run.check(txt == p + '.queue', r, bi.short, 'interpreter target -> its queue method', 'wraps %s' % txt, c)
            elif ('falsy', 'isinstance(%s, Interpreter)' % p, '') in at:
                seen.add('callable')
                run.check(txt == p, r, bi.short, 'callable target -> the callable', 'wraps %s' % txt, c)
            else:
                run.fail(r, bi.short, 'wrapper construction under %s' % at, 'unrecognised condition', c)
    run.check(seen == {'interp', 'callable'}, r, bi.short, 'both kinds of target are wrapped', 'kinds handled: %s' % sorted(seen), B)
    at = q.calls_to(run, B, {'Interpreter.attach'})
    rets = [n for n in q.walk(B, False) if isinstance(n, ast.Return)]
    lv = None
    for c in mk:
        st = q.enclosing_stmt(c)
        if isinstance(st, ast.Assign) and isinstance(st.targets[0], ast.Name):
            lv = st.targets[0].id
    run.check(len(at) == 1 and dotted(at[0].func) == 'self.attach' and not guards(at[0]) and lv and obj_is(at[0].args[0], lv), r, bi.short, 'wrapper attached to the sender',
              'attach missing or conditional', B)
    run.check(len(rets) == 1 and lv and obj_is(rets[0].value, lv), r, bi.short, 'returns the attached wrapper (usable with detach)', 'returns %s' % [q.unparse(x.value) for x in rets], B)
    qi = run.fn('Interpreter.queue')
    calls = q.calls_to(run, qi.node, {'Interpreter._queue_event'})
    run.check(len(calls) == 1, r, qi.short, 'queue() hands each event to _queue_event', 'found %d' % len(calls), qi.node)
    for c in calls:
        lp = q.enclosing(c, ast.For)
        run.check(lp is not None and not guards(c, stop=lp) and not any(isinstance(x, (ast.Break, ast.Return, ast.Continue)) for x in ast.walk(lp)), r, qi.short,
                  'every given event is queued, in order', 'conditional queueing or early exit', c)

    r = run.rule('C15.3', 'sender side: an InternalEvent is queued for the sender and reported by exactly one `event sent`; a MetaEvent is neither queued nor '
                          'reported as sent; the send loop raises exactly the events listed in the returned micro step')
    ri = run.fn('Interpreter._raise_event')
    R = ri.node
    evq = q.param_names(R)[1]
    rs = labelled_sites(run, ri)
    sent = [s for s in rs if s.label == 'emit:event sent']
    qe = q.calls_to(run, R, {'Interpreter._queue_event'})
    run.check(len(sent) == 1 and len(qe) == 1, r, ri.short, "one `event sent` and one self-queueing", 'found %d/%d' % (len(sent), len(qe)), R)
    for s in sent:
        at = guard_atoms(s.node)
        run.check(exactly_for_class(run, s.node, evq, 'InternalEvent'), r, ri.short, '`event sent` exactly for InternalEvent instances', 'condition is %s' % at, s.node)
        run.check(obj_is(s.extra['kwargs'].get('event'), evq) and sorted(s.extra['kwargs']) == ['event'], r, ri.short, '`event sent` carries the event object', 'differs', s.node)
        run.check(q.enclosing(s.node, (ast.For, ast.While)) is None, r, ri.short, 'reported once', 'in a loop', s.node)
    for c in qe:
        run.check(exactly_for_class(run, c, evq, 'InternalEvent'), r, ri.short, 'self-queueing exactly for InternalEvent instances', 'condition differs', c)
    prog_ok = prog.is_subclass('InternalEvent', 'Event') and prog.is_subclass('MetaEvent', 'Event') and not prog.is_subclass('MetaEvent', 'InternalEvent') \
        and not prog.is_subclass('InternalEvent', 'MetaEvent')
    run.check(prog_ok, r, 'events', 'InternalEvent and MetaEvent are unrelated subclasses of Event', 'class hierarchy changed (a MetaEvent would be forwarded / queued)', None)
    A = ApplyStep(run, r)
    it = strip_cast(A.send_loop.iter)
    rets = [n for n in q.walk(A.F, False) if isinstance(n, ast.Return)]
    for s in [s for s in A.sites if s.label == 'raise_event']:
        run.check(A.region(s) == 'send' and not guards(s.node, stop=A.send_loop), r, A.fi.short, 'each collected event raised once, in order', 'conditional', s.node)
    for rt in rets:
        v = strip_cast(rt.value)
        kw = q.kwargs_of(v) if isinstance(v, ast.Call) else {}
        run.check('sent_events' in kw and isinstance(it, ast.Name) and obj_is(kw['sent_events'], it.id), r, A.fi.short, 'reported sent_events = the raised list', 'differs', rt)
    from .c10 import rules_delivery
    run.guard(rules_delivery, run, 'C15', '.4')
    from .c03 import rules_trace_complete
    r5 = run.rule('C15.5', 'the micro steps returned by _apply_step (which carry the sent events) are the ones collected into the returned MacroStep, also during stabilisation')
    run.guard(rules_trace_complete, run, r5)
