"""C11 YAML export/import round-trip is lossless."""
import ast

from .. import q
from ..cfg import guards, guard_atoms
from ..prog import strip_cast, dotted
from ..tables import keys_written, keys_read, SchemaModel, param_to_attrs, public_attr

EXPLANATION = (
    'Static rules over sismic/io/datadict.py, sismic/io/yaml.py and the __eq__ methods of sismic/model/elements.py: per level '
    '(statechart, state, transition, contract item) the keys written by the exporter equal the keys read by the importer and those '
    'admitted by SCHEMA; for each key the model attribute exported under it equals the attribute the imported value ends up in '
    '(followed through constructor parameters and base-class __init__ calls); type strings <-> state classes, children key <-> '
    'composite class and symbolic priorities <-> constants are inverse maps and agree with SCHEMA; name-bearing fields all receive '
    'the same normalisation on import while whitespace stripping is confined to code-bearing fields; every comparison in an __eq__ '
    'compares the same attribute on both sides. Decides writer/reader agreement, not the fidelity of ruamel.yaml on arbitrary scalars.')

CODE_KEYS = {'event', 'guard', 'action', 'on entry', 'on exit', 'before', 'after', 'always'}
NAME_KEYS = {'name', 'target', 'initial', 'memory'}


def origin_keys(F, expr, dictvar, depth=0, seen=None):
    """Constant keys of dictvar the value of expr derives from, and whether .strip() is applied on the way."""
    seen = seen if seen is not None else set()
    keys = set()
    stripped = False
    for n in ast.walk(expr):
        if isinstance(n, ast.Call) and isinstance(n.func, ast.Attribute) and n.func.attr == 'strip':
            stripped = True
        if isinstance(n, ast.Call) and isinstance(n.func, ast.Attribute) and n.func.attr == 'get' and q.unparse(strip_cast(n.func.value)) == dictvar \
                and n.args and q.const_str(n.args[0]) is not None:
            keys.add(q.const_str(n.args[0]))
        if isinstance(n, ast.Subscript) and q.unparse(strip_cast(n.value)) == dictvar and q.const_str(n.slice) is not None:
            keys.add(q.const_str(n.slice))
        if isinstance(n, ast.Name) and n.id != dictvar and n.id not in seen and depth < 5:
            seen.add(n.id)
            for st, v in q.assigned_value(F, n.id):
                k2, s2 = origin_keys(F, v, dictvar, depth + 1, seen)
                keys |= k2
                stripped = stripped or s2
    return keys, stripped


def _complete_index(run, xi, it):
    """The exporter looks the transitions of a state up in an index handed down by its caller: (True, None) when that index is a complete
    grouping of the transitions of the chart by source, (False, reason) otherwise."""
    prog = run.prog
    X = xi.node
    it = strip_cast(it)
    cands = [it] + ([strip_cast(o) for o in q.local_origin(X, it)] if isinstance(it, ast.Name) else [])
    pname = None
    for v in cands:
        if isinstance(v, ast.Call) and isinstance(v.func, ast.Attribute) and v.func.attr == 'get' and isinstance(v.func.value, ast.Name):
            pname = v.func.value.id
        elif isinstance(v, ast.Subscript) and isinstance(v.value, ast.Name):
            pname = v.value.id
    params = q.param_names(X)
    if pname is None or pname not in params:
        return False, None
    pos = params.index(pname)
    verdicts = []
    for f in prog.functions():
        for c in q.calls(f.node):
            if not (isinstance(c.func, ast.Name) and c.func.id == xi.name):
                continue
            a = c.args[pos] if len(c.args) > pos else q.arg(c, None, pname)
            if a is None:
                return False, 'a caller does not pass the index'
            a = strip_cast(a)
            if f is xi and isinstance(a, ast.Name) and a.id == pname:
                continue            # handed down unchanged to the children
            for o in ([a] if not isinstance(a, ast.Name) else []) + [strip_cast(o) for o in q.local_origin(f.node, a)]:
                verdicts.append(_grouping_verdict(run, f, a, o))
    if not verdicts:
        return False, 'no construction of the index found'
    bad = [w for ok_, w in verdicts if not ok_]
    return (not bad), (bad[0] if bad else None)


def _grouping_verdict(run, f, name, o):
    """o: expression the index is bound to in function f."""
    if isinstance(o, ast.DictComp) and len(o.generators) == 1 and not o.generators[0].ifs:
        g = o.generators[0]
        src = strip_cast(g.iter)
        if isinstance(src, ast.Call) and dotted(src.func) in ('groupby', 'itertools.groupby'):
            seq = strip_cast(src.args[0]) if src.args else None
            key = q.arg(src, 1, 'key')
            if isinstance(seq, ast.Call) and dotted(seq.func) == 'sorted' and key is not None and q.arg(seq, None, 'key') is not None and \
                    q.unparse(q.arg(seq, None, 'key')) == q.unparse(key):
                return True, None
            return False, 'itertools.groupby only groups adjacent items: unless the sequence is sorted by the same key, later runs of a source overwrite earlier ones'
        if isinstance(strip_cast(o.value), ast.Call) and 'Statechart.transitions_from' in q.callee_shorts(run, strip_cast(o.value))[0] and \
                isinstance(g.target, ast.Name) and q.unparse(o.key) == g.target.id and strip_cast(o.value).args and q.unparse(strip_cast(o.value).args[0]) == g.target.id:
            return True, None
        return False, 'index built by an unrecognised comprehension'
    if isinstance(o, (ast.Dict, ast.Call)) and (isinstance(o, ast.Dict) and not o.keys or isinstance(o, ast.Call) and dotted(o.func) in (
            'dict', 'defaultdict', 'collections.defaultdict', 'OrderedDict', 'collections.OrderedDict')):
        # filled by a loop: every transition of the chart appended, unconditionally, under its source
        if not isinstance(name, ast.Name):
            return False, 'index built in place'
        for lp in q.walk(f.node, False):
            if not isinstance(lp, ast.For) or not isinstance(lp.target, ast.Name):
                continue
            srcs = [q.unparse(strip_cast(lp.iter))] + [q.unparse(strip_cast(x)) for x in q.local_origin(f.node, lp.iter)]
            if not any(s_.endswith('.transitions') or s_.endswith('._transitions') for s_ in srcs):
                continue
            for c in q.calls(lp):
                if isinstance(c.func, ast.Attribute) and c.func.attr == 'append' and c.args and q.unparse(c.args[0]) == lp.target.id and not guards(c, stop=lp):
                    recv = strip_cast(c.func.value)
                    lab = None
                    if isinstance(recv, ast.Subscript) and q.unparse(recv.value) == name.id:
                        lab = q.unparse(strip_cast(recv.slice))
                    elif isinstance(recv, ast.Call) and isinstance(recv.func, ast.Attribute) and recv.func.attr == 'setdefault' and q.unparse(recv.func.value) == name.id and recv.args:
                        lab = q.unparse(strip_cast(recv.args[0]))
                    if lab in (lp.target.id + '.source', lp.target.id + '._source'):
                        return True, None
        return False, 'no loop files every transition of the chart under its source'
    return False, 'index built in an unrecognised way'


def io_names(run, r):
    """Local names of the exporter / importer, derived from structure (robust against renaming of locals)."""
    xi = run.fn('_export_state_to_dict')
    X = xi.node
    rets = [n for n in q.walk(X, False) if isinstance(n, ast.Return) and isinstance(n.value, ast.Name)]
    run.anchor(len(rets) >= 1 and len({n.value.id for n in rets}) == 1, r, '`return <dict>` in _export_state_to_dict')
    data = rets[0].value.id
    tdata = None
    for c in q.calls(X):
        if isinstance(c.func, ast.Attribute) and c.func.attr == 'append' and isinstance(strip_cast(c.func.value), ast.Subscript) \
                and q.const_str(strip_cast(c.func.value).slice) == 'transitions' and c.args and isinstance(c.args[0], ast.Name):
            tdata = c.args[0].id
    if tdata is None:
        # the list is built in a local first:  acc = []; for ..: acc.append(<tdata>); data['transitions'] = acc
        for v, node in keys_written(X, data).get('transitions', []):
            v = strip_cast(v)
            if isinstance(v, ast.Name):
                for elt, it, conds, anode in q.accumulations(X, v.id):
                    if isinstance(elt, ast.Name) and not conds:
                        tdata = elt.id
    run.anchor(tdata, r, "dict appended to <data>['transitions'] in _export_state_to_dict")
    state_v = [st.targets[0].id for st in q.walk(X, False) if isinstance(st, ast.Assign) and isinstance(st.targets[0], ast.Name)
               and isinstance(strip_cast(st.value), ast.Call) and 'Statechart.state_for' in q.callee_shorts(run, strip_cast(st.value))[0]]
    run.anchor(len(state_v) == 1, r, 'local holding the exported state object')
    # the loop that builds one <tdata> per transition; what it runs over must be everything transitions_from(<state>) answers
    t_loops = []
    for st in q.walk(X, False):
        if isinstance(st, ast.Assign) and isinstance(st.targets[0], ast.Name) and st.targets[0].id == tdata:
            lp = q.enclosing(st, ast.For)
            if lp is not None and isinstance(lp.target, ast.Name) and lp not in t_loops:
                t_loops.append(lp)
    run.anchor(len(t_loops) == 1, r, 'loop building one dict per transition of the exported state')
    trans_v = [t_loops[0].target.id]
    src = [strip_cast(t_loops[0].iter)] + [strip_cast(o) for o in q.local_origin(X, t_loops[0].iter)]
    why_not = None
    from_query = True
    n_src = 0
    for v in src:
        if isinstance(v, ast.Name):
            continue
        n_src += 1
        if isinstance(v, ast.Call) and 'Statechart.transitions_from' in q.callee_shorts(run, v)[0]:
            continue
        ok_, why_ = _complete_index(run, xi, v)       # every other source the loop may range over must be a complete by-source index
        if not ok_:
            from_query, why_not = False, why_
    from_query = from_query and n_src >= 1
    if r.startswith('C11'):
      run.check(from_query, r, xi.short, 'the exported transitions of a state are those transitions_from(<state>) answers',
                'the transitions written for a state come from %s: %s' % (q.unparse(t_loops[0].iter)[:60],
                                                                       why_not or 'nothing guarantees that every transition leaving the state is among them'), t_loops[0])
    prio = None
    for v, node in keys_written(X, tdata).get('priority', []):
        if isinstance(v, ast.Name):
            prio = v.id
    ei = run.fn('export_to_dict')
    E = ei.node
    erets = [n for n in q.walk(E, False) if isinstance(n, ast.Return) and isinstance(n.value, ast.Dict) and len(n.value.values) == 1 and isinstance(n.value.values[0], ast.Name)]
    run.anchor(len(erets) == 1, r, "return {'statechart': <dict>} in export_to_dict")
    d = erets[0].value.values[0].id
    ii = run.fn('import_from_dict')
    I = ii.node
    sdata = None
    for st in q.walk(I, False):
        if isinstance(st, ast.Assign) and isinstance(st.targets[0], ast.Tuple) and isinstance(strip_cast(st.value), ast.Call) \
                and isinstance(strip_cast(st.value).func, ast.Attribute) and strip_cast(st.value).func.attr in ('pop', 'popleft') and isinstance(st.targets[0].elts[0], ast.Name):
            sdata = st.targets[0].elts[0].id
            work = dotted(strip_cast(st.value).func.value)
    run.anchor(sdata, r, 'state dict popped from the worklist in import_from_dict')
    si = run.fn('_import_state_from_dict')
    S = si.node
    sd = q.param_names(S)[0]

    def local_from_key(F_, dv, key):
        out = [st.targets[0].id for st in q.walk(F_, False) if isinstance(st, ast.Assign) and isinstance(st.targets[0], ast.Name)
               and key in keys_read_expr(st.value, dv)]
        return out[0] if out else None
    ti = run.fn('_import_transition_from_dict')
    td = q.param_names(ti.node)[1]
    # dict variable of the statechart level in import_from_dict: the name bound to <param>['statechart']
    ip = q.param_names(I)[0]
    scdata = ip
    for st in q.walk(I, False):
        if isinstance(st, ast.Assign) and isinstance(st.targets[0], ast.Name) and isinstance(strip_cast(st.value), ast.Subscript) \
                and q.unparse(strip_cast(st.value).value) == ip and q.const_str(strip_cast(st.value).slice) == 'statechart':
            scdata = st.targets[0].id
    if scdata == ip and any(isinstance(n, ast.Subscript) and q.unparse(n) == "%s['statechart']" % ip and isinstance(getattr(n, '_parent', None), (ast.Subscript, ast.Attribute))
                            for n in q.walk(I)):
        scdata = "%s['statechart']" % ip      # normal form: the explanatory local was substituted
    return {'scdata': scdata, 'data': data, 'tdata': tdata, 'state': state_v[0], 'transition': trans_v[0], 'statechart': q.param_names(X)[0], 'xprio': prio, 'd': d, 'sdata': sdata, 'work': work,
            'stype': local_from_key(S, sd, 'type'), 'substates': local_from_key(S, sd, 'states'), 'parallel': local_from_key(S, sd, 'parallel states'),
            'iprio': local_from_key(ti.node, td, 'priority'), 'sc_export': q.param_names(E)[0]}


def keys_read_expr(expr, dv):
    out = set()
    for n in ast.walk(expr):
        if isinstance(n, ast.Call) and isinstance(n.func, ast.Attribute) and n.func.attr == 'get' and q.unparse(strip_cast(n.func.value)) == dv \
                and n.args and q.const_str(n.args[0]) is not None:
            out.add(q.const_str(n.args[0]))
        if isinstance(n, ast.Subscript) and q.unparse(strip_cast(n.value)) == dv and q.const_str(n.slice) is not None:
            out.add(q.const_str(n.slice))
    return out


def export_maps(run, r, N):
    """-> {'state': {key: attr}, 'transition': {..}, 'contract': {..}, 'statechart': {..}}, plus kind tables."""
    fi = run.fn('_export_state_to_dict')
    F = fi.node
    out = {'state': {}, 'transition': {}, 'contract': {}, 'statechart': {}}
    nodes = {}

    def attr_of(val, F_):
        val = strip_cast(val)
        if isinstance(val, ast.Attribute) and isinstance(val.value, ast.Name):
            return val.attr
        if isinstance(val, ast.Name):
            attrs = set()
            for st, v in q.assigned_value(F_, val.id):
                v = strip_cast(v)
                if isinstance(v, ast.Attribute) and isinstance(v.value, ast.Name):
                    attrs.add(v.attr)
                elif isinstance(v, ast.Call) and isinstance(v.func, ast.Name) and v.func.id == 'getattr' and len(v.args) >= 2 and q.const_str(v.args[1]):
                    attrs.add(q.const_str(v.args[1]))
            if len(attrs) == 1:
                return attrs.pop()
        return None
    for level, var in (('state', N['data']), ('transition', N['tdata'])):
        for k, vals in keys_written(F, var).items():
            for v, node in vals:
                a = attr_of(v, F)
                if a is not None:
                    out[level].setdefault(k, set()).add(a)
                else:
                    out[level].setdefault(k, set())
                nodes[(level, k)] = node
    # contract items: {'before': c} built once per element c of <obj>.preconditions (loop + append, or comprehension / generator)
    def attr_of_iter(it, before_line):
        """Attribute of the model object an iterable denotes: getattr(x, 'attr', []) / x.attr, possibly through a local."""
        cands = [strip_cast(it)]
        if isinstance(cands[0], ast.Name):
            name = cands[0].id
            defs = [(st, v) for st, v in q.assigned_value(F, name) if st.lineno < before_line]
            if defs:
                cands = [strip_cast(max(defs, key=lambda t: t[0].lineno)[1])]     # reaching definition: the closest preceding assignment
        for v in cands:
            if isinstance(v, ast.Call) and isinstance(v.func, ast.Name) and v.func.id == 'getattr' and len(v.args) >= 2:
                return q.const_str(v.args[1])
            if isinstance(v, ast.Attribute):
                return v.attr
        return None
    def objs_of_iter(it):
        """The model objects an iterable of conditions may be read from: every definition that can reach it (the normal form has already
        substituted a local with a single reaching definition, so a remaining name stands for several)."""
        it = strip_cast(it)
        vals = [it]
        if isinstance(it, ast.Name):
            vals = [strip_cast(v) for st, v in q.assigned_value(F, it.id)] or [it]
        out_ = set()
        for v in vals:
            if isinstance(v, ast.Call) and isinstance(v.func, ast.Name) and v.func.id == 'getattr' and v.args:
                out_.add(q.unparse(strip_cast(v.args[0])))
            elif isinstance(v, ast.Attribute):
                out_.add(q.unparse(strip_cast(v.value)))
            else:
                out_.add('?' + q.unparse(v)[:30])
        return out_
    tloops = [lp for lp in q.walk(F, False) if isinstance(lp, ast.For) and isinstance(lp.target, ast.Name) and lp.target.id == N['transition']]
    for n in q.walk(F):
        if isinstance(n, ast.Dict) and len(n.keys) == 1 and q.const_str(n.keys[0]) in ('before', 'after', 'always') and isinstance(n.values[0], ast.Name):
            par_ = getattr(n, '_parent', None)
            it_ = par_.generators[0].iter if isinstance(par_, (ast.ListComp, ast.GeneratorExp)) and par_.elt is n else (q.enclosing(n, ast.For).iter if q.enclosing(n, ast.For) is not None else None)
            if it_ is not None:
                level_ = 'transition' if any(q.in_node(n, tl) for tl in tloops) else 'state'
                want_ = {N['transition']} if level_ == 'transition' else {N['state'], 'cast(StateMixin, %s)' % N['state']}
                got_ = objs_of_iter(it_)
                run.check(bool(got_) and got_ <= want_, r, fi.short, "'%s' conditions of the %s contract are read from the %s itself" % (q.const_str(n.keys[0]), level_, level_),
                          'the %s contract is built from the conditions of %s: a local holding them is rebound (by the transition loop) before it is used' % (level_, sorted(got_)), n)
            a = None
            par = getattr(n, '_parent', None)
            if isinstance(par, (ast.ListComp, ast.GeneratorExp)) and par.elt is n and len(par.generators) == 1 and not par.generators[0].ifs \
                    and isinstance(par.generators[0].target, ast.Name) and par.generators[0].target.id == n.values[0].id:
                a = attr_of_iter(par.generators[0].iter, n.lineno)
            else:
                lp = q.enclosing(n, ast.For)
                if lp is not None and isinstance(lp.target, ast.Name) and lp.target.id == n.values[0].id and not guards(n, stop=lp):
                    a = attr_of_iter(lp.iter, lp.lineno)
            out['contract'].setdefault(q.const_str(n.keys[0]), set()).add(a)
            nodes[('contract', q.const_str(n.keys[0]))] = n
    ei = run.fn('export_to_dict')
    for k, vals in keys_written(ei.node, N['d']).items():
        for v, node in vals:
            a = attr_of(v, ei.node)
            out['statechart'].setdefault(k, set())
            if a is not None:
                out['statechart'][k].add(a)
            nodes[('statechart', k)] = node
    return out, nodes


def import_maps(run, r):
    prog = run.prog
    out = {'state': {}, 'transition': {}, 'contract': {}, 'statechart': {}}
    strip = {}
    nodes = {}
    si = run.fn('_import_state_from_dict')
    S = si.node
    sd = q.param_names(S)[0]
    ti = run.fn('_import_transition_from_dict')
    T = ti.node
    td = q.param_names(T)[1]
    ii = run.fn('import_from_dict')
    I = ii.node

    def ctor_calls(F, dictvar, level):
        for c in q.calls(F, nested=False):
            if not isinstance(c.func, ast.Name):
                continue
            rr = prog._resolve_name(c.func.id, prog.func_of(c))
            if rr and rr[0] == 'callable_param' and prog.has_cls(rr[1]):
                rr = ('class', prog.cls(rr[1]))      # a factory parameter declared to build that class (statechart_class: Callable[..., Statechart])
            if not (rr and rr[0] == 'class'):
                continue
            ci = rr[1]
            init = prog.lookup(ci, '__init__')
            if init is None:
                continue
            pnames = [a.arg for a in init.node.args.args][1:]
            bound = [(pnames[i], a) for i, a in enumerate(c.args) if i < len(pnames)] + [(k.arg, k.value) for k in c.keywords if k.arg]
            for p, a in bound:
                keys, stripped = origin_keys(F, a, dictvar)
                attrs = {public_attr(prog, ci, x) for x in param_to_attrs(prog, ci, p)}
                for k in keys:
                    out[level].setdefault(k, set()).update(attrs)
                    strip.setdefault((level, k), set()).add(stripped)
                    nodes[(level, k)] = c
                    per_class.setdefault(ci.name, set()).add(k)
    per_class = {}
    out['per_class'] = per_class
    ctor_calls(S, sd, 'state')
    ctor_calls(T, td, 'transition')
    # statechart level
    dv = None
    for st, v in q.assigned_value(I, q.param_names(I)[0]):
        dv = q.param_names(I)[0]
    ctor_calls(I, io_names(run, r)['scdata'], 'statechart')
    # contract items
    for F, level_obj in ((S, 'state'), (T, 'transition')):
        for c in q.calls(F):
            if isinstance(c.func, ast.Attribute) and c.func.attr == 'append' and isinstance(c.func.value, ast.Attribute) \
                    and c.func.value.attr in ('preconditions', 'postconditions', 'invariants'):
                lp = q.enclosing(c, ast.For)
                cv = lp.target.id if lp is not None and isinstance(lp.target, ast.Name) else None
                keys, stripped = origin_keys(F, c.args[0], cv) if cv else (set(), False)
                at = guard_atoms(c, stop=lp)
                # (a test on a local that holds <item>.get('key') counts as a test of that key)
                at = [(a[0], q.unparse(q.local_origin(F, ast.Name(id=a[1], ctx=ast.Load()))[0]), a[2]) if a[1].isidentifier() and len(q.local_origin(F, ast.Name(id=a[1], ctx=ast.Load()))) == 1
                      else a for a in at]
                gk = {a[1].split("'")[1] for a in at if a[0] == 'truthy' and a[1].startswith(cv + '.get(') or a[0] == 'truthy' and a[1].startswith(cv + '[')} if cv else set()
                for k in keys:
                    out['contract'].setdefault(k, set()).add(c.func.value.attr)
                    strip.setdefault(('contract', k), set()).add(stripped)
                    nodes[('contract:' + level_obj, k)] = (c, gk)
    return out, strip, nodes


def rules_eq(run):
    r = run.rule('C11.5', 'in every __eq__ of model/elements.py each comparison `self.A == other.B` has A = B')
    n = 0
    cmp_n = 0
    for ci in run.prog.classes.values():
        if ci.module.name != 'sismic.model.elements':
            continue
        m = ci.methods.get('__eq__')
        if m is None:
            continue
        n += 1
        ps = q.param_names(m.node)
        sp, op = ps[0], ps[1]
        for c in q.walk(m.node):
            if isinstance(c, ast.Compare) and len(c.ops) == 1 and isinstance(c.ops[0], ast.Eq):
                l, rr = strip_cast(c.left), strip_cast(c.comparators[0])
                if isinstance(l, ast.Attribute) and isinstance(rr, ast.Attribute) and isinstance(l.value, ast.Name) and isinstance(rr.value, ast.Name) \
                        and {l.value.id, rr.value.id} == {sp, op}:
                    cmp_n += 1
                    run.check(l.attr == rr.attr, r, m.short, '%s.%s == %s.%s' % (l.value.id, l.attr, rr.value.id, rr.attr),
                              'compares attribute %s of one element with %s of the other: equal elements compare unequal (and unequal ones equal)' % (l.attr, rr.attr), c)
    run.floor(n, 9, r, '__eq__ methods in elements.py')
    run.floor(cmp_n, 9, r, 'attribute comparisons in __eq__ methods')
    # shape of the verdict: for an operand of the class itself the result is the conjunction of equalities (and of the bases' __eq__); otherwise NotImplemented
    n_eq = 0
    for ci in run.prog.classes.values():
        if ci.module.name not in ('sismic.model.elements', 'sismic.model.events'):
            continue
        m = ci.methods.get('__eq__')
        if m is None:
            continue
        n_eq += 1
        M = m.node
        sp, op = q.param_names(M)[:2]

        def leaf_ok(e, depth=0):
            e = strip_cast(e)
            if isinstance(e, ast.BoolOp):
                return isinstance(e.op, ast.And) and all(leaf_ok(v, depth + 1) for v in e.values)
            if isinstance(e, ast.Compare):
                return len(e.ops) == 1 and isinstance(e.ops[0], ast.Eq)
            if isinstance(e, ast.Call) and isinstance(e.func, ast.Attribute) and e.func.attr == '__eq__':
                return True
            if isinstance(e, ast.Constant) and e.value is True and depth > 0:
                return True      # the neutral start value of an accumulated conjunction
            if isinstance(e, ast.Name) and depth < 3:
                o = q.local_origin(M, e)
                return bool(o) and all(not (isinstance(x, ast.Name) and x.id == e.id) and leaf_ok(x, depth + 1) for x in o)
            return False
        verdicts = []
        for x in [x for x in q.walk(M, False) if isinstance(x, ast.Return) and x.value is not None]:
            for v_, at_ in q.cases(M, x.value):
                verdicts.append((x, strip_cast(v_), guard_atoms(x) + at_))
        has_override = any(any(a[0] == 'truthy' and a[1].replace(' ', '').startswith('isinstance(%s,' % op) for a in at_) for x_, v_, at_ in verdicts)
        for x, v, at in verdicts:
            if isinstance(v, ast.Constant) and v.value is True and any(not isinstance(v2_, ast.Constant) for x2_, v2_, at2_ in verdicts if x2_ is x):
                continue      # the neutral start value of an accumulated conjunction (overwritten by the first comparison)
            if not at and has_override and ((isinstance(v, ast.Name) and v.id == 'NotImplemented') or (isinstance(v, ast.Constant) and v.value is False)):
                run.ok(r, m.short, 'NotImplemented is the default, replaced for an operand of the class', x)
                continue
            inst = [a for a in at if a[1].replace(' ', '').startswith('isinstance(%s,' % op)]
            pos = [a for a in inst if a[0] == 'truthy']
            neg = [a for a in inst if a[0] == 'falsy']
            refusing = (isinstance(v, ast.Name) and v.id == 'NotImplemented') or (isinstance(v, ast.Constant) and v.value is False)
            marker = isinstance(v, ast.Call) and isinstance(v.func, ast.Name) and v.func.id == 'isinstance' and len(v.args) == 2 and q.unparse(v.args[0]) == op \
                and q.unparse(v.args[1]) == ci.name
            if marker and not at:
                run.ok(r, m.short, 'a field-less mixin: equal to every operand of its own kind', x)
            elif refusing:
                run.check(bool(neg) and not pos, r, m.short, 'NotImplemented only for a foreign operand', 'equality is refused for an operand of the class itself (%s)' % at, x)
            else:
                own = any(ci.name in a[1] for a in pos)
                run.check(own and not neg, r, m.short, 'comparison applies to operands of %s' % ci.name, 'the comparison runs for %s' % (at or 'every operand'), x)
                run.check(leaf_ok(v), r, m.short, 'the verdict is a conjunction of equalities: ' + q.unparse(v)[:50].replace('\n', ' '),
                          'the verdict is not the conjunction of the field equalities (a disjunction, a negation or an inequality makes unequal elements equal or equal ones unequal)', x)
    run.floor(n_eq, 10, r, '__eq__ methods of model elements and events')
    # concrete classes combine the __eq__ of all their mixins
    for ci in run.prog.classes.values():
        if ci.module.name != 'sismic.model.elements' or ci.name.endswith('Mixin') or ci.name == 'Transition':
            continue
        m = ci.methods.get('__eq__')
        if m is None:
            continue
        called = {dotted(c.func).split('.')[0] for c in q.calls(m.node) if isinstance(c.func, ast.Attribute) and c.func.attr == '__eq__' and dotted(c.func)}
        called = {x for x in called if run.prog.has_cls(x)}     # (loop variables of a table-driven form are accounted for below)
        called |= _eq_through_helper(run, m)
        bases = {b.name for b in ci.bases}
        run.check(called == bases, r, m.short, 'combines __eq__ of all its bases %s' % sorted(bases), 'combines %s' % sorted(called), m.node)
    tr = run.prog.cls('Transition').methods.get('__eq__')
    attrs = sorted({c.left.attr for c in q.walk(tr.node) if isinstance(c, ast.Compare) and isinstance(c.left, ast.Attribute)})
    run.check(attrs == ['action', 'event', 'guard', 'priority', 'source', 'target'] and any(
        isinstance(c.func, ast.Attribute) and c.func.attr == '__eq__' and dotted(c.func) == 'ContractMixin.__eq__' for c in q.calls(tr.node)), r, tr.short,
        'Transition equality covers source, target, event, guard, action, priority and the contract', 'covers %s' % attrs, tr.node)


def guard_atoms_of(g):
    from ..cfg import atoms as _atoms
    return _atoms(g[0], g[1])


def attr_of_local(F, name):
    """The model attribute a local list of conditions stands for (getattr(x, 'attr', []) / x.attr), when all its definitions agree."""
    attrs = set()
    for st, v in q.assigned_value(F, name):
        v = strip_cast(v)
        if isinstance(v, ast.Call) and isinstance(v.func, ast.Name) and v.func.id == 'getattr' and len(v.args) >= 2:
            attrs.add(q.const_str(v.args[1]))
        elif isinstance(v, ast.Attribute):
            attrs.add(v.attr)
        else:
            attrs.add(None)
    return attrs.pop() if len(attrs) == 1 else None


def _table_eq(h, is_seq):
    """True when function h applies <x>.__eq__(..) to every element x of the sequence denoted by expressions satisfying is_seq:
    a loop over it whose first statement makes the call, or an unpacking of it all of whose parts are covered."""
    def eq_called_on(name):
        return any(isinstance(x, ast.Call) and isinstance(x.func, ast.Attribute) and x.func.attr == '__eq__' and isinstance(x.func.value, ast.Name)
                   and x.func.value.id == name for x in ast.walk(h))

    def loop_covers(l):
        return isinstance(l.target, ast.Name) and eq_called_on(l.target.id) and any(isinstance(x, ast.Attribute) and x.attr == '__eq__' for x in ast.walk(l.body[0]))

    def name_seq_covered(seq):
        return any(loop_covers(l) for l in ast.walk(h) if isinstance(l, ast.For) and isinstance(strip_cast(l.iter), ast.Name) and strip_cast(l.iter).id == seq)
    for n in ast.walk(h):
        if isinstance(n, ast.For) and is_seq(strip_cast(n.iter)) and loop_covers(n):
            return True
        if isinstance(n, ast.Assign) and is_seq(strip_cast(n.value)) and isinstance(n.targets[0], (ast.Tuple, ast.List)):
            okp = True
            for t_ in n.targets[0].elts:
                if isinstance(t_, ast.Starred) and isinstance(t_.value, ast.Name):
                    okp = okp and name_seq_covered(t_.value.id)
                elif isinstance(t_, ast.Name):
                    okp = okp and eq_called_on(t_.id)
                else:
                    okp = False
            if okp:
                return True
    return False


def _eq_through_helper(run, m):
    """Classes whose __eq__ is applied table-driven: over a display (A, B, ..) of class names inside the method itself, or through a
    helper h(self, other, (A, B, ..)) that applies <x>.__eq__ to every element x of that parameter."""
    out = set()

    def is_display(e):
        return isinstance(e, (ast.Tuple, ast.List)) and e.elts and all(isinstance(x, ast.Name) for x in e.elts)
    for n in ast.walk(m.node):
        if is_display(n) and isinstance(getattr(n, 'ctx', None), ast.Load) and _table_eq(m.node, lambda e, n=n: e is n):
            out |= {x.id for x in n.elts}
    for c in q.calls(m.node):
        if not isinstance(c.func, ast.Name):
            continue
        targets = [t for t in run.prog.resolve_call(c, m)[0] if isinstance(t.node, ast.FunctionDef)]
        if len(targets) != 1:
            continue
        h = targets[0].node
        params = [a.arg for a in h.args.args]
        for i, a in enumerate(c.args):
            a = strip_cast(a)
            if is_display(a) and i < len(params) and _table_eq(h, lambda e, p_=params[i]: isinstance(e, ast.Name) and e.id == p_):
                out |= {e.id for e in a.elts}
    return out


def check(run):
    prog = run.prog
    r1 = run.rule('C11.1', 'per level, keys written by the exporter = keys read by the importer = keys admitted by SCHEMA')
    schema = SchemaModel(run, r1)
    N = io_names(run, r1)
    exp, enodes = export_maps(run, r1, N)
    imp, strip, inodes = import_maps(run, r1)
    si = run.fn('_import_state_from_dict')
    ti = run.fn('_import_transition_from_dict')
    ii = run.fn('import_from_dict')
    ei = run.fn('export_to_dict')
    xi = run.fn('_export_state_to_dict')
    sd = q.param_names(si.node)[0]
    td = q.param_names(ti.node)[1]
    read = {
        'state': set(keys_read(si.node, sd)) | set(keys_read(ii.node, N['sdata'])),
        'transition': set(keys_read(ti.node, td)),
        'statechart': set(keys_read(ii.node, N['scdata'])) | set(keys_read(ii.node, q.param_names(ii.node)[0])),
    }
    cread = set()
    for F in (si.node, ti.node):
        for lp in [n for n in q.walk(F, False) if isinstance(n, ast.For) and isinstance(n.target, ast.Name)]:
            cread |= set(keys_read(F, lp.target.id))
    read['contract'] = cread & {'before', 'after', 'always'} | (cread - {'before', 'after', 'always'})
    read['statechart'].discard('statechart')
    written = {
        'state': set(keys_written(xi.node, N['data'])),
        'transition': set(keys_written(xi.node, N['tdata'])),
        'statechart': set(keys_written(ei.node, N['d'])),
        'contract': set(exp['contract']),
    }
    sch = {'state': set(schema.levels.get('state', {})), 'transition': set(schema.levels.get('transition', {})),
           'statechart': set(schema.levels.get('statechart_inner', {})), 'contract': set(schema.levels.get('contract', {}))}
    floors = {'state': 8, 'transition': 5, 'statechart': 3, 'contract': 3}
    for level in ('statechart', 'state', 'transition', 'contract'):
        run.floor(len(written[level]), floors[level], r1, '%s-level keys written by the exporter' % level)
        for k in sorted(written[level] | read[level] | sch[level]):
            run.check(k in written[level] and k in read[level] and k in sch[level], r1, 'io', "%s key '%s' written, read and admitted" % (level, k),
                      "key '%s' (%s level): exporter %s, importer %s, schema %s" % (k, level, k in written[level], k in read[level], k in sch[level]),
                      enodes.get((level, k)) or inodes.get((level, k)) if not isinstance(inodes.get((level, k)), tuple) else None)
    # the wrapper key
    rets = [n for n in q.walk(ei.node, False) if isinstance(n, ast.Return)]
    run.check(len(rets) == 1 and isinstance(rets[0].value, ast.Dict) and [q.const_str(k) for k in rets[0].value.keys] == ['statechart'] and 'statechart' in keys_read(ii.node, q.param_names(ii.node)[0]),
              r1, 'io', "top-level key 'statechart' written and read", 'wrapper key differs', rets[0] if rets else ei.node)

    # the YAML writer and reader are configured identically
    yi = run.fn('import_from_yaml')
    yo = run.fn('export_to_yaml')
    cfgs = {}
    for f in (yi, yo):
        cs = [c for c in q.calls(f.node) if (dotted(c.func) or '').endswith('.YAML')]
        cfgs[f.short] = sorted((k.arg, q.unparse(k.value)) for c in cs for k in c.keywords) if len(cs) == 1 else None
    run.check(cfgs[yi.short] is not None and cfgs[yi.short] == cfgs[yo.short], r1, 'io', 'YAML() configured identically for dump and load: %s' % cfgs[yi.short],
              'reader %s, writer %s' % (cfgs[yi.short], cfgs[yo.short]), yo.node)
    dumps = [c for c in q.calls(yo.node) if isinstance(c.func, ast.Attribute) and c.func.attr == 'dump']
    run.check(len(dumps) == 1 and dumps[0].args and 'export_to_dict(' in q.unparse(dumps[0].args[0]) or len(dumps) == 1 and any('export_to_dict' in q.unparse(v) for v, st_ in q.alternatives(yo.node, dumps[0].args[0])),
              r1, yo.short, 'the dumped document is export_to_dict(statechart)', 'differs', yo.node)
    r2 = run.rule('C11.2', 'for each key, the attribute exported under it = the attribute the imported value is stored in')
    n = 0
    for level in ('statechart', 'state', 'transition', 'contract'):
        for k in sorted(set(exp[level]) & set(imp.get(level, {}))):
            ea, ia = exp[level][k], imp[level][k]
            if not ea and not ia:
                continue
            n += 1
            run.check(ea == ia and len(ea) == 1, r2, 'io', "%s key '%s' <-> attribute %s" % (level, k, sorted(ia)),
                      "exported from %s but imported into %s" % (sorted(ea), sorted(ia)), enodes.get((level, k)))
        for k in sorted(set(imp[level]) - set(exp[level])):
            run.fail(r2, 'io', "%s key '%s' imported but its attribute is not exported" % (level, k), 'attribute %s lost on export' % sorted(imp[level][k]), None)
    run.floor(n, 14, r2, 'key <-> attribute pairs')
    # per state class: every key the importer feeds into the constructor of that class is exported for that class
    per_class = imp.get('per_class', {})
    for cname, keys in sorted(per_class.items()):
        if not prog.is_subclass(cname, 'StateMixin'):
            continue
        keys = set(keys)
        if prog.is_subclass(cname, 'ContractMixin'):
            keys.add('contract')      # the importer appends contract items to every state it builds
        applicable = set()
        for k, vals in keys_written(xi.node, N['data']).items():
            for v, node in vals:
                okk = True
                for a in guard_atoms(node):
                    txt = a[1].replace(' ', '')
                    if txt.startswith('isinstance(%s,' % N['state']):
                        klass = txt[len('isinstance(%s,' % N['state']):-1]
                        sub = any(prog.is_subclass(cname, k_) for k_ in klass.strip('()').split(','))
                        if (a[0] == 'truthy' and not sub) or (a[0] == 'falsy' and sub):
                            okk = False
                if okk:
                    applicable.add(k)
        for k in sorted(keys):
            run.check(k in applicable, r2, 'exporter', "key '%s' is exported for %s" % (k, cname), "%s takes '%s' on import but the exporter never writes it for that class" % (cname, k), xi.node)
        # .. and conversely: what the exporter writes for a state of this class and some constructor takes, this class's constructor call takes too
        universe = set()
        for c2, ks2 in per_class.items():
            if prog.is_subclass(c2, 'StateMixin'):
                universe |= set(ks2)
        for k in sorted((applicable & universe) - set(per_class.get(cname, ()))):
            run.fail(r2, 'state importer', "key '%s' of a %s is handed to its constructor" % (k, cname),
                     "the exporter writes '%s' for a %s but the importer builds %s without it: the field is lost on re-import" % (k, cname, cname), si.node)
    # contract import: guard key = value key
    for (lv, k), val in inodes.items():
        if lv.startswith('contract:'):
            c, gk = val
            run.check(gk == {k}, r2, lv.split(':')[1] + ' importer', "contract item tested and read under the same key '%s'" % k, 'tested %s, read %s' % (sorted(gk), k), c)
    # export: field conditions guard the same attribute they export
    for (level, k), node in enodes.items():
        if level in ('state', 'transition', 'statechart') and isinstance(node, ast.Assign):
            at = guard_atoms(node)
            vals = exp[level].get(k, set())
            for a in at:
                if a[0] == 'truthy' and '.' in a[1] and a[1].split('.')[0] in (N['state'], N['transition'], N['sc_export'], N['statechart']) and vals and a[1].count('.') == 1:
                    run.check(a[1].split('.')[1] in vals, r2, 'exporter', "'%s' exported when its own attribute is set" % k, 'guarded by %s' % a[1], node)

    # .. and never by the attribute being empty
    owners = (N['state'], N['transition'], N['sc_export'], N['statechart'])
    for (level, k), node in enodes.items():
        if level in ('state', 'transition', 'statechart') and isinstance(node, ast.Assign):
            vals = exp[level].get(k, set())
            for a in guard_atoms(node):
                if a[0] == 'falsy' and a[1].count('.') == 1 and a[1].split('.')[0] in owners and a[1].split('.')[1] in vals:
                    run.fail(r2, 'exporter', "'%s' exported when its own attribute is set" % k, "'%s' is written only when %s is empty: the field is lost on export" % (k, a[1]), node)
    # contracts: per level (state / transition) the three kinds are exported, under `any of the three lists is non-empty` (or always), and imported
    KINDS = {'before': 'preconditions', 'after': 'postconditions', 'always': 'invariants'}
    X = xi.node
    tloops_ = [lp for lp in q.walk(X, False) if isinstance(lp, ast.For) and isinstance(lp.target, ast.Name) and lp.target.id == N['transition']]
    seen_kinds = {'state': {}, 'transition': {}}
    for n_ in q.walk(X):
        if isinstance(n_, ast.Dict) and len(n_.keys) == 1 and q.const_str(n_.keys[0]) in KINDS:
            lv_ = 'transition' if any(q.in_node(n_, tl) for tl in tloops_) else 'state'
            seen_kinds[lv_].setdefault(q.const_str(n_.keys[0]), []).append(n_)
    for lv_ in ('state', 'transition'):
        run.check(set(seen_kinds[lv_]) == set(KINDS) and all(len(v) == 1 for v in seen_kinds[lv_].values()), r2, 'exporter', 'the %s contract exports before / after / always items, each once' % lv_,
                  'the %s contract exports %s' % (lv_, {k: len(v) for k, v in seen_kinds[lv_].items()}), X)
        for kind_, nodes_ in seen_kinds[lv_].items():
            for n_ in nodes_:
                par_ = getattr(n_, '_parent', None)
                added = (isinstance(par_, ast.Call) and isinstance(par_.func, ast.Attribute) and par_.func.attr == 'append' and n_ in par_.args) or \
                    (isinstance(par_, (ast.ListComp, ast.GeneratorExp)) and par_.elt is n_)
                run.check(added, r2, 'exporter', "'%s' items are added to the exported %s contract" % (kind_, lv_), 'the item is not appended (%s)' % q.unparse(par_)[:50], n_)
                lp_ = q.enclosing(n_, ast.For)
                stop_ = lp_ if lp_ is not None and not any(lp_ is tl for tl in tloops_) else None
                inner = [g for g in guards(n_, stop=stop_)] if stop_ is not None else []
                run.check(not inner, r2, 'exporter', "every '%s' condition of the %s is exported" % (kind_, lv_), 'conditional on %s' % [q.unparse(g[0])[:40] for g in inner], n_)
    var_of = {'state': N['data'], 'transition': N['tdata']}
    obj_of = {'state': N['state'], 'transition': N['transition']}
    for lv_ in ('state', 'transition'):
        for v_, node in keys_written(X, var_of[lv_]).get('contract', []):
            own_ = obj_of[lv_]

            def classify_c(op, l, r_, e, own_=own_):
                txt = l.replace(' ', '')
                for kind_, attr_ in KINDS.items():
                    if op == 'truthy' and txt in ("getattr(%s,'%s',[])" % (own_, attr_), '%s.%s' % (own_, attr_), "getattr(cast(StateMixin,%s),'%s',[])" % (own_, attr_)):
                        return attr_.upper()
                if op == 'truthy' and txt.startswith('isinstance(%s,' % own_):
                    return 'KIND:' + txt
                return None
            stop_ = next((tl for tl in tloops_ if q.in_node(node, tl)), None)
            gl = [(g[0], g[1], g[2]) for g in guards(node, stop=stop_)]
            # locals holding the three lists (several definitions: not substituted by the normal form)
            ba = q.BoolAbs(classify_c)
            vs, sat = ba.table(gl)
            cvars = [v for v in vs if not v.startswith('KIND:')]
            names_ok = True
            if any(v.startswith('?') for v in cvars):
                # tests on locals: resolve each through the definitions that can reach it
                res = {}
                for v in cvars:
                    if v.startswith('?'):
                        nm = v[1:].split(' ')[0]
                        attrs_ = {attr_of_local(X, nm)}
                        res[v] = attrs_
                names_ok = all(len(a_) == 1 and None not in a_ for a_ in res.values())
                cvars = [next(iter(res[v])).upper() if v in res and names_ok else v for v in cvars]
            if not gl or not cvars:
                run.ok(r2, 'exporter', 'the %s contract is written unconditionally' % lv_, node)
                continue
            stored_ = strip_cast(v_)
            if isinstance(stored_, ast.Name) and [(a_[0], a_[1]) for g_ in gl for a_ in guard_atoms_of(g_)] == [('truthy', stored_.id)]:
                # written when the list that was just built (every item of the three kinds, checked above) is non-empty: the same condition
                run.ok(r2, 'exporter', 'the %s contract is written when the built list is non-empty' % lv_, node)
                continue
            # the condition, over the three "list is non-empty" atoms, must be their disjunction
            idx = {v: i for i, v in enumerate(vs)}
            bad_ = False
            for mask in range(1 << len(vs)):
                val = {v: bool(mask >> i & 1) for i, v in enumerate(vs)}
                if not all(val[v] for v in vs if v.startswith('KIND:')):
                    continue
                got = frozenset(v for v in vs if val[v]) in sat
                want_ = any(val[v] for v in vs if not v.startswith('KIND:'))
                bad_ = bad_ or got != want_
            run.check(not bad_ and names_ok and sorted(set(cvars)) == sorted(a_.upper() for a_ in KINDS.values()), r2, 'exporter',
                      'the %s contract is written when any of the three condition lists is non-empty' % lv_,
                      'the %s contract is written under %s' % (lv_, [q.unparse(g[0])[:60] for g in gl]), node)
    for lv_, F_ in (('state', si.node), ('transition', ti.node)):
        # every object the importer hands back went through the contract loop
        cl = [n for n in q.walk(F_, False) if isinstance(n, ast.For) and any("'contract'" in q.unparse(o_) for o_ in [n.iter] + q.local_origin(F_, n.iter))]
        run.check(len(cl) == 1, r2, lv_ + ' importer', "one loop over the 'contract' items", 'found %d' % len(cl), F_)
        if len(cl) == 1:
            from ..cfg import build_cfg as _bc
            cfg_ = _bc(F_)
            for rt_ in [x for x in q.walk(F_, False) if isinstance(x, ast.Return) and x.value is not None]:
                run.check(cfg_.dominates(cfg_.node_of(cl[0]), cfg_.node_of(rt_)), r2, lv_ + ' importer', 'the contract is imported before the %s is returned' % lv_,
                          'a %s is returned without its contract (early return before the contract items are read)' % lv_, rt_)
        got_ = {k: v[0] for (l_, k), v in inodes.items() if l_ == 'contract:' + lv_}
        run.check(set(got_) == set(KINDS), r2, lv_ + ' importer', 'before / after / always items of a %s contract are all imported' % lv_, 'imports only %s' % sorted(got_), F_)
        for k_, c_ in got_.items():
            run.check(c_.func.value.attr == KINDS[k_] and c_.func.attr == 'append', r2, lv_ + ' importer', "'%s' items are appended to %s" % (k_, KINDS[k_]),
                      "'%s' items go to %s.%s" % (k_, c_.func.value.attr, c_.func.attr), c_)

    r3 = run.rule('C11.3', 'kind maps are inverse: type strings <-> state classes, children key <-> composite class, symbolic priorities <-> constants; same strings in SCHEMA')
    imp_types = {}
    for c in q.calls(si.node, nested=False):
        if isinstance(c.func, ast.Name) and prog.has_cls(c.func.id) and prog.is_subclass(c.func.id, 'StateMixin'):
            at = guard_atoms(c)
            for a in at:
                if a[0] == '==' and N['stype'] in (a[1], a[2]):
                    lit = a[2] if a[1] == N['stype'] else a[1]
                    imp_types[lit.strip("'")] = c.func.id
                if a[0] == 'truthy' and a[1] in (N['substates'], N['parallel']):
                    key = list(origin_keys(si.node, ast.Name(id=a[1], ctx=ast.Load()), sd)[0])
                    if key:
                        imp_types['children:' + key[0]] = c.func.id
    exp_types = {}
    for k in ('type', 'states', 'parallel states'):
        for v0, node in keys_written(xi.node, N['data']).get(k, []):
            pre = 'isinstance(%s,' % N['state']
            for v, c_at in (q.cases(xi.node, v0) if k == 'type' else [(v0, [])]):
                at = guard_atoms(node) + c_at
                # the classes the state is known to belong to: every positive test narrows the set, negative tests remove members
                sets = [set(a[1].replace(' ', '')[len(pre):-1].strip('()').split(',')) for a in at if a[0] == 'truthy' and a[1].replace(' ', '').startswith(pre)]
                sets = [{c_ for c_ in s_ if not c_.endswith('Mixin')} for s_ in sets]
                sets = [s_ for s_ in sets if s_]
                neg = set()
                for a in at:
                    if a[0] == 'falsy' and a[1].replace(' ', '').startswith(pre):
                        neg |= set(a[1].replace(' ', '')[len(pre):-1].strip('()').split(','))
                cand = None
                for s_ in sets:
                    cand = set(s_) if cand is None else ((cand & s_) or cand)
                cand = (cand or set()) - neg
                one = next(iter(cand)) if len(cand) == 1 else None
                if k == 'type':
                    lit = q.const_str(v)
                    exp_types[lit if lit is not None else '?' + q.unparse(v)[:40]] = one
                else:
                    exp_types['children:' + k] = one
    run.floor(len(imp_types), 5, r3, 'kind selections in the importer')
    for k in sorted(set(imp_types) | set(exp_types)):
        run.check(imp_types.get(k) == exp_types.get(k) and imp_types.get(k) is not None, r3, 'io', "kind '%s' <-> %s" % (k, imp_types.get(k)),
                  'importer builds %s, exporter writes it for %s' % (imp_types.get(k), exp_types.get(k)), None)
    st_enum, other = SchemaModel.enum_of(schema.levels['state']['type']['value']) if 'type' in schema.levels.get('state', {}) else (None, [])
    tys = sorted(k for k in imp_types if not k.startswith('children:'))
    run.check(st_enum is not None and sorted(st_enum) == tys and not other, r3, 'SCHEMA', 'SCHEMA type enumeration = %s' % tys, 'schema admits %s / %s' % (st_enum, other), schema.node)
    # priorities
    pr_imp = {}
    for st, v in q.assigned_value(ti.node, N['iprio'] or '?'):
        at = guard_atoms(st)
        for a in at:
            if a[0] == '==' and N['iprio'] in (a[1], a[2]):
                lit = (a[2] if a[1] == N['iprio'] else a[1]).strip("'")
                pr_imp[lit] = q.unparse(v)
    if not pr_imp:
        # the mapping is written as a case split of the value handed to Transition(.., priority)
        for c_ in q.calls(ti.node, nested=False):
            if isinstance(c_.func, ast.Name) and c_.func.id == 'Transition':
                parg = q.arg(c_, 5, 'priority')
                for v, at in (q.cases(ti.node, parg) if parg is not None else []):
                    for a in at:
                        if a[0] == '==' and (N['iprio'] in (a[1], a[2]) or 'priority' in a[1] + a[2]):
                            lit = (a[2] if a[2].startswith("'") else a[1]).strip("'")
                            pr_imp[lit] = q.unparse(v)
    pr_exp = {}
    tprio = N['transition'] + '.priority'
    for st, v in q.assigned_value(xi.node, N['xprio'] or '?'):
        at = guard_atoms(st)
        lit = q.const_str(v)
        for a in at:
            if a[0] == '==' and tprio in (a[1], a[2]) and lit:
                pr_exp[lit] = a[2] if a[1] == tprio else a[1]
    run.check(pr_imp == pr_exp and set(pr_imp) == {'low', 'high'} and pr_imp.get('low') == 'Transition.LOW_PRIORITY' and pr_imp.get('high') == 'Transition.HIGH_PRIORITY', r3, 'io',
              'symbolic priorities low/high <-> LOW_PRIORITY/HIGH_PRIORITY in both directions', 'importer %s, exporter %s' % (pr_imp, pr_exp), None)
    pe, pother = SchemaModel.enum_of(schema.levels['transition']['priority']['value']) if 'priority' in schema.levels.get('transition', {}) else (None, [])
    run.check(pe is not None and sorted(pe) == ['high', 'low'] and pother == ['schema.Use(int)'], r3, 'SCHEMA', 'SCHEMA priority = int | high | low', 'schema admits %s / %s' % (pe, pother), schema.node)
    tcl = prog.cls('Transition')
    consts = {n.targets[0].id: q.unparse(n.value) for n in tcl.node.body if isinstance(n, ast.Assign) and isinstance(n.targets[0], ast.Name)}
    run.check(consts.get('LOW_PRIORITY') == '-1' and consts.get('DEFAULT_PRIORITY') == '0' and consts.get('HIGH_PRIORITY') == '1', r3, 'Transition', 'LOW < DEFAULT < HIGH priority constants',
              'constants are %s' % consts, tcl.node)
    # numeric priorities and the default
    dflt = [(st, v) for st, v in q.assigned_value(xi.node, N['xprio'] or '?') if q.const_str(v) is None]
    run.check(len(dflt) == 1 and q.unparse(dflt[0][1]) == tprio, r3, 'exporter', 'other priorities exported as numbers', 'differs', xi.node)

    r4 = run.rule('C11.4', 'all name-bearing fields (state name, target, initial, memory) receive the same normalisation on import; stripping is confined to code-bearing fields')
    norm = {}
    for (level, k), ss in strip.items():
        if k in NAME_KEYS and level in ('state', 'transition'):
            norm[(level, k)] = ss
    run.floor(len(norm), 4, r4, 'name-bearing imported fields')
    allv = set()
    for v in norm.values():
        allv |= v
    run.check(len(allv) == 1, r4, 'importer', 'uniform normalisation of %s' % sorted(k for _, k in norm), 'normalisations differ: %s' % {k: sorted(v) for k, v in norm.items()}, None)
    for (level, k), ss in sorted(strip.items()):
        if k in CODE_KEYS:
            run.check(ss == {True}, r4, 'importer', "code field '%s' is stripped" % k, 'not stripped consistently', None)
    run.guard(rules_eq, run)
    from .c16 import rules_caches
    run.guard(rules_caches, run, 'C11', '.7')
    run.note('C11.6 behaves identically after re-import: the importer registers children in reverse document order; harmless exactly when C07.1 holds (dependency)')
