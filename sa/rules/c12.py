"""C12 YAML import accepts only structurally sound statecharts."""
import ast

from .. import q
from ..cfg import guards, guard_atoms, build_cfg
from ..prog import strip_cast, dotted
from ..tables import SchemaModel

EXPLANATION = (
    'Static rules over import_from_yaml / import_from_dict / the dict builders, Statechart.add_state / add_transition / validate and '
    'SCHEMA: an obligation table with one line per structural rule of the statement; each line names the facts the rejecting test must '
    'read and the paths it applies to, and the set of such tests must collectively dominate the registration write (graph cut on the '
    'CFG); every object built by the importer flows to add_state / add_transition; validate() runs unless explicitly disabled and calls '
    'both sub-validators; every explicit raise reachable from import_from_yaml raises StatechartError (two argument-misuse TypeErrors '
    'listed), schema errors and builder errors are converted, the parsed document is not operated on before the schema has seen it; SCHEMA admits no wildcard key, requires name and root state and uses '
    'closed enumerations. Decides that each rule has a rejecting test on every applicable path; malformed YAML is out of scope.')


def _reject_tests(F, pred, exc=('StatechartError',)):
    """If-statements of F whose body raises (one of exc) and whose own test satisfies pred(test)."""
    out = []
    for n in q.walk(F, False):
        if isinstance(n, ast.If) and any(isinstance(x, ast.Raise) and q.raised_class(x) in exc for x in n.body) and pred(n.test):
            out.append(n)
    return out


def _isinstance_subjects(test):
    """(subject text, class names, call node) of every isinstance(..) call inside a test"""
    out = []
    for n in ast.walk(test):
        if isinstance(n, ast.Call) and isinstance(n.func, ast.Name) and n.func.id == 'isinstance' and len(n.args) == 2:
            ks = [q.unparse(e) for e in n.args[1].elts] if isinstance(n.args[1], ast.Tuple) else [q.unparse(n.args[1])]
            out.append((q.unparse(n.args[0]), ks, n))
    return out


def _txt(test):
    return q.unparse(test).replace(' ', '')


def _own_atoms(node, ignore_names):
    """Guard atoms of node, without those that only talk about the given names (argument-misuse early exits)."""
    out = []
    for a in guard_atoms(node):
        try:
            names = {x.id for x in ast.walk(ast.parse(a[1], mode='eval')) if isinstance(x, ast.Name)}
        except SyntaxError:
            names = {'?'}
        if names and names <= set(ignore_names):
            continue
        out.append(a)
    return out


def rules_registration(run, P='C12', rid='.1'):
    r = run.rule(P + rid, 'obligation table: each structural rule has a rejecting test whose condition reads the relevant facts and which, together with '
                          'its siblings, cuts every applicable path to the registration write')
    prog = run.prog
    fi = run.fn('Statechart.add_state')
    F = fi.node
    cfg = build_cfg(F)
    sp, pp = q.param_names(F)[1:3]
    regs = [n for c, f, k, n in prog.direct_writes(fi) if c == 'Statechart' and f == '_states']
    run.anchor(len(regs) == 1, r, 'registration write self._states[state.name] = state in add_state')
    W = cfg.node_of(regs[0])
    run.check(q.unparse(regs[0].targets[0]) == 'self._states[%s.name]' % sp and q.unparse(regs[0].value) == sp, r, fi.short, 'registration stores the state under its name', 'differs', regs[0])

    def cutcheck(tests, label, why):
        nodes = [cfg.node_of(t) for t in tests]
        run.check(bool(tests) and cfg.cut(nodes, W), r, fi.short, label, why, regs[0])
    uniq = _reject_tests(F, lambda t: (sp + '.name') in _txt(t) and '_states' in _txt(t) and isinstance(strip_cast(t), ast.Compare)
                         and isinstance(strip_cast(t).ops[0], ast.In))
    cutcheck(uniq, 'unique name: rejected when state.name is already registered (all paths)', 'a duplicate state name can be registered')
    named = _reject_tests(F, lambda t: q.canon_atom(t) in (('is', sp + '.name', 'None', True), ('truthy', sp + '.name', '', False)))
    cutcheck(named, 'state must have a name (all paths)', 'a nameless state can be registered')
    root = _reject_tests(F, lambda t: 'self.root' in _txt(t))
    for t in root:
        run.check([a for a in guard_atoms(t) if a[1] == pp] == [('falsy', pp, '')], r, fi.short, 'single root: tested on the no-parent path', 'root test under %s' % guard_atoms(t), t)
    for t in root:
        run.check(q.canon_atom(t.test) in (('truthy', 'self.root', '', True), ('is', 'self.root', 'None', False)), r, fi.short,
                  'a second root is rejected whenever a root exists', 'root test is %s' % q.unparse(t.test), t)
    # with a parent: rejected iff the parent is not composite, or the state is a history state and the parent is not a compound state - compared as
    # a truth table over the three class tests, whatever the number and the shape of the rejecting if-statements
    kind_tests = _reject_tests(F, lambda t: any(k in _txt(t) for k in ('CompositeStateMixin', 'CompoundState', 'HistoryStateMixin')))
    with_parent = [t for t in kind_tests if ('truthy', pp, '') in guard_atoms(t)]
    without_parent = [t for t in kind_tests if ('falsy', pp, '') in guard_atoms(t)]
    subj_ok = True

    def classify_k(op, l, r_, e):
        txt = l.replace(' ', '')
        if op == 'truthy' and txt.startswith('isinstance(') and txt.endswith(',CompositeStateMixin)'):
            return 'COMPOSITE'
        if op == 'truthy' and txt.startswith('isinstance(') and txt.endswith(',CompoundState)'):
            return 'COMPOUND'
        if op == 'truthy' and txt == 'isinstance(%s,HistoryStateMixin)' % sp:
            return 'HIST'
        return None
    ba = q.BoolAbs(classify_k)
    for t in with_parent:
        ba.ev(t.test, {})
    vs = list(ba.vars)
    bad = []
    for mask in range(1 << len(vs)):
        val = {v: bool(mask >> i_ & 1) for i_, v in enumerate(vs)}
        if val.get('COMPOUND') and not val.get('COMPOSITE', True):
            continue      # a compound state is a composite state
        got = any(ba.ev(t.test, val) for t in with_parent)
        want_ = (not val.get('COMPOSITE', False)) or (val.get('HIST', False) and not val.get('COMPOUND', False))
        if got != want_:
            bad.append(val)
    run.check(bool(with_parent) and not bad and set(vs) == {'COMPOSITE', 'COMPOUND', 'HIST'}, r, fi.short,
              'with a parent: rejected iff the parent is not composite or a history state gets a non-compound parent', 'rejection condition differs (atoms %s, e.g. %s)' % (vs, bad[:1]), F)
    comp = with_parent
    for t in with_parent:
        for subj, ks, node in _isinstance_subjects(t.test):
            if subj != sp:
                o = [q.unparse(x) for x in q.local_origin(F, ast.Name(id=subj, ctx=ast.Load()))] if subj.isidentifier() else [subj]
                run.check(any('state_for(%s)' % pp in x for x in o), r, fi.short, 'parent looked up with state_for(parent) (rejects unknown parents)', 'parent object comes from %s' % o, t)
    cutcheck(root + comp, 'every path passes the single-root test or the composite-parent test', 'a second root, or a child of a non-composite state, can be registered')
    hist = [t for t in kind_tests if 'isinstance(%s,HistoryStateMixin)' % sp in _txt(t.test)]
    cutcheck(hist, 'history state needs a compound parent: tested on every path',
             'the no-parent branch reaches the registration without any test on HistoryStateMixin: a history state is accepted as root state')
    for t in without_parent:
        c_ = q.canon_atom(t.test)
        run.check(c_ is not None and c_[0] == 'truthy' and c_[1].replace(' ', '') == 'isinstance(%s,HistoryStateMixin)' % sp and c_[3], r, fi.short,
                  'without a parent: a history state is rejected', 'test is %s' % q.unparse(t.test), t)
    # co-registration
    wr = {(f, k) for c, f, k, n in prog.direct_writes(fi) if c == 'Statechart'}
    run.check({('_states', 'item-assign'), ('_parent', 'item-assign'), ('_children', 'item-assign'), ('_children', 'mut-elem:append')} <= wr, r, fi.short,
              'registration updates _states, _parent, _children and the parent\'s children list', 'writes are %s' % sorted(wr), regs[0])
    from .c16 import derived_caches
    memo_fields = set(derived_caches(prog))
    for c, f, k, n in prog.direct_writes(fi):
        if c == 'Statechart':
            if f in memo_fields and k in ('mut:clear', 'mut:pop') or (f in memo_fields and k == 'assign' and isinstance(getattr(n, 'value', None), (ast.Dict, ast.Constant))):
                continue      # forgetting memoised query results is not observable: it may happen before the tests (completeness of invalidation: C16.7)
            run.check(n is regs[0] or cfg.dominates(W, cfg.node_of(n)), r, fi.short, 'write %s %s after all tests' % (f, k), 'a structure is written before the tests', n)

    # add_transition
    ti = run.fn('Statechart.add_transition')
    T = ti.node
    tcfg = build_cfg(T)
    tp = q.param_names(T)[1]
    apps = [n for c, f, k, n in prog.direct_writes(ti) if c == 'Statechart' and f == '_transitions']
    run.anchor(len(apps) == 1, r, 'registration self._transitions.append(transition)')
    TW = tcfg.node_of(apps[0])
    src_lookup = [c for c in q.calls_to(run, T, {'Statechart.state_for'}) if c.args and q.unparse(c.args[0]) == tp + '.source']
    run.check(len(src_lookup) == 1 and tcfg.dominates(tcfg.node_of(src_lookup[0]), TW), r, ti.short, 'source must exist: state_for(transition.source) dominates the registration',
              'a transition from an unknown state can be registered', apps[0])
    tries = [n for n in q.walk(T, False) if isinstance(n, ast.Try)]
    for t in tries:
        for h in t.handlers:
            rs = [x for st in h.body for x in ast.walk(st) if isinstance(x, ast.Raise)]
            run.check(len(rs) == 1 and q.raised_class(rs[0]) == 'StatechartError', r, ti.short, 'failed lookup re-raised as StatechartError', 'handler does not re-raise', h)
    owner = _reject_tests(T, lambda t: 'TransitionStateMixin' in _txt(t) and _txt(t).startswith('notisinstance('))
    run.check(bool(owner) and tcfg.cut([tcfg.node_of(t) for t in owner], TW), r, ti.short, 'source must be able to own transitions (all paths)',
              'a transition can be registered on a final/history state', apps[0])
    for t in owner:
        subj = _txt(t.test)[len('notisinstance('):].split(',')[0]
        o = [q.unparse(x) for x in q.local_origin(T, ast.Name(id=subj, ctx=ast.Load()))]
        run.check(any('state_for(%s.source)' % tp in x for x in o), r, ti.short, 'the tested object is the source state', 'tested object comes from %s' % o, t)

    def classify(op, l, r_, e):
        if op == 'is' and l == tp + '.target' and r_ == 'None':
            return 'INTERNAL'
        if op == 'truthy' and l == tp + '.target':
            return ('INTERNAL', False)
        if op == 'truthy' and l == tp + '.internal':
            return 'INTERNAL'
        if op == 'in' and l == tp + '.target' and r_ in ('self._states', 'self._states.keys()', 'self.states'):
            return 'KNOWN'
        return None
    tgt = _reject_tests(T, lambda t: (tp + '.target') in _txt(t) and '_states' in _txt(t) or (tp + '.target') in _txt(t) and 'self.states' in _txt(t))
    run.check(bool(tgt) and tcfg.cut([tcfg.node_of(t) for t in tgt], TW), r, ti.short, 'target must exist unless internal (all paths)', 'a transition to an unknown state can be registered', apps[0])
    for t in tgt:
        ba = q.BoolAbs(classify)
        vs, sat = ba.table([(t.test, True, 'if')])
        bad = q.table_equals(vs, sat, lambda v: not v.get('INTERNAL', False) and not v.get('KNOWN', False))
        run.check(not bad and set(vs) == {'INTERNAL', 'KNOWN'}, r, ti.short, 'rejected iff external and target unknown', 'condition differs (%s)' % vs, t)
    run.check(q.unparse(apps[0].args[0]) == tp and q.enclosing(apps[0], (ast.If, ast.For, ast.While, ast.Try)) is None, r, ti.short, 'the transition itself is registered', 'differs', apps[0])


def rules_validate(run, r):
    prog = run.prog

    def table(fi, classify, spec, known, label, why):
        V = fi.node
        lp = [n for n in q.walk(V, False) if isinstance(n, ast.For)]
        run.anchor(len(lp) == 1 and '_states' in q.unparse(lp[0].iter), r, 'loop over all states in ' + fi.short)
        L = lp[0]
        run.check(not any(isinstance(x, (ast.Break, ast.Return)) for x in ast.walk(L)), r, fi.short, 'every state is examined', 'the loop can stop early', L)
        rz = [x for x in q.raises_in(V) if q.raised_class(x) == 'StatechartError']
        run.check(len(rz) >= 1 and all(q.in_node(x, L) for x in rz), r, fi.short, 'rejections happen while the states are examined', 'no StatechartError raised in the loop', V)
        ba = q.BoolAbs(classify)
        dnfs = [q.reach_dnf(x, stop=L) for x in rz]
        for d_ in dnfs:
            for conj in d_:
                for e_, pol in conj:
                    ba.ev(e_, {})
        vs = list(ba.vars)
        bad = []
        for mask in range(1 << len(vs)):
            val = {v: bool(mask >> i_ & 1) for i_, v in enumerate(vs)}
            got = any(q.dnf_holds(ba, d_, val) for d_ in dnfs)
            if got != bool(spec(val)):
                bad.append(val)
        # (an atom the rule does not know is harmless exactly when the verdict never depends on it: it is enumerated like the others)
        run.check(not bad and set(known) <= set(vs), r, fi.short, label, why + ' (atoms %s%s)' % (vs, ', e.g. %s' % bad[0] if bad else ''), V)
        return L
    vi = run.fn('Statechart._validate_compoundstate_initial')
    L0 = [n for n in q.walk(vi.node, False) if isinstance(n, ast.For)]
    run.anchor(len(L0) == 1, r, 'loop over all states in _validate_compoundstate_initial')
    tv = [e.id for e in L0[0].target.elts] if isinstance(L0[0].target, ast.Tuple) else [None, L0[0].target.id]
    nm, sv = tv

    def classify_i(op, l, r_, e):
        l0, r0 = l.replace(' ', ''), r_.replace(' ', '')
        if op == 'truthy' and l0 == 'isinstance(%s,CompoundState)' % sv:
            return 'COMPOUND'
        if op == 'truthy' and l0 == sv + '.initial':
            return 'HAS_INITIAL'
        if op == 'is' and l0 == sv + '.initial' and r0 == 'None':
            return ('HAS_INITIAL', False)
        if op == 'in' and l0 == sv + '.initial' and r0 in ('self._states', 'self._states.keys()', 'self.states'):
            return 'EXISTS'
        if op == 'in' and l0 == sv + '.initial' and r0 in ('self.children_for(%s)' % nm, 'self.children_for(%s.name)' % sv, 'self._children[%s]' % nm):
            return 'IS_CHILD'
        return None
    table(vi, classify_i, lambda v: v.get('COMPOUND') and v.get('HAS_INITIAL') and not (v.get('EXISTS') and v.get('IS_CHILD')), ('COMPOUND', 'HAS_INITIAL', 'EXISTS', 'IS_CHILD'),
          'a compound state is rejected iff it declares an initial state that does not exist or is not one of its children',
          'the rejection condition of the initial-state validator differs')
    mi = run.fn('Statechart._validate_historystate_memory')
    M = mi.node
    L1 = [n for n in q.walk(M, False) if isinstance(n, ast.For)]
    run.anchor(len(L1) == 1, r, 'loop over all states in _validate_historystate_memory')
    nm, sv = [e.id for e in L1[0].target.elts] if isinstance(L1[0].target, ast.Tuple) else (None, L1[0].target.id)
    aliases = {sv + '.memory'} | {st.targets[0].id for st in q.walk(M, False) if isinstance(st, ast.Assign) and isinstance(st.targets[0], ast.Name)
                                   and q.unparse(st.value) == sv + '.memory'}

    def classify_m(op, l, r_, e):
        l0, r0 = l.replace(' ', ''), r_.replace(' ', '')
        if op == 'truthy' and l0 == 'isinstance(%s,HistoryStateMixin)' % sv:
            return 'HISTORY'
        if op == 'is' and l0 in aliases and r0 == 'None':
            return ('HAS_MEMORY', False)
        if op == 'truthy' and l0 in aliases:
            return 'HAS_MEMORY'
        if op == '==' and ((l0 in aliases and r0 in (nm, sv + '.name')) or (r0 in aliases and l0 in (nm, sv + '.name'))):
            return 'IS_SELF'
        if op == 'in' and l0 in aliases and r0 in ('self._states', 'self._states.keys()', 'self.states'):
            return 'EXISTS'
        if op == 'in' and l0 in aliases and r0 in ('self.children_for(self.parent_for(%s))' % nm, 'self.children_for(self.parent_for(%s.name))' % sv,
                                                   'self._children[self._parent[%s]]' % nm):
            return 'IS_SIBLING'
        return None
    table(mi, classify_m, lambda v: v.get('HISTORY') and v.get('HAS_MEMORY') and (v.get('IS_SELF') or not v.get('EXISTS') or not v.get('IS_SIBLING')),
          ('HISTORY', 'HAS_MEMORY', 'IS_SELF', 'EXISTS', 'IS_SIBLING'),
          'a history state is rejected iff its memory is itself, does not exist or is not a child of its own parent',
          'the rejection condition of the memory validator differs')
    va = run.fn('Statechart.validate')
    calls = [dotted(c.func) for c in q.calls(va.node)]
    for sub in ('self._validate_compoundstate_initial', 'self._validate_historystate_memory'):
        cs = [c for c in q.calls(va.node) if dotted(c.func) == sub]
        run.check(len(cs) == 1 and not guards(cs[0]), r, va.short, 'validate() runs %s unconditionally' % sub.split('.')[1], 'sub-validator skipped', va.node)


def check(run):
    prog = run.prog
    run.guard(rules_registration, run)
    r = run.rule('C12.1b', 'initial / memory / child-kind / type obligations: validate() sub-validators and importer tests')
    run.guard(rules_validate, run, r)
    from .c11 import io_names
    N = io_names(run, r)
    si = run.fn('_import_state_from_dict')
    S = si.node
    rz = [x for x in q.raises_in(S) if q.raised_class(x) == 'StatechartError']
    subs = sorted(x for x in (N['substates'], N['parallel']) if x)
    run.check(len(subs) == 2, r, si.short, "locals read from 'states' and 'parallel states'", 'the two child lists are not read into locals', S)
    both = [x for x in rz if sorted(a[1] for a in guard_atoms(x) if a[0] == 'truthy' and a[1] in subs) == subs]
    run.check(len(both) == 1, r, si.short, "declaring both 'states' and 'parallel states' is rejected", 'missing test', S)
    unk = [x for x in rz if x not in both]
    good = False
    for x in unk:
        at = guard_atoms(x)
        ty = N['stype']
        lits = sorted(a[2].strip("'") if a[1] == ty else a[1].strip("'") for a in at if a[0] == '!=' and ty in (a[1], a[2]))
        if lits == ['deep history', 'final', 'shallow history'] and ('is not', ty, 'None') in at:
            good = True
    run.check(good, r, si.short, 'unknown state type is rejected', 'the final else of the type dispatch must raise StatechartError', S)

    r = run.rule('C12.2', 'everything created is registered and validated: every built state reaches add_state, every built transition add_transition; validate() '
                          'and the schema check run unless explicitly disabled')
    ii = run.fn('import_from_dict')
    I = ii.node
    for builder, sink, reg in (('_import_state_from_dict', None, 'Statechart.add_state'), ('_import_transition_from_dict', None, 'Statechart.add_transition')):
        bc = q.calls_to(run, I, {builder})
        run.check(len(bc) == 1, r, ii.short, 'one %s site' % builder, 'found %d' % len(bc), I)
        if not bc:
            continue
        st = q.enclosing_stmt(bc[0])
        var = st.targets[0].id if isinstance(st, ast.Assign) and isinstance(st.targets[0], ast.Name) else None
        apps = [c for c in q.calls(I) if isinstance(c.func, ast.Attribute) and c.func.attr == 'append' and isinstance(c.func.value, ast.Name)
                and c.args and any(isinstance(x, ast.Name) and x.id == var for x in ast.walk(c.args[0])) and c.func.value.id != N['work']]
        lp = q.enclosing(bc[0], (ast.For, ast.While))
        run.check(len(apps) == 1 and not [g for g in guards(apps[0], stop=lp) if not g[2].startswith('early')] and q.never_after(I, st, apps[0]), r, ii.short,
                  'every object built by %s is collected' % builder, 'a built object can be dropped', st)
        if apps:
            lst = apps[0].func.value.id
            regs = q.calls_to(run, I, {reg})
            loops = [q.enclosing(c, ast.For) for c in regs]
            run.check(len(regs) == 1 and loops[0] is not None and dotted(strip_cast(loops[0].iter)) == lst and not guards(regs[0]), r, ii.short,
                      'every collected object is registered through %s' % reg.split('.')[1], 'registration loop differs', I)
    # the transitions of every state of the document are imported: the loop over <state dict>.get('transitions') is not skipped for any state
    tl = [n for n in q.walk(I, False) if isinstance(n, ast.For) and "'transitions'" in q.unparse(n.iter) and N['sdata'] in q.unparse(n.iter)]
    run.check(len(tl) == 1, r, ii.short, "one loop over the 'transitions' of a state", 'found %d' % len(tl), I)
    for t_ in tl:
        outer = q.enclosing(t_, (ast.While, ast.For))
        gs = [g for g in guards(t_, stop=outer)]
        run.check(not gs, r, ii.short, 'transitions are imported for every state of the document',
                  'the transitions of some states are skipped (%s): a transition declared on a state that cannot own one is dropped instead of being rejected' %
                  [q.unparse(g[0])[:50] for g in gs], t_)
    # children are pushed for both composite kinds
    for key, klass in (('states', 'CompoundState'), ('parallel states', 'OrthogonalState')):
        ok_ = False
        for elt, it, conds, node in q.accumulations(I, N['work']):
            if it is None or elt is None:
                continue
            # the iterable: <state dict>[key] directly, or a local chosen per kind of composite state
            for itv, it_at in q.cases(I, strip_cast(it)):
                itv = strip_cast(itv)
                if not (isinstance(itv, ast.Subscript) and q.unparse(itv.value) == N['sdata']):
                    continue
                # the key: a constant, or a local chosen per kind of composite state
                alts_ = [(kv, guard_atoms(kst if kst is not None else node)) for kv, kst in q.alternatives(I, itv.slice)]
                if len(alts_) == 1 and q.const_str(alts_[0][0]) is None:
                    alts_ = [(kv, k_at + guard_atoms(node)) for kv, k_at in q.cases(I, itv.slice)]      # a conditional expression as key
                for kv, k_ats in alts_:
                    if q.const_str(kv) != key:
                        continue
                    ats = it_at + k_ats
                    if any(klass in a[1] and a[0] == 'truthy' and a[1].startswith('isinstance(') for a in ats) and not conds:
                        ok_ = True
        run.check(ok_, r, ii.short, "children under '%s' are imported for %s" % (key, klass), 'children not traversed', I)
    yi = run.fn('import_from_yaml')
    Y = yi.node
    d = q.param_defaults(Y)
    run.check(d.get('ignore_schema') is False and d.get('ignore_validation') is False, r, yi.short, 'schema check and validation are on by default', 'defaults are %s' % d, Y)
    vcs = [c for c in q.calls_to(run, Y, {'Statechart.validate'})]
    run.check(len(vcs) == 1 and _own_atoms(vcs[0], ('text', 'filepath')) == [('falsy', 'ignore_validation', '')], r, yi.short, 'validate() runs unless ignore_validation', 'condition is %s' % [guard_atoms(c) for c in vcs], Y)
    ic = q.calls_to(run, Y, {'import_from_dict'})
    rets = [n for n in q.walk(Y, False) if isinstance(n, ast.Return)]
    scv = q.enclosing_stmt(ic[0]).targets[0].id if ic and isinstance(q.enclosing_stmt(ic[0]), ast.Assign) else None
    run.check(scv and vcs and dotted(vcs[0].func) == scv + '.validate' and all(q.unparse(x.value) == scv for x in rets) and q.strictly_before(Y, ic[0], vcs[0]), r, yi.short,
              'the validated statechart is the returned one', 'differs', Y)
    for x in rets:
        if ('truthy', 'ignore_validation', '') in guard_atoms(x):
            continue      # the explicit opt-out
        for v in vcs:
            run.check(q.strictly_before(Y, v, x) or ('falsy', 'ignore_validation', '') in guard_atoms(v) and q.never_after(Y, v, x) and
                      build_cfg(Y).cut([build_cfg(Y).node_of(v)] + [build_cfg(Y).node_of(t_) for t_ in q.walk(Y, False) if isinstance(t_, ast.If) and 'ignore_validation' in q.unparse(t_.test)],
                                       build_cfg(Y).node_of(x)), r, yi.short, 'validation precedes the return', 'returned before validation', x)

    r = run.rule('C12.3', 'error discipline: every explicit raise reachable from import_from_yaml raises StatechartError (listed: two argument-misuse TypeErrors); schema '
                          'and builder errors are converted')
    reach = prog.reachable([yi])
    # functions entered only through call sites whose exceptions are converted (try: <call> except Exception: raise StatechartError(..)): whatever they raise
    # reaches the caller of import_from_yaml as a StatechartError
    def converting(site):
        t_ = q.enclosing(site, ast.Try)
        while t_ is not None:
            if any(q.in_node(site, b_) for b_ in t_.body) and any(
                    h.type is not None and q.unparse(h.type) in ('Exception', 'BaseException') and any(
                        isinstance(x_, ast.Raise) and q.raised_class(x_) == 'StatechartError' for st_ in h.body for x_ in ast.walk(st_)) for h in t_.handlers):
                return True
            t_ = q.enclosing(t_, ast.Try)
        return False
    prog.build_callgraph()
    direct = {yi.qual}
    work_ = [yi]
    while work_:
        f_ = work_.pop()
        for t_, site in prog.callgraph.get(f_.qual, []):
            if t_.qual in direct or converting(site):
                continue
            direct.add(t_.qual)
            work_.append(t_)
    n = 0
    for qual, (f, _) in reach.items():
        for x in q.raises_in(f.node):
            n += 1
            if qual not in direct and q.raised_class(x) is not None:
                run.ok(r, f.short, 'raise %s, converted to StatechartError by the importer (reached through converting call sites only)' % q.raised_class(x), x)
                continue
            k = q.raised_class(x)
            if k is None:
                h = q.enclosing(x, ast.ExceptHandler)
                run.check(h is not None and h.type is not None and 'StatechartError' in q.unparse(h.type), r, f.short, 'bare re-raise of a StatechartError', 're-raises %s' % (q.unparse(h.type) if h is not None and h.type is not None else '?'), x)
                continue
            listed = f.short == 'import_from_yaml' and k == 'TypeError' and not _own_atoms(x, ('text', 'filepath'))
            run.check(k == 'StatechartError' or listed, r, f.short, 'raise %s%s' % (k, ' (listed: argument misuse, not document dependent)' if listed else ''),
                      'a document fault surfaces as %s instead of StatechartError' % k, x)
    run.floor(n, 15, r, 'explicit raises reachable from import_from_yaml')
    # no handler on the import path ends without raising: a swallowed error would let a broken document through (or surface later as another exception type)
    nh = 0
    for qual, (f, _) in reach.items():
        if not f.module.name.startswith('sismic.io'):
            continue
        for t_ in [x for x in q.walk(f.node) if isinstance(x, ast.Try)]:
            for h in t_.handlers:
                nh += 1
                from ..cfg import _always_leaves
                run.check(_always_leaves(h.body) == 'Raise', r, f.short, 'handler `except %s` ends by raising' % (q.unparse(h.type) if h.type is not None else ''),
                          'an exception caught while importing is swallowed', h)
    run.floor(nh, 2, r, 'exception handlers on the import path')
    sv = [c for c in q.calls(Y) if isinstance(c.func, ast.Attribute) and c.func.attr == 'validate' and any('Schema' in q.unparse(o_) for o_ in [c.func.value] + q.local_origin(Y, c.func.value))]
    run.check(len(sv) == 1 and _own_atoms(sv[0], ('text', 'filepath')) == [('falsy', 'ignore_schema', '')], r, yi.short, 'schema validation runs unless ignore_schema', 'differs', Y)
    # nothing operates on the freshly loaded document before the schema has seen it: it may be None, a number, a list .. and `in`, subscripts,
    # method calls or iteration on those raise TypeError / AttributeError instead of StatechartError
    loads = [st for st in q.walk(Y, False) if isinstance(st, ast.Assign) and isinstance(st.targets[0], ast.Name) and isinstance(strip_cast(st.value), ast.Call)
             and isinstance(strip_cast(st.value).func, ast.Attribute) and strip_cast(st.value).func.attr in ('load', 'safe_load', 'load_all')]
    run.check(len(loads) == 1, r, yi.short, 'one place parses the YAML text', 'found %d' % len(loads), Y)
    for ld in loads:
        dv = ld.targets[0].id
        nuse = 0
        for n_ in q.walk(Y):
            if not (isinstance(n_, ast.Name) and n_.id == dv and isinstance(n_.ctx, ast.Load)):
                continue
            in_handler = any(q.enclosing(c_, ast.Try) is not None and any(q.in_node(n_, h_) for h_ in q.enclosing(c_, ast.Try).handlers) for c_ in sv)
            if not in_handler and any(q.strictly_before(Y, q.enclosing_stmt(c_), n_) and q.enclosing_stmt(c_) is not q.enclosing_stmt(n_) for c_ in sv):
                continue       # the schema validator has run (and coerced the value) on every path to this use
            # (in a handler of the validation itself the document is the one the schema has just rejected)
            nuse += 1
            par = getattr(n_, '_parent', None)
            as_arg = isinstance(par, ast.Call) and n_ in par.args and (par in sv or par in ic)
            harmless = (isinstance(par, ast.Call) and isinstance(par.func, ast.Name) and par.func.id == 'isinstance' and par.args and par.args[0] is n_) or \
                (isinstance(par, ast.Compare) and all(isinstance(o_, (ast.Is, ast.IsNot)) for o_ in par.ops))
            # .. or the use is reached only once the document is known to be a mapping
            def is_map_test(e):
                e = strip_cast(e)
                return isinstance(e, ast.Call) and isinstance(e.func, ast.Name) and e.func.id == 'isinstance' and len(e.args) == 2 and q.unparse(e.args[0]) == dv and \
                    q.unparse(e.args[1]).split('.')[-1] in ('dict', 'Mapping', 'MutableMapping', 'OrderedDict', 'CommentedMap')
            up, child = par, n_
            while up is not None and not isinstance(up, ast.stmt):
                if isinstance(up, ast.BoolOp) and isinstance(up.op, ast.And) and child in up.values and any(is_map_test(v_) for v_ in up.values[:up.values.index(child)]):
                    harmless = True
                if isinstance(up, ast.IfExp) and child is up.body and is_map_test(up.test):
                    harmless = True
                up, child = getattr(up, '_parent', None), up
            st_ = q.enclosing_stmt(n_)
            if any(op_ == 'truthy' and is_map_test(ast.parse(l_, mode='eval').body) for op_, l_, r_ in guard_atoms(st_) if l_.startswith('isinstance(')):
                harmless = True
            if isinstance(par, (ast.Dict, ast.List, ast.Tuple)):
                harmless = True       # merely stored in a new container
            run.check(as_arg or harmless, r, yi.short, 'raw document only handed to the validator / builder',
                      'the unvalidated document is used in `%s`: a document that is not a mapping makes this raise TypeError / AttributeError instead of StatechartError'
                      % q.unparse(q.enclosing_stmt(n_) if not isinstance(q.enclosing_stmt(n_), (ast.If, ast.For, ast.While)) else getattr(q.enclosing_stmt(n_), 'test', getattr(q.enclosing_stmt(n_), 'iter', None)))[:60], n_)
        run.floor(nuse, 1, r, 'uses of the raw document')
    for c in sv:
        t = q.enclosing(c, ast.Try)
        good = t is not None and any(h.type is not None and 'SchemaError' in q.unparse(h.type) and any(isinstance(x, ast.Raise) and q.raised_class(x) == 'StatechartError'
                                                                                                      for st in h.body for x in ast.walk(st)) for h in t.handlers)
        run.check(good, r, yi.short, 'SchemaError converted to StatechartError', 'schema errors escape as SchemaError', c)
        inner = c.func.value
        if isinstance(inner, ast.Name) and len(q.local_origin(Y, inner)) == 1:
            inner = strip_cast(q.local_origin(Y, inner)[0])
        run.check(isinstance(inner, ast.Call) and inner.args and q.unparse(inner.args[0]) == 'SCHEMA.statechart' and not inner.keywords, r, yi.short,
                  'validated against SCHEMA.statechart, extra keys not ignored', 'schema object is %s' % q.unparse(inner)[:60], c)
        a0 = ic[0].args[0] if ic and ic[0].args else None
        def comes_from_validation(name, depth=0):
            for st_, v in q.assigned_value(Y, name):
                v = strip_cast(v)
                if v is c:
                    return True
                if isinstance(v, ast.Name) and v.id != name and depth < 4 and comes_from_validation(v.id, depth + 1):
                    return True
            return False
        run.check(isinstance(a0, ast.Name) and comes_from_validation(a0.id), r, yi.short, 'the coerced data is what gets imported',
                  'the value handed to import_from_dict does not come from the schema validation', c)
    for builder in ('_import_state_from_dict', '_import_transition_from_dict'):
        for c in q.calls_to(run, I, {builder}):
            t = q.enclosing(c, ast.Try)
            good = t is not None and any(h.type is not None and q.unparse(h.type) in ('Exception', 'BaseException') and any(
                isinstance(x, ast.Raise) and q.raised_class(x) == 'StatechartError' for st in h.body for x in ast.walk(st)) for h in t.handlers)
            run.check(good, r, ii.short, 'errors of %s converted to StatechartError' % builder, 'builder errors (KeyError, AttributeError, ..) escape', c)

    r = run.rule('C12.4', 'SCHEMA strictness: no wildcard key; name and root state required; type and symbolic priorities are closed enumerations')
    schema = SchemaModel(run, r)
    run.check(not schema.wild, r, 'SCHEMA', 'no wildcard / computed key', 'schema admits arbitrary keys: %s' % [q.unparse(w)[:30] for w in schema.wild], schema.node)
    inner = schema.levels.get('statechart_inner', {})
    for k in ('name', 'root state'):
        run.check(k in inner and not inner[k]['optional'], r, 'SCHEMA', "statechart key '%s' is required" % k, 'optional or missing', schema.node)
    run.check('statechart' in schema.levels.get('statechart', {}) and not schema.levels['statechart']['statechart']['optional'], r, 'SCHEMA', "top-level 'statechart' is required", 'optional', schema.node)
    st = schema.levels.get('state', {})
    run.check('name' in st and not st['name']['optional'], r, 'SCHEMA', "state key 'name' is required", 'optional or missing', schema.node)
    for k in ('states', 'parallel states'):
        run.check(k in st and q.unparse(st[k]['value']) == '[state]', r, 'SCHEMA', "'%s' is a list of states (recursive)" % k, 'differs', schema.node)
    run.check('root state' in inner and q.unparse(inner['root state']['value']) == 'state', r, 'SCHEMA', "'root state' is a state", 'differs', schema.node)
    tr = schema.levels.get('transition', {})
    run.check('transitions' in st and q.unparse(st['transitions']['value']) == '[transition]', r, 'SCHEMA', "'transitions' is a list of transitions", 'differs', schema.node)
    for lvl, d in (('state', st), ('transition', tr)):
        run.check('contract' in d and q.unparse(d['contract']['value']) == '[contract]', r, 'SCHEMA', "%s 'contract' is a list of contract items" % lvl, 'differs', schema.node)
    te, other = SchemaModel.enum_of(st['type']['value']) if 'type' in st else (None, ['?'])
    run.check(te is not None and not other, r, 'SCHEMA', 'type is a closed enumeration %s' % te, 'type admits %s' % other, schema.node)
    pe, other = SchemaModel.enum_of(tr['priority']['value']) if 'priority' in tr else (None, ['?'])
    run.check(pe is not None and other == ['schema.Use(int)'], r, 'SCHEMA', 'priority is int or one of %s' % pe, 'priority admits %s' % other, schema.node)
