"""C14 Clocks are monotonic and faithful."""
import ast

from .. import q
from ..cfg import guards, guard_atoms, build_cfg
from ..prog import strip_cast, dotted

EXPLANATION = (
    'Static rules over sismic/clock/clock.py: in the SimulatedClock.time setter no field is written on a path that raises ValueError and '
    'the monotonicity test is strict (an equal value is accepted); every write to _base, _speed or _play is, on its path, preceded by a '
    'fold of the elapsed part into _time that reads the old values (or guarded by the clock being stopped, where elapsed is 0); _elapsed '
    'is 0 when stopped and (now - _base) * _speed when started; the time getter is _time + _elapsed; an accepted assignment stores the '
    'value itself and re-bases; SynchronizedClock.time returns Interpreter.time of the interpreter it was constructed with. Decides the '
    'bookkeeping shape, not the arithmetic over real time.')

REBASE = ('_base', '_speed', '_play')


def check(run):
    prog = run.prog
    ck = prog.cls('SimulatedClock')
    r = run.rule('C14.1', 'time setter: reject before write (no field written on a path to the ValueError), strict test new < current, an accepted value is stored as is')
    ts = ck.setters.get('time')
    run.anchor(ts is not None, r, 'SimulatedClock.time setter')
    T = ts.node
    newp = q.param_names(T)[1]
    cfg = build_cfg(T)
    rz = [x for x in q.raises_in(T)]
    run.check(len(rz) == 1 and q.raised_class(rz[0]) == 'ValueError', r, ts.short, 'one ValueError rejection', 'found %s' % [q.raised_class(x) for x in rz], T)
    writes = [(c, f, k, n) for c, f, k, n in prog.direct_writes(ts) if c == 'SimulatedClock']
    for x in rz:
        at = guard_atoms(x)
        cur = None
        good = len(at) == 1 and at[0][0] == '<' and at[0][1] == newp
        if good:
            cur = at[0][2]
            origins = [q.unparse(o) for o in (q.local_origin(T, ast.parse(cur, mode='eval').body) if cur.isidentifier() else [])] or [cur]
            good = 'self.time' in origins
        run.check(good, r, ts.short, 'reject iff new < current time (strict)', 'rejection condition is %s' % at, x)
        for c, f, k, n in writes:
            run.check(not cfg.reaches(cfg.node_of(n), cfg.node_of(x)) and not q.in_node(n, q.enclosing(x, ast.If)), r, ts.short, 'no write of %s before the rejection' % f,
                      'a rejected assignment has already changed %s' % f, n)
    tw = [n for c, f, k, n in writes if f == '_time']
    run.check(len(tw) == 1 and isinstance(tw[0], ast.Assign) and obj_is_name(tw[0].value, newp) and not guards(tw[0])[1:], r, ts.short, 'accepted value takes effect exactly (_time = new)',
              'stored value differs', T)
    bw = [n for c, f, k, n in writes if f == '_base']
    run.check(len(bw) == 1 and q.unparse(bw[0].value) == 'time()', r, ts.short, 'assignment re-bases the running part (_base = now)', 'missing re-base: elapsed would be counted twice', T)

    r = run.rule('C14.2', 'fold before rebase: every write of _base / _speed / _play is preceded on its path by a fold of _elapsed into _time (reading the old values) or '
                          'guarded by the clock being stopped')
    n_w = 0
    for m in list(ck.methods.values()) + list(ck.setters.values()):
        if m.name == '__init__':
            continue
        M = m.node
        ws = [(f, k, n) for c, f, k, n in prog.direct_writes(m) if c == 'SimulatedClock' and f in REBASE]
        if not ws:
            continue
        folds = [n for c, f, k, n in prog.direct_writes(m) if c == 'SimulatedClock' and f == '_time' and (
            (isinstance(n, ast.AugAssign) and isinstance(n.op, ast.Add) and q.unparse(n.value) == 'self._elapsed')
            or (isinstance(n, ast.Assign) and q.unparse(n.value) in ('self._time + self._elapsed', 'self.time'))
            or (m is ts and isinstance(n, ast.Assign)))]
        # in the setter the total assignment absorbs the elapsed part only if the current time was read before
        for f, k, n in ws:
            n_w += 1
            at = guard_atoms(n)
            stopped = ('falsy', 'self._play', '') in at
            folded = any(q.strictly_before(M, fo, n) for fo in folds)
            run.check(stopped or folded, r, m.short, 'write of %s after a fold (or while stopped)' % f,
                      'the running part is re-based / rescaled before being folded into _time: the clock jumps', n)
        for fo in folds:
            for f, k, n in ws:
                run.check(not q.strictly_before(M, n, fo), r, m.short, 'fold reads the old %s' % f, '%s is changed before the fold' % f, fo)
    run.floor(n_w, 5, r, 'writes of _base/_speed/_play outside __init__')
    for name, body_field, val in (('start', '_play', True), ('stop', '_play', False)):
        m = ck.methods.get(name)
        run.anchor(m is not None, r, 'SimulatedClock.' + name)
        ws = [n for c, f, k, n in prog.direct_writes(m) if f == '_play']
        run.check(len(ws) == 1 and isinstance(ws[0].value, ast.Constant) and ws[0].value.value is val, r, m.short, '%s sets _play = %s' % (name, val), 'differs', m.node)
        want = ('falsy' if name == 'start' else 'truthy', 'self._play', '')
        for w in ws:
            run.check(guard_atoms(w) == [want], r, m.short, '%s only acts when the clock is %s' % (name, 'stopped' if name == 'start' else 'running'), 'condition is %s' % guard_atoms(w), w)
    st = ck.methods.get('start')
    bw = [n for c, f, k, n in prog.direct_writes(st) if f == '_base']
    run.check(len(bw) == 1 and q.unparse(bw[0].value) == 'time()' and guard_atoms(bw[0]) == [('falsy', 'self._play', '')], r, st.short, 'start re-bases at now, only when stopped',
              'start() while running would discard / double the elapsed part', st.node)
    sp = ck.setters.get('speed')
    run.anchor(sp is not None, r, 'SimulatedClock.speed setter')
    sw = [n for c, f, k, n in prog.direct_writes(sp) if f == '_speed']
    run.check(len(sw) == 1 and obj_is_name(sw[0].value, q.param_names(sp.node)[1]), r, sp.short, 'speed setter stores the given speed', 'differs', sp.node)
    bw = [n for c, f, k, n in prog.direct_writes(sp) if f == '_base']
    run.check(len(bw) == 1 and q.unparse(bw[0].value) == 'time()', r, sp.short, 'speed change re-bases at now', 'elapsed time before the change would be rescaled', sp.node)

    r = run.rule('C14.3', 'gating: _elapsed is 0 when stopped and (now - _base) * _speed when started; time = _time + _elapsed')
    el = ck.methods.get('_elapsed')
    run.anchor(el is not None, r, 'SimulatedClock._elapsed')
    rets = [n for n in q.walk(el.node, False) if isinstance(n, ast.Return)]
    # collect (condition on _play, returned expression) alternatives: conditional expression or if-statement form
    alts = []
    for rt in rets:
        v = strip_cast(rt.value)
        at = guard_atoms(rt)
        if isinstance(v, ast.IfExp):
            c = q.canon_atom(v.test)
            if c is not None and c[0] == 'truthy' and c[1] == 'self._play' and not at:
                alts.append((True, v.body if c[3] else v.orelse))
                alts.append((False, v.orelse if c[3] else v.body))
            else:
                alts.append((None, v))
        elif at == [('truthy', 'self._play', '')]:
            alts.append((True, v))
        elif at == [('falsy', 'self._play', '')]:
            alts.append((False, v))
        else:
            alts.append((None, v))
    good = sorted(str(a[0]) for a in alts) == ['False', 'True']
    for playing, v in alts:
        if playing is True:
            sx = q.resolved_text(el.node, v) if isinstance(v, ast.Name) else q.unparse(v)
            # resolve explanatory locals inside the product
            if isinstance(v, ast.BinOp):
                def side_text(side):
                    side = strip_cast(side)
                    if isinstance(side, ast.Name):
                        t_ = q.resolved_text(el.node, side)
                        return '(' + t_ + ')' if t_ != side.id else t_
                    return '(' + q.unparse(side) + ')' if isinstance(side, ast.BinOp) else q.unparse(side)
                sx = '%s*%s' % (side_text(v.left), side_text(v.right)) if isinstance(v.op, ast.Mult) else q.unparse(v)
            sx = sx.replace(' ', '')
            good = good and sx in ('(time()-self._base)*self._speed', 'self._speed*(time()-self._base)')
        elif playing is False:
            good = good and isinstance(v, ast.Constant) and v.value == 0
    run.check(good, r, el.short, '_elapsed = (now - _base) * _speed if _play else 0', 'elapsed part computed differently: %s' % [q.unparse(x.value) for x in rets], el.node)
    tg = ck.methods.get('time')
    rets = [n for n in q.walk(tg.node, False) if isinstance(n, ast.Return)]
    run.check(len(rets) == 1 and q.unparse(rets[0].value).replace(' ', '') in ('self._time+self._elapsed', 'self._elapsed+self._time'), r, tg.short, 'time = _time + _elapsed', 'differs', tg.node)
    init = ck.methods.get('__init__')
    dflt = q.param_defaults(init.node)      # a field initialised from a parameter starts at the default of that parameter (the documented constructor call is SimulatedClock())
    vals = {q.unparse(n.targets[0]): (repr(dflt[n.value.id]) if isinstance(n.value, ast.Name) and n.value.id in dflt and
                                      not any(isinstance(x, ast.Name) and x.id == n.value.id and isinstance(x.ctx, ast.Store) for x in q.walk(init.node)) else q.unparse(n.value))
            for n in q.walk(init.node) if isinstance(n, ast.Assign)}
    run.check(vals.get('self._time') == '0' and vals.get('self._play') == 'False' and vals.get('self._speed') == '1', r, init.short, 'starts at 0, stopped, speed 1', 'initial values %s' % vals, init.node)
    rr = prog.resolve_global('sismic.clock.clock', 'time')
    run.check(rr == ('external', 'time.time'), r, 'sismic.clock.clock', 'time() is time.time', 'time() resolves to %s' % (rr,), None)

    r = run.rule('C14.4', 'SynchronizedClock.time returns Interpreter.time (the frozen time of the last step) of its constructor argument')
    sc = run.fn('SynchronizedClock.time')
    rets = [n for n in q.walk(sc.node, False) if isinstance(n, ast.Return)]
    run.check(len(rets) == 1 and q.unparse(rets[0].value) == 'self._interpreter.time', r, sc.short, 'time = self._interpreter.time', 'returns %s' % [q.unparse(x.value) for x in rets], sc.node)
    si = run.fn('SynchronizedClock.__init__')
    st_ = [n for n in q.walk(si.node) if isinstance(n, ast.Assign) and q.unparse(n.targets[0]) == 'self._interpreter']
    ip_ = q.param_names(si.node)[1]
    rebound = [n for n in q.walk(si.node) if isinstance(n, ast.Name) and n.id == ip_ and isinstance(n.ctx, (ast.Store, ast.Del))]
    run.check(len(st_) == 1 and obj_is_name(st_[0].value, ip_) and not rebound, r, si.short, 'follows the interpreter it was constructed with',
              'the stored interpreter is not (always) the constructor argument' if rebound else 'differs', rebound[0] if rebound else si.node)
    tp = run.fn('Interpreter.time')
    rets = [n for n in q.walk(tp.node, False) if isinstance(n, ast.Return)]
    run.check(len(rets) == 1 and q.unparse(rets[0].value) == 'self._time', r, tp.short, 'Interpreter.time is the frozen step time', 'differs', tp.node)
    writers = [f.short for f in prog.functions() if f.outer is None for c, fld, k, n in prog.direct_writes(f) if fld == '_time' and c == 'Interpreter']
    run.check(sorted(writers) == ['Interpreter.__init__', 'Interpreter.execute_once'], r, 'Interpreter', '_time changes only when a step starts', 'writers: %s' % writers, None)
    # "the time of the last step": the MacroStep returned by execute_once carries the frozen time, not a fresh reading of the clock
    ei = run.fn('Interpreter.execute_once')
    ms = [c for c in q.calls(ei.node) if dotted(c.func) == 'MacroStep']
    run.check(len(ms) >= 1 and all(q.unparse(q.arg(c, 0, 'time')) in ('self.time', 'self._time') for c in ms), r, ei.short, 'MacroStep(time=<frozen step time>)',
              'the time reported for the step is read from the clock again: it differs from what SynchronizedClock and the step itself saw', ms[0] if ms else ei.node)
    uc = run.fn('UtcClock.time')
    rets = [n for n in q.walk(uc.node, False) if isinstance(n, ast.Return)]
    run.check(len(rets) == 1 and q.unparse(rets[0].value) == 'time()', r, uc.short, 'UtcClock.time = time()', 'differs', uc.node)


def obj_is_name(expr, name):
    expr = strip_cast(expr)
    return isinstance(expr, ast.Name) and expr.id == name
