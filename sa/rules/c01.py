"""C01 Transition selection follows the documented step semantics."""
import ast
import re

from .. import q
from ..cfg import guards, guard_atoms
from ..prog import strip_cast, dotted
from . import c05

EXPLANATION = (
    'Static rules over the selection pipeline (Interpreter._select_transitions, _compute_steps, execute_once, '
    'utilities.sorted_groupby, the evaluate_guard implementations): candidate filter as a propositional formula over '
    'source-active / eventless / event-name atoms, nesting and effective direction of the four groupings under the '
    'declared defaults, pre-emption exits (event class, priority class, ignore set) and their control dependence on '
    'guard outcomes, event hidden from eventless guards, consumption decision, group-and-sort helper. Decides that '
    'the ingredients have the documented shape on every path, not that they compose correctly for every chart.')


def _grouping_loops(run, F):
    out = []
    for n in q.walk(F, False):
        if isinstance(n, ast.For):
            it = strip_cast(n.iter)
            if isinstance(it, ast.Call) and (it in q.calls_to(run, F, {'sorted_groupby'}, nested=False) or (dotted(it.func) or '').split('.')[-1] == 'groupby'):
                out.append(n)
    return sorted(out, key=lambda n: (n.lineno, n.col_offset))


def _classify_key(pname, body):
    """-> (kind, sign/polarity)."""
    body = strip_cast(body)
    neg = False
    if isinstance(body, ast.UnaryOp) and isinstance(body.op, ast.USub):
        neg = True
        body = strip_cast(body.operand)
    c = q.canon_atom(body) if isinstance(body, (ast.Compare, ast.UnaryOp)) else None
    if c and c[0] == 'is' and c[1] == pname + '.event' and c[2] == 'None':
        # key true <=> eventless (c[3]) ; we report "True means evented"
        return ('has_event', not c[3])
    s = q.unparse(body)
    if s == pname + '.priority':
        return ('priority', -1 if neg else 1)
    if s == pname + '.source':
        return ('source', 1)
    if 'depth' in s and (pname + '.source') in s:
        return ('depth', -1 if neg else 1)
    return ('unknown:' + s, 1)


def rules_selection(run):
    fi = run.fn('Interpreter._select_transitions')
    F = fi.node
    params = q.param_names(F)
    run.anchor(len(params) >= 3, 'C01.1', 'parameters (self, event, states) of _select_transitions')
    evp, stp = params[1], params[2]
    env = q.param_defaults(F)
    loops = _grouping_loops(run, F)

    # ---- C01.1 candidate filter
    r = run.rule('C01.1', 'a transition becomes a candidate iff its source is in the given states and it is eventless or '
                          'names the pending event; candidates are drawn from all transitions of the statechart')
    run.anchor(loops, r, 'sorted_groupby loops in _select_transitions')
    outer = loops[0]
    acc = strip_cast(strip_cast(outer.iter).args[0]) if strip_cast(outer.iter).args else None
    run.anchor(isinstance(acc, ast.Name), r, 'candidate list handed to the outermost grouping')
    appends = [c for c in q.calls(F) if isinstance(c.func, ast.Attribute) and c.func.attr in ('append',)
               and isinstance(c.func.value, ast.Name) and c.func.value.id == acc.id]
    others = [c for c in q.calls(F) if isinstance(c.func, ast.Attribute) and c.func.attr in ('extend', 'insert', 'remove', 'pop')
              and isinstance(c.func.value, ast.Name) and c.func.value.id == acc.id]
    run.check(len(appends) == 1 and not others, r, fi.short, 'single accumulation site of candidates',
              'expected one append site feeding the candidate list, found %d (+%d other mutations)' % (len(appends), len(others)), F)
    for ap in appends:
        lp = q.enclosing(ap, ast.For)
        tv = lp.target.id if lp is not None and isinstance(lp.target, ast.Name) else None
        run.anchor(tv, r, 'loop variable of the candidate loop')
        run.check(ap.args and isinstance(ap.args[0], ast.Name) and ap.args[0].id == tv, r, fi.short,
                  'the loop transition itself is appended', 'the candidate appended must be the loop transition', ap)
        it = strip_cast(lp.iter)
        tg = []
        if isinstance(it, ast.Attribute):
            for t in run.prog.expr_types(it.value, fi):
                tg.append((t, it.attr))
        run.check(('Statechart', 'transitions') in tg or ('Statechart', '_transitions') in tg, r, fi.short,
                  'candidates drawn from Statechart.transitions', 'the candidate loop must range over all transitions of the statechart', lp)

        def classify(op, l, r_, e, tv=tv):
            if op == 'in' and l == tv + '.source' and r_ == stp:
                return 'ACTIVE'
            if op == 'is' and l == tv + '.event' and r_ == 'None':
                return 'EVENTLESS'
            if op == 'truthy' and l == tv + '.eventless':
                return 'EVENTLESS'
            if op == '==' and {l, r_} & {tv + '.event'} and any(
                    x in (l, r_) for x in ("getattr(%s, 'name', None)" % evp, evp + '.name')):
                return 'NAMED'
            if op == 'in' and l == tv + '.source' and r_.endswith('_cache'):
                return 'CACHED'
            return None
        ba = q.BoolAbs(classify)
        vs, sat = ba.table(guards(ap, stop=lp))
        core = [v for v in vs if v != 'CACHED']
        bad = q.table_equals(vs, sat, lambda v: v.get('ACTIVE', False) and (v.get('EVENTLESS', False) or v.get('NAMED', False)))
        # the depth-cache test must not influence candidacy
        run.check(not bad and {'ACTIVE', 'EVENTLESS', 'NAMED'} <= set(vs), r, fi.short,
                  'candidate filter = source active and (eventless or names the event)',
                  'the condition under which a transition becomes a candidate differs from the documented filter '
                  '(atoms: %s)' % vs, ap)

    tc = run.prog.cls('Transition')
    for acc, fld in (('eventless', 'self.event'), ('internal', 'self._target')):
        m = tc.methods.get(acc)
        rets = [n for n in q.walk(m.node, False) if isinstance(n, ast.Return)] if m is not None else []
        run.check(m is not None and m.is_property and len(rets) == 1 and q.unparse(rets[0].value) == fld + ' is None', r, 'Transition.' + acc,
                  'Transition.%s is the accessor for `%s is None`' % (acc, fld), 'accessor redefined: conditions written with it no longer mean what the rules assume',
                  m.node if m is not None else tc.node)

    # ---- C01.2 grouping nesting and direction
    r = run.rule('C01.2', 'groupings nest as has-event > depth > source > priority and, under the declared defaults, put '
                          'eventless first, deepest first, highest priority first; each level regroups the group of the level above')
    run.floor(len(loops), 4, r, 'sorted_groupby loops')
    infos = []
    for lp in loops:
        call = strip_cast(lp.iter)
        run.check('sorted_groupby' in q.callee_shorts(run, call)[0], r, fi.short, 'full grouping (sorted_groupby) at ' + q.unparse(call)[:50],
                  'an adjacency-based grouping (itertools.groupby) splits the transitions of one class when they are not declared next to each other: '
                  'selection would depend on declaration order', lp)
        kf = q.key_function(run, F, q.arg(call, 1, 'key')) if q.arg(call, 1, 'key') is not None else None
        if kf is None:
            run.fail(r, fi.short, 'grouping key of ' + q.unparse(call)[:50], 'key function not recognised', lp)
            continue
        kind, sign = _classify_key(*kf)
        rv = q.arg(call, 2, 'reverse')
        try:
            rev = bool(q.const_eval(rv, env)) if rv is not None else False
        except KeyError:
            run.fail(r, fi.short, 'reverse= of %s grouping' % kind, 'reverse expression does not reduce to a constant under the defaults', lp)
            continue
        infos.append((lp, kind, sign, rev, call))
    kinds = [i[1] for i in infos]
    run.check(kinds == ['has_event', 'depth', 'source', 'priority'] or kinds == ['has_event', 'source', 'depth', 'priority'], r,
              fi.short, 'grouping kinds ' + ' > '.join(kinds), 'expected has_event > depth > source > priority', F)
    for i, (lp, kind, sign, rev, call) in enumerate(infos):
        if i > 0:
            run.check(q.in_block(lp, infos[i - 1][0].body), r, fi.short, '%s grouping nested in %s grouping' % (kind, infos[i - 1][1]),
                      'groupings must be nested', lp)
            prev_t = infos[i - 1][0].target
            grp = prev_t.elts[1].id if isinstance(prev_t, ast.Tuple) and len(prev_t.elts) == 2 and isinstance(prev_t.elts[1], ast.Name) else None
            a0 = strip_cast(call.args[0]) if call.args else None
            run.check(grp and isinstance(a0, ast.Name) and a0.id == grp, r, fi.short,
                      '%s grouping regroups the enclosing group' % kind, 'each level must regroup exactly the group of the level above', lp)
        if kind == 'has_event':
            # ascending order puts False first; sign True means key==True for evented
            first_eventless = (sign and not rev) or (not sign and rev)
            run.check(first_eventless, r, fi.short, 'eventless class examined first',
                      'under eventless_first=True the eventless class must come first', lp)
            rvx = q.arg(call, 2, 'reverse')
            run.check(rvx is not None and q.reads_name(rvx, 'eventless_first'), r, fi.short,
                      'event-class order follows eventless_first', 'reverse must derive from the eventless_first parameter', lp)
        elif kind == 'depth':
            run.check((sign > 0) == rev, r, fi.short, 'deepest sources first', 'under inner_first=True deeper sources must come first', lp)
            rvx = q.arg(call, 2, 'reverse')
            run.check(rvx is not None and q.reads_name(rvx, 'inner_first') or sign < 0, r, fi.short,
                      'depth order follows inner_first', 'reverse must derive from the inner_first parameter', lp)
        elif kind == 'priority':
            run.check((sign > 0) == rev, r, fi.short, 'highest priority first', 'higher priorities must be examined first', lp)
    # depth cache is the depth of the same source
    for n in q.walk(F, False):
        if isinstance(n, ast.Assign) and isinstance(n.targets[0], ast.Subscript) and 'depth' in q.unparse(n.targets[0].value):
            key = q.unparse(n.targets[0].slice)
            v = strip_cast(n.value)
            good = isinstance(v, ast.Call) and 'Statechart.depth_for' in q.callee_shorts(run, v)[0] and \
                v.args and q.unparse(v.args[0]) == key and key.endswith('.source')
            run.check(good, r, fi.short, 'depth cache holds depth_for(source) under key source',
                      'the cached depth must be the depth of the transition source it is stored under', n)
            cname_ = q.unparse(n.targets[0].value)
            about = [a for a in guard_atoms(n) if cname_ in (a[1], a[2])]
            run.check(about in ([], [('not in', key, cname_)]), r, fi.short, 'the cache is filled whenever the key is missing',
                      'the fill of the depth cache is conditional on %s: a source can be left without cached depth (KeyError when the groups are ordered)' % about, n)

    # ---- C01.3 pre-emption
    r = run.rule('C01.3', 'pre-emption: (a) a later event class is not examined once something is selected; (b) lower priority '
                          'classes of a source are skipped once one class selected something; (c) then the source and the states '
                          'given by the inner-first selector are ignored, and ignored sources are skipped; (d) selection and the '
                          'found flag happen exactly when the guard is absent or evaluates true')
    rets = [n for n in q.walk(F, False) if isinstance(n, ast.Return)]
    run.anchor(len(rets) >= 1 and all(isinstance(x.value, ast.Name) for x in rets) and len({x.value.id for x in rets}) == 1, r, '`return <selected list>`')
    sel = rets[0].value.id
    by_kind = {i[1]: i[0] for i in infos}
    run.anchor(all(k in by_kind for k in ('has_event', 'source', 'priority')), r, 'event/source/priority grouping loops')
    L_ev, L_src, L_pr = by_kind['has_event'], by_kind['source'], by_kind['priority']
    # a return before the selection loops is the selection of nothing: legitimate exactly when there is nothing to select from, i.e. under a test that the
    # sequence the event-class loop ranges over is empty
    srcs = set()
    for o_ in [L_ev.iter] + q.local_origin(F, L_ev.iter):
        o_ = strip_cast(o_)
        if isinstance(o_, ast.Call) and o_.args and isinstance(strip_cast(o_.args[0]), ast.Name):
            srcs.add(strip_cast(o_.args[0]).id)
    for x in rets:
        if q.strictly_before(F, L_ev, x) or q.in_node(x, L_ev):
            continue
        at = guard_atoms(x)
        empties = [a for a in at if (a[0] == 'falsy' and a[1] in srcs) or (a[0] == '==' and a[1] in ['len(%s)' % s_ for s_ in srcs] and a[2] == '0')
                   or (a[0] == '==' and a[2] in ['len(%s)' % s_ for s_ in srcs] and a[1] == '0')]
        run.check(bool(empties) and q.strictly_before(F, x, L_ev) is False and not q.in_node(x, L_ev), r, fi.short, 'an early return of the selection happens only when no transition is considered',
                  'the selection is returned before the selection loops under %s: enabled transitions are not selected' % at, x)
    # (a)
    brk = [n for n in ast.walk(L_ev) if isinstance(n, ast.Break) and q.enclosing(n, (ast.For, ast.While)) is L_ev]
    good = [b for b in brk if guard_atoms(b, stop=L_ev) == [('truthy', sel, '')]]
    run.check(len(good) >= 1, r, fi.short, '(a) exit once an event class selected something',
              'the event-class loop must stop as soon as the selection is non-empty', L_ev)
    for b in brk:
        run.check(b in good, r, fi.short, '(a) exit condition ' + str(guard_atoms(b, stop=L_ev)),
                  'an exit of the event-class loop depends on something else than the selection being non-empty', b)
    # the selected list: fed where?  form A: append(t) + found flag;  form B: enabled = [t for t in class if ..]; extend(enabled)
    sel_app = [c for c in q.calls(F) if isinstance(c.func, ast.Attribute) and c.func.attr in ('append', 'extend')
               and isinstance(c.func.value, ast.Name) and c.func.value.id == sel]
    run.check(len(sel_app) == 1, r, fi.short, 'single selection site', 'expected one append/extend to the selected list', F)
    src_t = L_src.target
    srcv = src_t.elts[0].id if isinstance(src_t, ast.Tuple) and isinstance(src_t.elts[0], ast.Name) else None
    run.anchor(srcv, r, 'source label of the source grouping')
    pr_t = L_pr.target
    grp = pr_t.elts[1].id if isinstance(pr_t, ast.Tuple) and len(pr_t.elts) == 2 and isinstance(pr_t.elts[1], ast.Name) else None
    # ignore set: receiver of .add / .update inside the source loop
    ign_adds = [c for c in q.calls(L_src) if isinstance(c.func, ast.Attribute) and c.func.attr in ('add', 'update') and isinstance(c.func.value, ast.Name)]
    ign_names = {c.func.value.id for c in ign_adds}
    run.check(len(ign_names) == 1, r, fi.short, 'one ignore set', 'expected exactly one ignore set', L_src)
    ign = next(iter(ign_names)) if ign_names else None

    def sel_classify(tv):
        def classify(op, l, r_, e):
            if op == 'is' and l == tv + '.guard' and r_ == 'None':
                return 'NOGUARD'
            if op == 'truthy' and l == tv + '.guard':
                return ('NOGUARD', False)
            if op == 'truthy' and isinstance(e, ast.Call) and 'evaluate_guard' in q.unparse(e.func):
                return 'GUARDTRUE'
            if op == 'in' and l == srcv and r_ == ign:
                return 'IGNORED'
            return None
        return classify
    FOUND = None
    OUT = None      # form C: the atom that stands for "the class selected something" after the priority loop
    for ap in sel_app[:1]:
        if ap.func.attr == 'append':
            # ---- form A
            tl = q.enclosing(ap, ast.For)
            tv = tl.target.id if tl is not None and isinstance(tl.target, ast.Name) else None
            run.check(tv and ap.args and isinstance(ap.args[0], ast.Name) and ap.args[0].id == tv and tl is not None and isinstance(strip_cast(tl.iter), ast.Name)
                      and strip_cast(tl.iter).id == grp, r, fi.short, '(d) the examined transition is the one selected', 'appended object must be the loop transition of the priority class', ap)
            flag = None
            blk = q.enclosing_stmt(ap)
            par = blk._parent
            body = par.body if hasattr(par, 'body') and blk in par.body else []
            for st in body:
                if isinstance(st, ast.Assign) and isinstance(st.targets[0], ast.Name) and isinstance(st.value, ast.Constant) and st.value.value is True:
                    flag = st.targets[0].id
            run.check(flag is not None, r, fi.short, 'found flag set at the selection site', 'no flag is set where a transition is selected', F)
            if not (flag and ign and tv):
                continue
            FOUND = ('truthy', flag, '')
            ba = q.BoolAbs(sel_classify(tv))
            vs, sat = ba.table(guards(ap, stop=L_src))
            bad = q.table_equals(vs, sat, lambda v: not v.get('IGNORED', False) and (v.get('NOGUARD', False) or v.get('GUARDTRUE', False)))
            run.check(not bad and {'NOGUARD', 'GUARDTRUE', 'IGNORED'} <= set(vs), r, fi.short,
                      '(d) selected iff source not ignored and (no guard or guard true)', 'selection condition differs (atoms %s)' % vs, ap)
            flag_sets = [st for st, v in q.assigned_value(F, flag) if isinstance(v, ast.Constant) and v.value is True]
            for st in flag_sets:
                run.check(guards(st, stop=L_src) == guards(q.enclosing_stmt(ap), stop=L_src), r, fi.short,
                          '(d) found flag set under the selection condition', 'the found flag must be set exactly where a transition is selected', st)
            resets = [st for st, v in q.assigned_value(F, flag) if isinstance(v, ast.Constant) and v.value is False]
            run.check(len(resets) == 1 and q.enclosing(resets[0], (ast.For, ast.While)) is L_src and q.dominates(F, resets[0], L_pr), r,
                      fi.short, 'found flag reset per source', 'the flag must be reset once per source, before its priority classes', L_src)
            inner = [n for n in L_pr.body if isinstance(n, ast.For)]
        else:
            # ---- form B
            a0 = ap.args[0] if ap.args else None
            comp = None
            ev_name = None
            if isinstance(a0, ast.Name):
                defs = [(st, v) for st, v in q.assigned_value(F, a0.id)]
                if len(defs) == 1 and isinstance(strip_cast(defs[0][1]), ast.ListComp) and q.in_block(defs[0][0], L_pr.body) and q.dominates(F, defs[0][0], ap):
                    comp = strip_cast(defs[0][1])
                    ev_name = a0.id
                elif len(defs) > 1:
                    # ---- form C: the class result leaves the priority loop through a variable:
                    #   for .. in classes: enabled = [..]; if enabled: res = enabled; break      else: res = []      if res: selected.extend(res)
                    empt = [d for d in defs if isinstance(strip_cast(d[1]), ast.List) and not strip_cast(d[1]).elts]
                    alias = [d for d in defs if isinstance(strip_cast(d[1]), ast.Name)]
                    if len(alias) == 1 and empt and len(empt) + 1 == len(defs):
                        cv = strip_cast(alias[0][1]).id
                        cdefs = [(st, v) for st, v in q.assigned_value(F, cv)]
                        sta = alias[0][0]
                        par = getattr(sta, '_parent', None)
                        blk_ = [b for b in (getattr(par, 'body', []), getattr(par, 'orelse', [])) if isinstance(b, list) and sta in b]
                        nxt = blk_[0][blk_[0].index(sta) + 1] if blk_ and blk_[0].index(sta) + 1 < len(blk_[0]) else None
                        okc_ = len(cdefs) == 1 and isinstance(strip_cast(cdefs[0][1]), ast.ListComp) and q.in_block(cdefs[0][0], L_pr.body) \
                            and q.in_block(sta, L_pr.body) and guard_atoms(sta, stop=L_pr) == [('truthy', cv, '')] \
                            and isinstance(nxt, ast.Break) and q.enclosing(nxt, (ast.For, ast.While)) is L_pr
                        for st_e, _v in empt:
                            okc_ = okc_ and (st_e in L_pr.orelse or (st_e in L_src.body and q.strictly_before(F, st_e, L_pr)))
                        okc_ = okc_ and q.strictly_before(F, L_pr, ap) and q.in_block(ap, L_src.body)
                        if okc_:
                            comp = strip_cast(cdefs[0][1])
                            ev_name = cv
                            OUT = ('truthy', a0.id, '')
                            defs = cdefs
            good = comp is not None and len(comp.generators) == 1 and isinstance(comp.generators[0].target, ast.Name) and \
                q.unparse(comp.elt) == comp.generators[0].target.id and isinstance(strip_cast(comp.generators[0].iter), ast.Name) and strip_cast(comp.generators[0].iter).id == grp
            run.check(good, r, fi.short, '(d) the transitions selected are the enabled ones of the priority class', 'selection does not come from a filter of the priority class', ap)
            if not (good and ign):
                continue
            tv = comp.generators[0].target.id
            FOUND = ('truthy', ev_name, '')
            ba = q.BoolAbs(sel_classify(tv))
            conds = [(c_, True, 'comp') for c_ in comp.generators[0].ifs] + [g for g in guards(defs[0][0], stop=L_src)]
            vs, sat = ba.table(conds)
            bad = q.table_equals(vs, sat, lambda v: not v.get('IGNORED', False) and (v.get('NOGUARD', False) or v.get('GUARDTRUE', False)))
            run.check(not bad and {'NOGUARD', 'GUARDTRUE', 'IGNORED'} <= set(vs), r, fi.short,
                      '(d) selected iff source not ignored and (no guard or guard true)', 'selection condition differs (atoms %s)' % vs, ap)
            if OUT is None:
                at = guard_atoms(ap, stop=L_pr)
                run.check(at in ([FOUND], []), r, fi.short, '(d) every enabled transition of the class is selected', 'selection is conditional on %s' % at, ap)
            else:
                at = [a for a in guard_atoms(ap, stop=L_src) if not (a[0] == 'not in' and a[1] == srcv and a[2] == ign)]
                run.check(at in ([OUT], []), r, fi.short, '(d) every enabled transition of the class is selected', 'selection is conditional on %s' % at, ap)
            inner = []
    if FOUND is not None:
        flag = FOUND[1]
        # (b) break of the priority loop
        brk = [n for n in ast.walk(L_pr) if isinstance(n, ast.Break) and q.enclosing(n, (ast.For, ast.While)) is L_pr]
        goodb = [b for b in brk if guard_atoms(b, stop=L_pr) == [FOUND]]
        run.check(len(goodb) == 1 and len(brk) == 1, r, fi.short, '(b) lower priority classes skipped once found',
                  'the priority loop must stop exactly when the current class selected something', L_pr)
        for b in goodb:
            for il in inner:
                run.check(q.strictly_before(F, il, b) and not q.in_node(b, il), r, fi.short,
                          '(b) class fully examined before the exit', 'all transitions of the class must be examined before leaving', b)
        # (c) ignore-set updates under found
        src_added = False
        sel_added = False

        def selector_ok(selector):
            selector = strip_cast(selector)
            alts = []
            if isinstance(selector, ast.Name):
                for st, v in q.assigned_value(F, selector.id):
                    v = strip_cast(v)
                    if isinstance(v, ast.IfExp):
                        c_ = q.canon_atom(v.test)
                        if c_ and c_[0] == 'truthy' and c_[1] == 'inner_first':
                            alts.append((v.body if c_[3] else v.orelse, [('truthy', 'inner_first', '')]))
                            alts.append((v.orelse if c_[3] else v.body, [('falsy', 'inner_first', '')]))
                        else:
                            alts.append((v, [('?', q.unparse(v.test), '')]))
                    else:
                        base_ = guard_atoms(L_ev)       # (conditions under which the selection loops run at all are not conditions of the choice)
                        alts.append((v, [a for a in guard_atoms(st) if a not in base_]))
            elif isinstance(selector, ast.IfExp):
                c_ = q.canon_atom(selector.test)
                if c_ and c_[0] == 'truthy' and c_[1] == 'inner_first':
                    alts.append((selector.body if c_[3] else selector.orelse, [('truthy', 'inner_first', '')]))
                    alts.append((selector.orelse if c_[3] else selector.body, [('falsy', 'inner_first', '')]))
            else:
                alts.append((selector, [('truthy', 'inner_first', '')]) if (dotted(selector) or '').endswith('.ancestors_for') else (selector, []))
            okk = len(alts) >= 1
            kinds_ = set()
            for v, at2 in alts:
                sh = dotted(strip_cast(v)) or ''
                if sh.endswith('.ancestors_for'):
                    okk = okk and at2 == [('truthy', 'inner_first', '')]
                    kinds_.add('anc')
                elif sh.endswith('.descendants_for'):
                    okk = okk and at2 == [('falsy', 'inner_first', '')]
                    kinds_.add('desc')
                else:
                    okk = False
            return okk and 'anc' in kinds_
        for c in ign_adds:
            at = guard_atoms(c, stop=L_pr)
            if OUT is not None and not q.in_node(c, L_pr):
                at2 = [a for a in guard_atoms(c, stop=L_src) if not (a[0] == 'not in' and a[1] == srcv and a[2] == ign)]
                good_place = at2 == [OUT] and q.in_block(c, L_src.body) and q.strictly_before(F, L_pr, q.enclosing_stmt(c))
            else:
                good_place = at == [FOUND] and q.in_block(c, L_pr.body)
            run.check(good_place, r, fi.short,
                      '(c) ignore-set update under found: ' + q.unparse(c), 'the ignore set may only grow when the class selected something '
                      '(after guards are known)', c)
            a0 = strip_cast(c.args[0]) if c.args else None
            if c.func.attr == 'add' and isinstance(a0, ast.Name) and a0.id == srcv:
                src_added = True
            if c.func.attr == 'update' and isinstance(a0, (ast.List, ast.Tuple, ast.Set)) and any(isinstance(e, ast.Name) and e.id == srcv for e in a0.elts):
                src_added = True
            # the selector applied to the source: either iterated with add(), or handed to update()
            call_ = None
            if c.func.attr == 'add':
                lp2 = q.enclosing(c, ast.For)
                if lp2 is not None and lp2 is not L_pr and isinstance(a0, ast.Name) and isinstance(lp2.target, ast.Name) and a0.id == lp2.target.id:
                    call_ = strip_cast(lp2.iter)
            elif isinstance(a0, ast.Call):
                call_ = a0
            if isinstance(call_, ast.Call) and call_.args and isinstance(call_.args[0], ast.Name) and call_.args[0].id == srcv and selector_ok(call_.func):
                sel_added = True
        run.check(src_added, r, fi.short, '(c) the source itself is ignored after a hit', 'source must join the ignore set', L_pr)
        run.check(sel_added, r, fi.short, '(c) ancestors (inner-first) / descendants (outer-first) of the source are ignored',
                  'the states given by the inner-first selector applied to the source must join the ignore set', L_pr)
        # skip of ignored sources
        conts = [n for n in L_src.body if isinstance(n, ast.If) and any(isinstance(x, ast.Continue) for x in n.body)]
        okc = any(q.canon_atom(n.test) == ('in', srcv, ign, True) for n in conts)
        run.check(okc, r, fi.short, '(c) ignored sources are skipped', 'missing `if source in ignored: continue`', L_src)

    # ---- C01.4 guard exposure
    r = run.rule('C01.4', 'guards of the eventless class are evaluated with event None, guards of the event class with the pending '
                          'event; every evaluate_guard implementation binds `event` to that argument')
    gcalls = q.calls_to(run, F, {'evaluate_guard'})
    run.floor(len(gcalls), 1, r, 'evaluate_guard calls in _select_transitions')
    ev_t = L_ev.target
    label = ev_t.elts[0].id if isinstance(ev_t, ast.Tuple) and isinstance(ev_t.elts[0], ast.Name) else None
    key_true_evented = [i[2] for i in infos if i[1] == 'has_event'][0]
    for g in gcalls:
        a1 = q.arg(g, 1, 'event')
        a0 = q.arg(g, 0, 'transition')
        tl = q.enclosing(g, ast.For)
        comp_ = q.enclosing(g, (ast.ListComp, ast.GeneratorExp))
        examined = None
        if comp_ is not None and q.in_node(comp_, tl):
            examined = comp_.generators[0].target.id if isinstance(comp_.generators[0].target, ast.Name) else None
        elif tl is not None and isinstance(tl.target, ast.Name):
            examined = tl.target.id
        run.check(isinstance(a0, ast.Name) and examined is not None and a0.id == examined, r, fi.short,
                  'guard evaluated on the examined transition', 'evaluate_guard must receive the transition being examined', g)
        # case split of the exposed event: the pending event for the event class, None for the eventless class (conditional expression,
        # if / else assignments or default-then-override alike)
        cs = q.cases(F, a1) if a1 is not None else []
        good = len(cs) == 2
        for v, at in cs:
            v = strip_cast(v)
            evented = None
            for a in at:
                if a[1] == label and a[0] in ('truthy', 'falsy'):
                    evented = (a[0] == 'truthy') == key_true_evented
                elif a[0] in ('is', 'is not') and a[1].endswith('.event') and a[2] == 'None':
                    evented = a[0] == 'is not'
            if evented is True:
                good = good and isinstance(v, ast.Name) and v.id == evp
            elif evented is False:
                good = good and isinstance(v, ast.Constant) and v.value is None
            else:
                good = False
        if isinstance(a1, ast.Name):
            def top_index(n_):
                for i_, s_ in enumerate(L_ev.body):
                    if q.in_node(n_, s_):
                        return i_
                return None
            for st, v in q.assigned_value(F, a1.id):
                # defined afresh for every event class, before the guards of that class are evaluated
                good = good and top_index(st) is not None and top_index(g) is not None and top_index(st) < top_index(g)
        run.check(good, r, fi.short, 'event exposed to guards is None for the eventless class',
                  'the event argument of evaluate_guard must be `event if <event class> else None`, defined per event class', g)
    impls = run.prog.impls('Evaluator', 'evaluate_guard')
    run.floor(len(impls), 2, r, 'evaluate_guard implementations')
    for m in impls:
        M = m.node
        ps = q.param_names(M)
        evn = ps[2] if len(ps) > 2 else None
        dicts = [n for n in q.walk(M) if isinstance(n, ast.Dict)]
        hit = False
        for d in dicts:
            for k, v in zip(d.keys, d.values):
                if k is not None and q.const_str(k) == 'event':
                    hit = isinstance(v, ast.Name) and v.id == evn
        run.check(hit, r, m.short, "context binds 'event' to the event parameter", "guard context must expose `event` = the argument", M)
        ecalls = q.calls_to(run, M, {'_evaluate_code'})
        run.check(len(ecalls) >= 1, r, m.short, 'guard goes through _evaluate_code', 'guard must be evaluated by _evaluate_code', M)
        for c in ecalls:
            a0 = strip_cast(c.args[0]) if c.args else None
            s = q.unparse(a0) if a0 is not None else ''
            run.check(ps[1] + '.guard' in s or "getattr(%s, 'guard'" % ps[1] in s, r, m.short, 'evaluates the guard of the transition',
                      'must evaluate transition.guard', c)
            ac = q.arg(c, None, 'additional_context')
            okk = ac is not None and (isinstance(ac, ast.Dict) and any(q.const_str(k) == 'event' for k in ac.keys if k is not None)
                                      or isinstance(ac, ast.Name) and any(
                                          isinstance(v, ast.Dict) and any(q.const_str(k) == 'event' for k in v.keys if k is not None)
                                          for st, v in q.assigned_value(M, ac.id)))
            run.check(okk, r, m.short, "the context with 'event' reaches _evaluate_code", 'event context not passed', c)
            # the evaluation is the verdict: returned as it is, under no condition other than "the transition has a guard"
            at = [a for a in guard_atoms(c)]
            g_forms = (ps[1] + '.guard', "getattr(%s, 'guard', None)" % ps[1])
            okg = all(a[1] in g_forms and (a[0], a[2]) in (('truthy', ''), ('is not', 'None')) for a in at)
            st_ = q.enclosing_stmt(c)
            returned = any(isinstance(x_, ast.Return) and x_.value is not None and any(strip_cast(v_) is c for v_, at_ in q.cases(M, x_.value)) for x_ in q.walk(M, False))
            run.check(okg and returned, r, m.short, 'the value of the guard is the verdict',
                      'the guard is evaluated under %s / its value is not returned as it is' % at, c)


def rules_guard_compilation(run):
    r = run.rule('C01.10', 'a guard is compiled as an expression: every entry of the cache _evaluate_code reads from was compiled in eval mode '
                           '(a cache shared with statements would hand back a code object whose evaluation yields None: the guard never holds)')
    prog = run.prog
    ev = run.fn('PythonEvaluator._evaluate_code')
    E = ev.node
    comps = [c for c in q.calls(E) if isinstance(c.func, ast.Name) and c.func.id == 'compile']
    run.check(len(comps) == 1 and q.const_str(q.arg(comps[0], 2, 'mode')) == 'eval', r, ev.short, "compile(code, .., 'eval')", 'guards are not compiled in eval mode', E)
    evals = [c for c in q.calls(E) if isinstance(c.func, ast.Name) and c.func.id == 'eval']
    run.check(len(evals) == 1, r, ev.short, 'one eval site', 'found %d' % len(evals), E)
    caches = {f for c, f, k, n in prog.direct_writes(ev) if c == 'PythonEvaluator' and k.startswith('mut:setdefault')} | \
        {f for c, f, k, n in prog.direct_writes(ev) if c == 'PythonEvaluator' and k == 'item-assign'}
    for fld in sorted(caches):
        for m in prog.cls('PythonEvaluator').methods.values():
            for c, f, k, n in prog.direct_writes(m):
                if c == 'PythonEvaluator' and f == fld and (k.startswith('mut:setdefault') or k == 'item-assign'):
                    cc = [x for x in ast.walk(n) if isinstance(x, ast.Call) and isinstance(x.func, ast.Name) and x.func.id == 'compile']
                    cc = cc or [x for st, v in q.assigned_value(m.node, '?') for x in []]
                    modes = {q.const_str(q.arg(x, 2, 'mode')) for x in cc}
                    run.check(modes == {'eval'}, r, m.short, 'entries of %s are compiled in eval mode' % fld,
                              'the cache guards are evaluated from also receives code compiled in mode %s' % sorted(str(x) for x in modes), n)


def rules_priority_values(run):
    r = run.rule('C01.9', 'a priority is a number that may be 0 (the default) or negative: it is never tested by truthiness, and a local that holds '
                          'either a priority or None is compared with None explicitly')
    from ..cfg import atoms as _atoms
    fi = run.fn('Interpreter._select_transitions')
    F = fi.node
    holders = set()
    for n in q.walk(F):
        if isinstance(n, ast.Assign) and len(n.targets) == 1 and isinstance(n.targets[0], ast.Name) and \
                any(isinstance(x, ast.Attribute) and x.attr == 'priority' for x in ast.walk(n.value)) and not isinstance(n.value, (ast.Lambda, ast.Compare)):
            holders.add(n.targets[0].id)
    tests = []
    for n in q.walk(F):
        if isinstance(n, (ast.If, ast.While, ast.IfExp)):
            tests.append(n.test)
        elif isinstance(n, ast.comprehension):
            tests += n.ifs
        elif isinstance(n, ast.Assert):
            tests.append(n.test)
    n_ok = 0
    for t in tests:
        leaves = []

        def collect(e):
            e = strip_cast(e)
            if isinstance(e, ast.BoolOp):
                for v in e.values:
                    collect(v)
            elif isinstance(e, ast.UnaryOp) and isinstance(e.op, ast.Not):
                collect(e.operand)
            else:
                leaves.append(e)
        collect(t)
        for e in leaves:
            bad = (isinstance(e, ast.Name) and e.id in holders) or (isinstance(e, ast.Attribute) and e.attr == 'priority')
            if bad:
                run.fail(r, fi.short, 'truthiness test of priority value ' + q.unparse(e), 'priority 0 (the default class) is treated like "no priority": '
                         'the pre-emption of lower classes is skipped when the selected class is the default one', e)
            else:
                n_ok += 1
    run.ok(r, fi.short, '%d condition leaves examined, %d local(s) holding a priority: %s' % (n_ok, len(holders), sorted(holders)), F)


def rules_groupby(run, rid='C01.6'):
    r = run.rule(rid, 'sorted_groupby puts every item in exactly one group (unconditionally), sorts groups by label and honours '
                          'the caller\'s reverse')
    fi = run.fn('sorted_groupby')
    F = fi.node
    ps = q.param_names(F)
    run.anchor(ps[:3] == ['iterable', 'key', 'reverse'] or len(ps) >= 3, r, 'parameters (iterable, key, reverse)')
    it, key, rev = ps[:3]
    loops = [n for n in q.walk(F, False) if isinstance(n, ast.For) and isinstance(strip_cast(n.iter), ast.Name) and strip_cast(n.iter).id == it]
    run.check(len(loops) == 1, r, fi.short, 'single pass over the items', 'expected one loop over the iterable', F)
    for lp in loops:
        v = lp.target.id if isinstance(lp.target, ast.Name) else None
        apps = [c for c in q.calls(lp) if isinstance(c.func, ast.Attribute) and c.func.attr == 'append']
        run.check(len(apps) == 1, r, fi.short, 'one append per item', 'each item must be appended to exactly one group', lp)
        for ap in apps:
            run.check(not guards(ap, stop=lp), r, fi.short, 'append is unconditional', 'an item may be dropped from its group', ap)
            run.check(ap.args and isinstance(ap.args[0], ast.Name) and ap.args[0].id == v, r, fi.short, 'the item itself is appended', 'wrong value appended', ap)
            recv = strip_cast(ap.func.value)
            good = isinstance(recv, ast.Subscript) and isinstance(strip_cast(recv.slice), ast.Call) and \
                q.unparse(strip_cast(recv.slice)) == '%s(%s)' % (key, v)
            if isinstance(recv, ast.Call) and isinstance(recv.func, ast.Attribute) and recv.func.attr == 'setdefault' and len(recv.args) == 2:
                # groups.setdefault(key(item), []).append(item)
                good = q.unparse(strip_cast(recv.args[0])) == '%s(%s)' % (key, v) and isinstance(recv.args[1], ast.List) and not recv.args[1].elts
            run.check(good, r, fi.short, 'group label is key(item)', 'the group must be selected by key(item)', ap)
    rets = [n for n in q.walk(F, False) if isinstance(n, ast.Return)]
    # fewer than two groups need no sorting: `return list(groups.items())` under len(groups) < 2 is the sorted result
    def few(x):
        v_ = q.unparse(strip_cast(x.value)) if x.value is not None else ''
        m_ = re.match(r'^(?:list\()?(\w+)\.items\(\)\)?$', v_)
        return bool(m_) and any((a[0] == '<' and a[1] == 'len(%s)' % m_.group(1) and a[2] == '2') or (a[0] == '<=' and a[1] == 'len(%s)' % m_.group(1) and a[2] == '1')
                                or (a[0] == 'falsy' and a[1] == m_.group(1)) for a in guard_atoms(x))
    rets = [x for x in rets if not few(x)]
    run.check(len(rets) == 1, r, fi.short, 'single return', 'expected a single return', F)
    for rt in rets:
        v = strip_cast(rt.value)
        good = isinstance(v, ast.Call) and isinstance(v.func, ast.Name) and v.func.id == 'sorted'
        run.check(good, r, fi.short, 'groups are returned sorted', 'the groups must be sorted by label', rt)
        if good:
            rv = q.arg(v, None, 'reverse')
            run.check(isinstance(rv, ast.Name) and rv.id == rev, r, fi.short, "reverse honours the caller's argument",
                      'reverse= must be the parameter (a constant silently changes inner-first / priority direction)', rt)
            kf = q.key_function(run, F, q.arg(v, None, 'key')) if q.arg(v, None, 'key') is not None else None
            run.check(kf is not None and q.unparse(kf[1]) == kf[0] + '[0]', r, fi.short, 'sorted by label only',
                      'sort key must be the label (component 0)', rt)
            a0 = strip_cast(v.args[0]) if v.args else None
            run.check(isinstance(a0, ast.Call) and isinstance(a0.func, ast.Attribute) and a0.func.attr == 'items', r, fi.short,
                      'all (label, group) pairs are returned', 'must return the items of the grouping', rt)
    run.check(q.param_defaults(F).get(rev, 0) is False, r, fi.short, 'reverse defaults to False', 'default direction must be ascending', F)


def check(run):
    run.guard(rules_priority_values, run)
    run.guard(rules_guard_compilation, run)
    run.guard(rules_selection, run)
    run.guard(c05.rules_consumption, run, 'C01', '.5')
    run.guard(rules_groupby, run)
    run.guard(c05.rules_select_event, run, 'C01', '.7')
    # the queries the decision rests on (depth_for / ancestors_for / descendants_for) must not answer from stale derived data after an edit
    from .c16 import rules_caches
    run.guard(rules_caches, run, 'C01', '.8')
