"""C16 Structural editing keeps a statechart sound; failed edits change nothing."""
import ast
import re

from .. import q
from ..cfg import guards, guard_atoms, build_cfg
from ..prog import strip_cast, dotted, own_nodes

EXPLANATION = (
    'Static rules over the public mutators of Statechart: on no path does a write to _states/_parent/_children/_transitions or to an '
    'element field precede a possible rejection (an explicit raise, or a call whose summary may raise and whose argument is a '
    'parameter-derived value that no dominating existence check has validated yet); add/remove/rename touch the same co-update set of '
    'structures; remove_state recurses over a copy of the children, removes every transition touching the state and resets every '
    'initial/memory that pointed to it; move_state refuses to move into itself or a descendant before writing and resets the '
    'references to the moved state; every normal exit of add / remove / move has performed the defining write (no silent no-op); the registration tests of add_state / add_transition are those of C12.1. Decides atomicity of '
    'rejected edits and the shape of the cascades, not the full post-state against an independent model.')

MUTATORS = ['add_state', 'remove_state', 'rename_state', 'move_state', 'add_transition', 'remove_transition', 'rotate_transition']
STRUCT = ('_states', '_parent', '_children', '_transitions')
ELEMENT_CLASSES = ('Transition', 'StateMixin', 'CompoundState', 'HistoryStateMixin', 'ContractMixin', 'ActionStateMixin')


def may_raise_functions(prog):
    """Functions of Statechart that can raise StatechartError/ValueError (directly or through callees)."""
    ci = prog.cls('Statechart')
    direct = {}
    for m in ci.methods.values():
        direct[m.short] = any(isinstance(n, ast.Raise) for n in own_nodes(m.node))
    changed = True
    while changed:
        changed = False
        for m in ci.methods.values():
            if direct[m.short]:
                continue
            for t, site in prog.callees(m):
                if direct.get(t.short):
                    direct[m.short] = True
                    changed = True
                    break
    return {k for k, v in direct.items() if v}


def element_writes(prog, fi):
    """Writes to statechart structures and to fields of model elements performed directly in fi."""
    out = []
    for c, f, k, n in prog.direct_writes(fi):
        if c == 'Statechart' and f in STRUCT:
            out.append((c, f, k, n))
        elif c in ELEMENT_CLASSES or (c.startswith('?') and f in ('_source', '_target', '_name', 'initial', 'memory')):
            out.append((c.lstrip('?'), f, k, n))
    return out


class Validated:
    """Which argument expressions are known to denote existing states / registered transitions at a program point."""

    def __init__(self, run, fi, raising):
        self.run = run
        self.fi = fi
        self.F = fi.node
        self.cfg = build_cfg(self.F)
        self.raising = raising
        self.params = set(q.param_names(self.F)[1:])

    def param_derived(self, expr):
        """Names of parameters the expression's value derives from (through plain local assignments), else None if internal."""
        expr = strip_cast(expr)
        names = {n.id for n in ast.walk(expr) if isinstance(n, ast.Name)}
        out = set()
        for nm in names:
            if nm in self.params:
                out.add(nm)
        return out

    def is_internal(self, expr):
        """Value read from the statechart's own structures (cannot be rejected by an existence check)."""
        expr = strip_cast(expr)
        if isinstance(expr, ast.Attribute):
            base = strip_cast(expr.value)
            if isinstance(base, ast.Name) and base.id not in self.params:
                # attribute of a local: local must itself come from a query / internal iteration
                return self.local_internal(base.id)
            if isinstance(base, ast.Name) and base.id in self.params:
                return False
        if isinstance(expr, ast.Name):
            if expr.id in self.params:
                return False
            return self.local_internal(expr.id)
        if isinstance(expr, ast.Constant):
            return True
        return False

    def local_internal(self, name, depth=0):
        if depth > 4:
            return False
        srcs = [v for st, v in q.assigned_value(self.F, name)] + [lp.iter for lp in q.for_targets(self.F, name)]
        if not srcs:
            return False
        for s in srcs:
            s = strip_cast(s)
            okk = False
            for n in ast.walk(s):
                if isinstance(n, ast.Call):
                    shorts, ext = q.callee_shorts(self.run, n)
                    if any(x.startswith('Statechart.') for x in shorts):
                        okk = True
                if isinstance(n, ast.Attribute) and isinstance(n.value, ast.Name) and n.value.id == 'self' and n.attr in STRUCT + ('transitions', 'states'):
                    okk = True
            if isinstance(s, ast.Name) and s.id not in self.params and self.local_internal(s.id, depth + 1):
                okk = True
            if isinstance(s, ast.Attribute) and isinstance(s.value, ast.Name) and s.value.id not in self.params and self.local_internal(s.value.id, depth + 1):
                okk = True
            if not okk:
                return False
        return True

    def validators_of(self, text):
        """CFG nodes that establish `text` denotes a registered state/transition: may-raise query calls with that argument,
        and membership tests with a raise on the failing branch."""
        out = []
        for c in q.calls(self.F, nested=False):
            shorts, ext = q.callee_shorts(self.run, c)
            if any(s in self.raising for s in shorts) and c.args and q.unparse(c.args[0]) == text:
                out.append(c)
        for n in q.walk(self.F, False):
            if isinstance(n, ast.If) and any(isinstance(x, ast.Raise) for x in n.body):
                cc = q.canon_atom(n.test)
                if cc and cc[0] == 'in' and cc[1] == text and not cc[3] and cc[2] in ('self._states', 'self._transitions', 'self._states.keys()'):
                    out.append(n)
        return out

    def rejecting(self, call):
        """Can this call to a may-raise function reject (raise) given what is validated before it?"""
        if not call.args:
            return False
        for a in call.args:
            if self.is_internal(a):
                continue
            if not self.param_derived(a):
                # locals not derived from parameters and not internal: unknown -> conservative
                if isinstance(strip_cast(a), ast.Name) or isinstance(strip_cast(a), ast.Attribute):
                    return True
                continue
            text = q.unparse(a)
            node = self.cfg.node_of(call)
            prior = [v for v in self.validators_of(text) if v is not call and self.cfg.node_of(v).id != node.id and self.cfg.dominates(self.cfg.node_of(v), node)]
            if not prior:
                return True
        return False


def rules_atomic(run):
    r = run.rule('C16.1', 'no write before a possible rejection: in every public mutator no write to the structures or to an element field precedes, on any path, '
                          'an explicit raise or a may-raise call on a not yet validated parameter-derived value')
    prog = run.prog
    raising = may_raise_functions(prog)
    run.floor(len(raising), 10, r, 'may-raise functions of Statechart')
    n_raise = 0
    for name in MUTATORS:
        fi = run.fn('Statechart.' + name)
        F = fi.node
        cfg = build_cfg(F)
        V = Validated(run, fi, raising)
        writes = [(c, f, k, n) for c, f, k, n in element_writes(prog, fi)]
        # calls to other mutators are writes too
        for c in q.calls(F, nested=False):
            shorts, ext = q.callee_shorts(run, c)
            if any(s.split('.')[-1] in MUTATORS and s.startswith('Statechart.') for s in shorts):
                writes.append(('Statechart', 'via ' + shorts[0].split('.')[-1], 'call', c))
        rejections = []
        for x in q.raises_in(F, nested=False):
            if q.raised_class(x) in ('StatechartError', 'ValueError'):
                rejections.append((x, 'raise ' + q.raised_class(x)))
        for c in q.calls(F, nested=False):
            shorts, ext = q.callee_shorts(run, c)
            if any(s in raising for s in shorts) and V.rejecting(c):
                rejections.append((c, 'may-raise:%s(%s)' % (shorts[0].split('.')[-1], ', '.join(q.unparse(a) for a in c.args))))
        n_raise += len(rejections)
        for c, f, k, wn in writes:
            wnode = cfg.node_of(wn)
            for rn, label in rejections:
                rnode = cfg.node_of(rn)
                if rnode.id == wnode.id:
                    continue
                # the exceptional edge out of the writing statement itself means the write did not happen
                reach = False
                for y, lab in cfg.succ[wnode.id]:
                    if lab == 'exc':
                        continue
                    if y == rnode.id or cfg.reaches(cfg.nodes[y], rnode):
                        reach = True
                run.check(not reach, r, fi.short, 'write:%s.%s before %s' % (c, f, label),
                          'a rejected edit leaves the statechart modified: %s.%s is written and %s can still raise afterwards' % (c, f, label), wn)
        run.ok(r, fi.short, '%d writes x %d rejection points examined' % (len(writes), len(rejections)), F)
    run.floor(n_raise, 12, r, 'rejection points in the mutators')


def rules_coupdate(run):
    r = run.rule('C16.2', 'co-update sets: add_state, remove_state and rename_state each touch _states[k], _parent[k], _children[k] and the parent\'s children list')
    prog = run.prog
    for name in ('add_state', 'remove_state', 'rename_state'):
        fi = run.fn('Statechart.' + name)
        ws = {(f, k.split(':')[0] if k.startswith('mut') else k) for c, f, k, n in prog.direct_writes(fi) if c == 'Statechart'}
        fields = {f for f, k in ws}
        run.check({'_states', '_parent', '_children'} <= fields, r, fi.short, 'touches _states, _parent and _children', 'touches only %s' % sorted(fields), fi.node)
        elem = [k for c, f, k, n in prog.direct_writes(fi) if c == 'Statechart' and f == '_children' and k.startswith('mut-elem')]
        run.check(len(elem) >= 1, r, fi.short, "updates the parent's children list", 'parent children list untouched', fi.node)
    ad = run.fn('Statechart.add_state')
    sp = q.param_names(ad.node)[1]
    rm = run.fn('Statechart.remove_state')
    np_ = q.param_names(rm.node)[1]
    rn = run.fn('Statechart.rename_state')
    old, new = q.param_names(rn.node)[1:3]
    for fld in ('_states', '_parent', '_children'):
        a = [x for x in q.walk(ad.node, False) if isinstance(x, ast.Assign) and q.unparse(x.targets[0]) == 'self.%s[%s.name]' % (fld, sp)]
        run.check(len(a) == 1, r, ad.short, 'add_state creates %s[state.name]' % fld, 'entry not created', ad.node)
        p_ = [c for c in q.calls(rm.node) if q.unparse(c.func) == 'self.%s.pop' % fld and c.args and q.unparse(c.args[0]) in (np_, 'state.name')]
        d_ = [x for x in q.walk(rm.node, False) if isinstance(x, ast.Delete) and q.unparse(x.targets[0]) in ('self.%s[%s]' % (fld, np_), 'self.%s[state.name]' % fld)]
        run.check(len(p_) + len(d_) == 1, r, rm.short, 'remove_state deletes %s[name]' % fld, 'entry survives the removal', rm.node)
        m_ = [x for x in q.walk(rn.node, False) if isinstance(x, ast.Assign) and q.unparse(x.targets[0]) == 'self.%s[%s]' % (fld, new)
              and q.unparse(x.value) == 'self.%s.pop(%s)' % (fld, old)]
        run.check(len(m_) == 1, r, rn.short, 'rename_state moves %s[old] to %s[new]' % (fld, fld), 'key not moved', rn.node)
    ws = [n for c, f, k, n in prog.direct_writes(rn) if f == '_name']
    run.check(len(ws) == 1 and q.unparse(ws[0].value) == q.param_names(rn.node)[2], r, rn.short, 'the state object itself is renamed', 'state._name not updated', rn.node)


def rules_cascade(run):
    r = run.rule('C16.3', 'cascade: remove_state recurses over a copy of the children, removes every transition from or to the state, resets every initial/memory '
                          'equal to it; move_state refuses a move into itself or a descendant before writing and resets references to the moved state')
    prog = run.prog
    fi = run.fn('Statechart.remove_state')
    F = fi.node
    np_ = q.param_names(F)[1]
    rec = [c for c in q.calls_to(run, F, {'Statechart.remove_state'})]
    run.check(len(rec) == 1, r, fi.short, 'children removed recursively', 'found %d recursive calls' % len(rec), F)
    for c in rec:
        lp = q.enclosing(c, ast.For)
        it = strip_cast(lp.iter) if lp is not None else None
        copied = isinstance(it, ast.Call) and isinstance(it.func, ast.Name) and it.func.id in ('list', 'tuple', 'sorted') and it.args and \
            'Statechart.children_for' in q.callee_shorts(run, strip_cast(it.args[0]))[0] if isinstance(it, ast.Call) and it.args and isinstance(strip_cast(it.args[0]), ast.Call) else False
        run.check(copied, r, fi.short, 'recursion iterates a copy of the children list', 'iterating the live list while removing skips children', c)
        run.check(lp is not None and isinstance(lp.target, ast.Name) and q.unparse(c.args[0]) == lp.target.id and not guards(c, stop=lp), r, fi.short, 'every child is removed', 'conditional', c)
    rt = [c for c in q.calls_to(run, F, {'Statechart.remove_transition'})]
    run.check(len(rt) == 1, r, fi.short, 'touching transitions removed', 'found %d' % len(rt), F)
    for c in rt:
        lp = q.enclosing(c, ast.For)
        tv = lp.target.id if lp is not None and isinstance(lp.target, ast.Name) else '?'

        st_alias = [x.targets[0].id + '.name' for x in q.walk(F, False) if isinstance(x, ast.Assign) and isinstance(x.targets[0], ast.Name)
                    and q.unparse(x.value) == 'self.state_for(%s)' % np_]

        def classify(op, l, r_, e):
            names = (np_,) + tuple(st_alias)
            if op == '==' and {l, r_} & {tv + '.source'} and {l, r_} & set(names):
                return 'FROM'
            if op == '==' and {l, r_} & {tv + '.target'} and {l, r_} & set(names):
                return 'TO'
            return None
        gl = list(guards(c, stop=lp))
        it = strip_cast(lp.iter)
        if isinstance(it, ast.Name):
            # collected first, removed afterwards:  involved = [t for t in self.transitions if ..];  for t in involved: remove_transition(t)
            defs_ = q.assigned_value(F, it.id)
            if len(defs_) == 1 and isinstance(strip_cast(defs_[0][1]), ast.ListComp) and len(strip_cast(defs_[0][1]).generators) == 1:
                comp_ = strip_cast(defs_[0][1])
                g_ = comp_.generators[0]
                if isinstance(g_.target, ast.Name) and q.unparse(comp_.elt) == g_.target.id:
                    tv = g_.target.id
                    gl = gl + [(i_, True, 'comp') for i_ in g_.ifs]
                    it = strip_cast(g_.iter)
                    # a freshly built list is a copy already
                    if q.unparse(it) in ('self.transitions', 'self._transitions'):
                        it = ast.parse('list(%s)' % q.unparse(it), mode='eval').body
        st_alias = st_alias + [x.targets[0].id for x in q.walk(F, False) if isinstance(x, ast.Assign) and isinstance(x.targets[0], ast.Name)
                               and q.unparse(x.value) == 'self.state_for(%s).name' % np_]
        ba = q.BoolAbs(classify)
        vs, sat = ba.table(gl)
        bad = q.table_equals(vs, sat, lambda v: v.get('FROM', False) or v.get('TO', False))
        run.check(not bad and set(vs) == {'FROM', 'TO'}, r, fi.short, 'removed iff source or target is the state', 'condition differs (%s)' % vs, c)
        src = q.unparse(it)
        run.check(src in ('list(self.transitions)', 'self.transitions', 'list(self._transitions)'), r, fi.short, 'all transitions examined, over a copy', 'iterates %s' % src, lp)
    for attr, klass in (('initial', 'CompoundState'), ('memory', 'HistoryStateMixin')):
        for mname in ('remove_state', 'move_state'):
            m = run.fn('Statechart.' + mname)
            pn = q.param_names(m.node)[1]
            ws = [n for c, f, k, n in prog.direct_writes(m) if f == attr and isinstance(n, ast.Assign) and isinstance(n.value, ast.Constant) and n.value.value is None]
            hit = False
            for w in ws:
                lp = q.enclosing(w, ast.For)
                if lp is None:
                    continue
                ov = q.unparse(w.targets[0].value)
                at = guard_atoms(w, stop=lp)
                same = [a for a in at if a[0] == '==' and {a[1], a[2]} == {ov + '.' + attr, pn}]
                kind = [a for a in at if a[0] == 'truthy' and klass in a[1] and ('isinstance(%s,' % ov) in a[1].replace(' ', '')]
                neg = [a for a in at if a[0] == 'falsy' and 'isinstance(' in a[1]]
                if same and kind and len(at) == len(same) + len(kind) + len(neg) and '_states' in q.unparse(lp.iter):
                    hit = True
            run.check(hit, r, m.short, '%s references to the state are reset for every %s' % (attr, klass), 'a dangling %s reference can remain' % attr, m.node)
    mv = run.fn('Statechart.move_state')
    M = mv.node
    npar = q.param_names(M)[2]
    nm = q.param_names(M)[1]
    rz = [x for x in q.raises_in(M) if q.raised_class(x) == 'StatechartError']
    good = False

    def classify_mv(op, l, r_, e):
        rhs = r_
        if rhs.isidentifier():
            rhs = q.resolved_text(M, ast.Name(id=rhs, ctx=ast.Load()))
        rhs = rhs.replace(' ', '')
        if op == 'in' and l == npar and rhs in ('[%s]+self.descendants_for(%s)' % (nm, nm), 'self.descendants_for(%s)+[%s]' % (nm, nm)):
            return 'SELF_OR_DESC'
        if op == 'in' and l == npar and rhs == 'self.descendants_for(%s)' % nm:
            return 'DESC'
        if op == '==' and {l, r_} == {npar, nm}:
            return 'SELF'
        return None
    for x in rz:
        ba = q.BoolAbs(classify_mv)
        vs, sat = ba.table([g for g in guards(x) if not g[2].startswith('early')])
        if set(vs) & {'SELF_OR_DESC', 'DESC', 'SELF'} and set(vs) <= {'SELF_OR_DESC', 'DESC', 'SELF'}:
            bad = q.table_equals(vs, sat, lambda v: v.get('SELF_OR_DESC', False) or v.get('SELF', False) or v.get('DESC', False))
            if not bad and ('SELF_OR_DESC' in vs or {'SELF', 'DESC'} <= set(vs)):
                good = True
    run.check(good, r, mv.short, 'refuses to move a state into itself or one of its descendants', 'missing test', M)
    mv_alias = [x.targets[0].id for x in q.walk(M, False) if isinstance(x, ast.Assign) and isinstance(x.targets[0], ast.Name) and q.unparse(x.value) == 'self.state_for(%s)' % nm]
    hm = [n for c, f, k, n in prog.direct_writes(mv) if f == 'memory' and q.unparse(n.targets[0]) in [a_ + '.memory' for a_ in mv_alias]]
    own = []
    if hm:
        from ..cfg import atoms as _atoms
        for g in guards(hm[0]):
            if not g[2].startswith('early'):
                own += _atoms(g[0], g[1])
    good_hm = len(hm) == 1 and len(own) == 1 and own[0][0] == 'truthy' and 'HistoryStateMixin' in own[0][1] and \
        any(own[0][1].replace(' ', '').startswith('isinstance(%s,' % a_) for a_ in mv_alias)
    run.check(good_hm, r, mv.short, 'a moved history state always forgets its memory', 'the reset is missing or depends on %s' % own, M)
    ws = {(f, k) for c, f, k, n in prog.direct_writes(mv) if c == 'Statechart'}
    app = [c for c in q.calls(M) if isinstance(c.func, ast.Attribute) and c.func.attr == 'append' and 'self._children' in q.unparse(c.func.value)
           and npar in q.unparse(c.func.value) and c.args and q.unparse(c.args[0]) == nm]
    run.check(('_parent', 'item-assign') in ws and ('_children', 'mut-elem:remove') in ws and len(app) == 1, r, mv.short,
              'parent link and both children lists updated', 'writes are %s' % sorted(ws), M)


def rules_effect(run):
    """A successful edit has its documented effect: no path through an edit reaches a normal exit (return or end of the function) without
    having performed the write that IS the edit. (An early `return` for a case judged redundant - "already registered" decided with ==
    on value-comparable elements - silently drops the caller's object.)"""
    from ..cfg import build_cfg
    prog = run.prog
    r = run.rule('C16.8', 'a successful edit has its effect: every path to a normal exit of add_state / add_transition / remove_state / remove_transition / move_state '
                          'passes the defining write (no silent no-op)')
    table = {
        'add_state': lambda n: isinstance(n, ast.Assign) and isinstance(n.targets[0], ast.Subscript) and q.unparse(n.targets[0].value) == 'self._states',
        'add_transition': lambda n: isinstance(n, ast.Call) and q.unparse(n.func) in ('self._transitions.append', 'self._transitions.insert'),
        'remove_transition': lambda n: (isinstance(n, ast.Call) and q.unparse(n.func) in ('self._transitions.remove', 'self._transitions.pop')) or
                                       (isinstance(n, ast.Delete) and q.unparse(n.targets[0]).startswith('self._transitions[')),
        'remove_state': lambda n: (isinstance(n, ast.Call) and q.unparse(n.func) == 'self._states.pop') or
                                  (isinstance(n, ast.Delete) and q.unparse(n.targets[0]).startswith('self._states[')),
        'move_state': lambda n: isinstance(n, ast.Assign) and isinstance(n.targets[0], ast.Subscript) and q.unparse(n.targets[0].value) == 'self._parent',
    }       # (rename_state(x, x) legitimately returns at once: renaming to the same name is the identity)
    for name, pred in table.items():
        fi = run.fn('Statechart.' + name)
        F = fi.node
        cfg = build_cfg(F)
        eff = []
        for n in q.walk(F, False):
            if pred(n):
                st = n if isinstance(n, ast.stmt) else q.enclosing_stmt(n)
                # unconditional within its statement (not in a short-circuit operand or a conditional expression)
                eff.append(st)
        run.anchor(eff, r, 'defining write of ' + name)
        # `if any(t is transition for t in self._transitions): return` - the very object is registered already: its effect holds (== would not do: elements
        # compare by value)
        par_ = q.param_names(F)[1] if len(q.param_names(F)) > 1 else None
        if name.startswith('add_') and par_:
            for x in q.walk(F, False):
                if isinstance(x, ast.Return) and any(pol and re.search(r'\bis %s\b|\b%s is (?!not\b|None\b)' % (par_, par_), q.unparse(e_)) for e_, pol, *_ in guards(x)):
                    eff.append(x)
        nodes = [q.cfgnode(F, e) for e in eff]
        run.check(cfg.cut(nodes, cfg.exit), r, fi.short, 'every normal exit has performed the defining write',
                  'a path returns normally without %s: the edit silently does nothing' % {'add_state': 'registering the state', 'add_transition': 'registering the transition',
                  'remove_transition': 'removing the transition', 'remove_state': 'removing the state', 'move_state': 're-parenting the state',
                  'rename_state': 'renaming the state'}[name], F)


def check(run):
    run.guard(rules_atomic, run)
    run.guard(rules_effect, run)
    run.guard(rules_coupdate, run)
    run.guard(rules_cascade, run)
    from .c12 import rules_registration
    run.guard(rules_registration, run, 'C16', '.4')
    from .c17 import rules_rename
    run.guard(rules_rename, run, 'C16', ('.5', '.6'))
    run.guard(rules_caches, run, 'C16', '.7')


STRUCT_FIELDS = {'_states', '_parent', '_children', '_transitions', 'name', 'description', '_preamble'}


def derived_caches(prog):
    """Fields of Statechart that hold derived data (memoised query results or redundant indexes): every field outside the
    structural ones that is written outside __init__. -> {field: [(writer FuncInfo, node)]}"""
    ci = prog.cls('Statechart')
    caches = {}
    for m in ci.methods.values():
        if m.name == '__init__':
            continue
        for c, f, k, n in prog.direct_writes(m):
            if c == 'Statechart' and f not in STRUCT_FIELDS:
                caches.setdefault(f, []).append((m, n))
    return caches


def _depends_on(prog, m, node):
    """Structural / element fields the derived entry written at `node` is computed from: fields read (transitively through
    the queries it calls) by the statement that writes it, and by the enclosing function when that is a query."""
    out = set()
    st = node
    while st is not None and not isinstance(st, ast.stmt):
        st = getattr(st, '_parent', None)
    scope = [st] if st is not None else []
    if m.name not in MUTATORS and m.name != 'copy_from_statechart':
        scope = [m.node]      # a memoising query: everything it reads feeds the stored value
    for sc in scope:
        for n in ast.walk(sc):
            if isinstance(n, ast.Attribute) and isinstance(n.ctx, ast.Load):
                tys = prog.expr_types(n.value, m)
                if not tys and n.attr in ('source', 'target', 'name'):
                    # receiver of unknown type (an element taken from a local container): the element classes that own such an accessor
                    tys = [k for k in ELEMENT_CLASSES if prog.has_cls(k) and prog.lookup(prog.cls(k), n.attr) is not None]
                for c in tys:
                    out.add(prog.canon_field(c, n.attr))
                    if prog.has_cls(c):
                        for cc in [prog.cls(c)] + prog.subclasses(prog.cls(c)):
                            g = prog.lookup(cc, n.attr)
                            if g is not None and g.is_property:
                                out |= set(prog.transitive_reads([g]))
            if isinstance(n, ast.Call):
                tg, ext, ok = prog.resolve_call(n, m)
                if tg:
                    out |= set(prog.transitive_reads(tg))
    if m.name not in MUTATORS and m.name != 'copy_from_statechart':
        out |= set(prog.transitive_reads([m]))
    return out


def _numeric_value(node, fld=None):
    """The value stored by a cache write is a number (depth-like): arithmetic over numbers / len(..) / other cache entries."""
    v = node.value if isinstance(node, (ast.Assign, ast.AugAssign)) else None
    if v is None:
        return False

    def num(e, d=0):
        e = strip_cast(e)
        if isinstance(e, ast.Constant):
            return isinstance(e.value, (int, float)) and not isinstance(e.value, bool)
        if isinstance(e, ast.BinOp) and isinstance(e.op, (ast.Add, ast.Sub)):
            return num(e.left, d + 1) or num(e.right, d + 1)
        if isinstance(e, ast.IfExp):
            return num(e.body, d + 1) and num(e.orelse, d + 1)
        if isinstance(e, ast.Call) and isinstance(e.func, ast.Name) and e.func.id in ('len', 'int', 'max', 'min'):
            return True
        # another entry of the same field (re-keying, entry of the parent): numeric exactly when the field is
        if fld is not None and ('self.' + fld) in q.unparse(e) and isinstance(e, (ast.Subscript, ast.Call)):
            return True
        return False
    return num(v)


def _write_scopes(prog, m, fld, query_writers):
    """How far the writes of derived field fld reachable from edit m reach: WHOLE (rebinding, clear(), a loop over every entry),
    LOOP:desc / LOOP:anc (entries of the descendants / ancestors of a state), KEYED (single entries). Fills made by the memoising
    queries themselves are not invalidations and are left out."""
    out = []
    for f, kind, node in prog.transitive_writes([m]).get(('Statechart', fld), []):
        if f in query_writers:
            continue
        if kind in ('assign', 'mut:clear'):
            out.append(('WHOLE', f, node))
            continue
        lp = q.enclosing(node, ast.For)
        sc = 'KEYED'
        # walking up the parent links by hand: while k: <write [k]>; k = self._parent[k]
        wl = q.enclosing(node, ast.While)
        if wl is not None and prog.func_of(wl) is f:
            for st in ast.walk(wl):
                if isinstance(st, ast.Assign) and len(st.targets) == 1 and isinstance(st.targets[0], ast.Name) and \
                        q.unparse(st.value) in ('self._parent[%s]' % st.targets[0].id, 'self.parent_for(%s)' % st.targets[0].id) and \
                        any(isinstance(n_, ast.Name) and n_.id == st.targets[0].id for n_ in ast.walk(node)):
                    sc = 'LOOP:anc'
        if sc != 'KEYED':
            out.append((sc, f, node))
            continue
        while lp is not None and prog.func_of(lp) is f:
            texts = [q.unparse(o) for o in [lp.iter] + q.local_origin(f.node, lp.iter)]
            if any('descendants_for(' in t for t in texts):
                sc = 'LOOP:desc'
            elif any('ancestors_for(' in t for t in texts):
                sc = 'LOOP:anc'
            elif any(('self._states' in t or 'self.states' in t or 'self.' + fld in t) for t in texts):
                sc = 'WHOLE'
            if sc != 'KEYED':
                break
            lp = q.enclosing(lp, ast.For)
        out.append((sc, f, node))
    return out


def cache_findings(prog):
    """[(field, mutator FuncInfo)] : edits that delete or rebind entries a derived field depends on, yet neither clear nor rewrite it
    (or refresh single entries only where the entries of other states are computed from the edited one)."""
    out = []
    caches = derived_caches(prog)
    for fld, writers in caches.items():
        deps = set()
        for m_, n_ in writers:
            deps |= _depends_on(prog, m_, n_)
        names = {f for (c, f) in deps}
        query_writers = {m_ for m_, n_ in writers if m_.name not in MUTATORS and m_.name != 'copy_from_statechart'}
        # an index kept up to date by the edits themselves (no memoising query): entries computed from other entries of the same field
        self_ref = fld in names and not query_writers
        required = set()
        if names & {'_states', '_parent', '_children'} or self_ref:
            required |= {'remove_state', 'rename_state'}      # edits that delete or re-key existing entries
        if names & {'_parent', '_children'} or self_ref:
            required |= {'move_state'}                        # .. or rebind parent links
        if names & {'_transitions'}:
            required |= {'remove_transition', 'remove_state'}
        if names & {'_source', '_target'}:
            required |= {'rotate_transition', 'rename_state'}
        if names & {'_name'}:
            required |= {'rename_state'}
        up = bool(names & {'_parent'}) or self_ref           # an entry is computed from the entries / links of the ancestors of its state
        down = bool(names & {'_children'})                  # .. of the descendants of its state
        numeric = all(_numeric_value(n_, fld) for m_, n_ in writers if isinstance(n_, (ast.Assign, ast.AugAssign)))
        for name in sorted(required):
            m = prog.fn('Statechart.' + name)
            scopes = _write_scopes(prog, m, fld, query_writers)
            if not scopes:
                out.append((fld, m, 'not invalidated'))
                continue
            kinds = {sc for sc, f_, n_ in scopes}
            if 'WHOLE' in kinds or not (up or down):
                continue
            why = None
            if name == 'move_state':
                # moving x changes what is derived for the descendants of x (upward data) and for its old and new ancestors (downward data)
                if up and 'LOOP:desc' not in kinds:
                    why = 'only single entries are refreshed: the entries of the descendants of the moved state are computed from it and stay stale'
                if down:
                    par_w = [n_ for c_, f_, k_, n_ in prog.direct_writes(m) if f_ == '_parent']
                    anc = [n_ for sc, f_, n_ in scopes if sc == 'LOOP:anc' and f_ is m]
                    for sc, f_, n_ in scopes:
                        if sc == 'LOOP:anc' and f_ is not m:      # done by a helper: judged where the edit calls it
                            anc += [c_ for c_ in q.calls(m.node) if f_ in prog.resolve_call(c_, m)[0]]
                    def head(a_):      # (the loop that walks the ancestors runs before the write when its head does; its body may run zero times)
                        lp_ = q.enclosing(a_, (ast.For, ast.While))
                        return lp_ if lp_ is not None and prog.func_of(lp_) is m else a_
                    before = any(all(q.strictly_before(m.node, head(a_), w_) for w_ in par_w) for a_ in anc)
                    after = any(all(q.strictly_before(m.node, w_, a_) for w_ in par_w) for a_ in anc)
                    if not (before and after):
                        why = 'the entries of the old and of the new ancestors of the moved state must both be dropped (found: %s)' % sorted(kinds)
            elif name == 'rename_state' and not numeric:
                if not kinds & {'LOOP:desc', 'LOOP:anc'}:
                    why = 're-keying the entry of the renamed state leaves its old name inside the entries of other states'
            elif name == 'remove_state' and down:
                if 'LOOP:anc' not in kinds:
                    why = 'the entries of the ancestors of the removed state still list it'
            if why:
                out.append((fld, m, why))
    return caches, out


FIXTURE_EDITS = [
    ('sismic/model/statechart.py', "        self._children[None] = []  # Root state\n", "        self._children[None] = []  # Root state\n        self._depth_fixture = {}\n"),
    ('sismic/model/statechart.py', "        ancestors = self.ancestors_for(name)\n        return len(ancestors) + 1", "        if name not in self._depth_fixture:\n            self._depth_fixture[name] = len(self.ancestors_for(name)) + 1\n        return self._depth_fixture[name]"),
]


def rules_caches(run, P='C16', rid='.7', reach=None):
    r = run.rule(P + rid, 'derived data: every Statechart field that memoises a query result or indexes the structures redundantly is cleared or rewritten by every edit '
                          'that deletes or rebinds entries it is computed from (a stale cached depth changes the order of transitions after a rename; a stale '
                          'by-source index makes the exporter file a rotated transition under its old source)')
    prog = run.prog
    caches, bad = cache_findings(prog)
    if reach:
        # only the derived fields whose memoising query serves the given part of the interpreter
        names = set(prog.reach_names([prog.fn(x) for x in reach]))
        served = {fld for fld, writers in caches.items() if any(m_.short in names for m_, n_ in writers)}
        caches = {fld: w_ for fld, w_ in caches.items() if fld in served}
        bad = [b_ for b_ in bad if b_[0] in served]
    for fld, m, why in bad:
        if why == 'not invalidated':
            run.fail(r, m.short, 'cache %s not invalidated' % fld, 'the memoised field %s (written by %s) survives this edit: queries answer from stale data afterwards'
                     % (fld, sorted({x[0].short for x in caches[fld]})), m.node)
        else:
            run.fail(r, m.short, 'cache %s only partly invalidated' % fld, 'derived field %s: %s' % (fld, why), m.node)
    for fld in caches:
        if not any(f == fld for f, m, w_ in bad):
            run.ok(r, 'Statechart', 'cache %s invalidated by the edits that delete or rebind entries it depends on' % fld, None)
    run.ok(r, 'Statechart', '%d derived cache field(s) found on the current tree' % len(caches), None)
    # positive fixture: the detector must fire on a memoised depth_for without invalidation (in-memory overlay of the current tree)
    from ..selftest.runner import apply_edits
    from ..loader import Tree
    from ..prog import Program
    ov = apply_edits(FIXTURE_EDITS)
    if ov is None:
        run.note(P + rid + ': positive fixture not applicable to the current text of depth_for / __init__ (detector not re-proved on this run)')
    else:
        c2, b2 = cache_findings(Program(Tree(root=run.tree.root, overlay=dict(run.tree.overlay, **ov))))
        run.floor(len(b2), 3, r, 'findings on the positive fixture (memoised depth_for without invalidation)')
        run.ok(r, 'fixture', 'detector fires on the in-memory fixture: %d mutators flagged for %s' % (len(b2), sorted(c2)), None)
