"""C13 Time is frozen per step; after() and idle() mean what they say."""
import ast
import re

from .. import q
from ..cfg import guards, guard_atoms
from ..prog import strip_cast, dotted
from .common import ApplyStep, labelled_sites, obj_is

EXPLANATION = (
    'Static rules: Interpreter._time is written only by the constructor and as the first effect of execute_once, from self.clock.time; '
    'the clock is read nowhere else in sismic/interpreter and sismic/code (who-may-read); MacroStep(time=..), the `time` name exposed to '
    'code and `step started` all read Interpreter.time; _entry_time is stamped only at entry of the state, _idle_time at entry and after '
    'the action of every processed transition (conditional on step.transition only, keyed by its source), both with self.time; in every '
    'evaluator method exposing them `after` reads _entry_time, `idle` reads _idle_time, both compare non-strictly in the at-least '
    'direction and are keyed by the owning state; the exposure per evaluation kind equals the documented table. Decides the shape of '
    'time freezing and of the predicates, not floating-point boundary behaviour.')


def _filled_body(lam):
    """Body of a predicate lambda with the default values of its extra parameters filled in (lambda d, timer=<expr>: .. binds a value when the
    closure is made)."""
    import copy
    from ..partial import _Subst
    extra = lam.args.args[1:]
    if not extra or len(lam.args.defaults) != len(extra):
        return lam.body
    body = _Subst({a.arg: dv for a, dv in zip(extra, lam.args.defaults)}).visit(copy.deepcopy(lam.body))
    ast.fix_missing_locations(body)
    return body


def _pred_shape(run, lam, r, where_short, name, stamp_field, key_expected):
    """lambda d: <time> - d >= <stamp>[key]   (or the equivalent rearrangements)."""
    extra = lam.args.args[1:] if isinstance(lam, ast.Lambda) else []
    if not isinstance(lam, ast.Lambda) or not lam.args.args or len(lam.args.defaults) != len(extra) or lam.args.kwonlyargs or lam.args.vararg or lam.args.kwarg:
        run.fail(r, where_short, "'%s' predicate shape" % name, 'not a one-argument lambda', lam)
        return
    d = lam.args.args[0].arg
    body = strip_cast(lam.body)
    if extra:
        # lambda d, timer=<expr>: ..  - the idiom that binds a value when the closure is made: the body is read with the defaults filled in
        import copy
        from ..partial import _Subst
        body = strip_cast(_Subst({a.arg: dv for a, dv in zip(extra, lam.args.defaults)}).visit(copy.deepcopy(body)))
        ast.fix_missing_locations(body)
    if not (isinstance(body, ast.Compare) and len(body.ops) == 1):
        run.fail(r, where_short, "'%s' predicate shape" % name, 'not a single comparison', lam)
        return
    op = body.ops[0]
    l, rr = strip_cast(body.left), strip_cast(body.comparators[0])
    if isinstance(op, (ast.LtE, ast.Lt)):
        l, rr = rr, l
        op = ast.GtE() if isinstance(op, ast.LtE) else ast.Gt()
    # now l (>= | >) rr
    run.check(isinstance(op, ast.GtE), r, where_short, "'%s' compares non-strictly (at least d)" % name,
              "'%s(d)' must hold when exactly d time units have passed (operator is %s)" % (name, type(op).__name__), lam)

    def terms(e, sign=1):
        e = strip_cast(e)
        if isinstance(e, ast.BinOp) and isinstance(e.op, (ast.Add, ast.Sub)):
            return terms(e.left, sign) + terms(e.right, sign if isinstance(e.op, ast.Add) else -sign)
        return [(sign, q.unparse(e))]
    # l - rr >= 0 : collect signed terms
    ts = terms(l, 1) + terms(rr, -1)
    pos = sorted(t for s, t in ts if s > 0)
    neg = sorted(t for s, t in ts if s < 0)
    stamp = [t for t in neg if t.startswith('self._interpreter.') and '[' in t]
    timev = [t for t in pos if t in ('self._interpreter.time', 'self._interpreter._time')]
    dd = [t for t in neg if t == d]
    run.check(len(ts) == 3 and len(stamp) == 1 and len(timev) == 1 and len(dd) == 1, r, where_short, "'%s' = time - d >= stamp" % name,
              "predicate arithmetic differs: +%s -%s" % (pos, neg), lam)
    if stamp:
        fld = stamp[0][len('self._interpreter.'):].split('[')[0]
        key = stamp[0].split('[', 1)[1][:-1]
        run.check(fld == stamp_field, r, where_short, "'%s' reads %s" % (name, stamp_field), "'%s' reads %s" % (name, fld), lam)
        run.check(key == key_expected, r, where_short, "'%s' keyed by the owning state" % name, 'keyed by %s, owner is %s' % (key, key_expected), lam)


def check(run):
    # the predicates read the time and the stamps through self._interpreter: a copied evaluator must be linked to the copied interpreter
    from .c18 import rules_hooks
    run.guard(rules_hooks, run, 'C13.4', ('PythonEvaluator', 'Evaluator', 'Interpreter'),
              ' (a copy hook that keeps _interpreter by reference makes the copy read the time, entry and idle stamps of the original)')
    prog = run.prog
    r = run.rule('C13.1', 'one sample: _time written only in __init__ and first thing in execute_once from self.clock.time; the clock is read nowhere else in '
                          'interpreter/code; MacroStep.time, the exposed `time` and `step started` read Interpreter.time')
    nw = 0
    for fi in prog.functions():
        if fi.outer is not None:
            continue
        for c, fld, kind, node in prog.direct_writes(fi):
            if fld == '_time' and c == 'Interpreter':
                nw += 1
                good = fi.short in ('Interpreter.__init__', 'Interpreter.execute_once') and kind == 'assign' and q.unparse(node.value) == 'self.clock.time'
                run.check(good, r, fi.short, 'write:Interpreter._time from the clock', 'the step time is modified outside its sampling point', node)
                if fi.short == 'Interpreter.execute_once':
                    E = fi.node
                    before = E.body[:E.body.index(node)] if node in E.body else E.body
                    inert = node in E.body and all(not any(isinstance(x, (ast.Call, ast.Attribute, ast.Raise, ast.For, ast.While)) for x in ast.walk(s_)) for s_ in before)
                    run.check(inert, r, fi.short, 'the sample is the first effect of execute_once', 'something runs before the time is sampled', node)
    run.floor(nw, 2, r, 'writers of _time')
    nr = 0
    for fi in prog.functions():
        if fi.outer is not None or not (fi.module.name.startswith('sismic.interpreter') or fi.module.name.startswith('sismic.code')):
            continue
        if fi.module.name == 'sismic.code.context':
            continue
        for n in q.walk(fi.node):
            if isinstance(n, ast.Attribute) and n.attr == 'time' and isinstance(n.ctx, ast.Load):
                base = q.unparse(n.value)
                tys = prog.expr_types(n.value, prog.func_of(n) or fi)
                if any(prog.is_subclass(t, 'Clock') for t in tys) or base.endswith('.clock'):
                    nr += 1
                    st = q.enclosing_stmt(n)
                    good = isinstance(st, ast.Assign) and q.unparse(st.targets[0]) == 'self._time' and fi.short in ('Interpreter.__init__', 'Interpreter.execute_once')
                    run.check(good, r, fi.short, 'read of the clock: ' + q.unparse(st)[:50], 'the clock is read outside the per-step sample (time would move during a step)', n)
    run.floor(nr, 2, r, 'reads of clock.time')
    ei = run.fn('Interpreter.execute_once')
    for c in [c for c in q.calls(ei.node) if dotted(c.func) == 'MacroStep']:
        run.check(q.unparse(q.arg(c, 0, 'time')) == 'self.time', r, ei.short, 'MacroStep(time=self.time)', 'macro step time is %s' % q.unparse(q.arg(c, 0, 'time')), c)
    for name, kw, c in q.emissions(run, ei.node):
        if name == 'step started':
            run.check(q.unparse(kw.get('time')) == 'self.time', r, ei.short, "'step started' carries self.time", 'differs', c)
    for short in ('PythonEvaluator._evaluate_code', 'PythonEvaluator._execute_code'):
        m = run.fn(short)
        hit = False
        for n in q.walk(m.node):
            if isinstance(n, ast.Dict):
                for k, v in zip(n.keys, n.values):
                    if k is not None and q.const_str(k) == 'time':
                        hit = True
                        run.check(q.unparse(v) == 'self._interpreter.time', r, short, "exposed `time` = interpreter.time", 'exposed time is %s' % q.unparse(v), n)
        run.check(hit, r, short, '`time` is exposed to code', 'missing', m.node)

    r = run.rule('C13.2', 'stamps: _entry_time[s] only at entry of s; _idle_time[s] at entry of s and after the action of every processed transition '
                          '(keyed by its source, conditional on step.transition only); all with self.time')
    A = ApplyStep(run, r)
    ent = [s for s in A.sites if s.label.startswith('entry_time')]
    idl = [s for s in A.sites if s.label.startswith('idle_time')]
    lv = A.entry_loop.target.id if isinstance(A.entry_loop.target, ast.Name) else '?'
    run.check(len(ent) == 1, r, A.fi.short, 'one entry stamp', 'found %d' % len(ent), A.F)
    for s in ent:
        n = s.node
        good = A.region(s) == 'entry' and isinstance(n, ast.Assign) and q.unparse(n.targets[0]) == 'self._entry_time[%s.name]' % lv and q.unparse(n.value) == 'self.time' \
            and not guards(n, stop=A.entry_loop)
        run.check(good, r, A.fi.short, 'entry stamp: _entry_time[state.name] = self.time at every entry', 'differs: ' + q.unparse(n), n)
    in_entry = [s for s in idl if A.region(s) == 'entry']
    in_trans = [s for s in idl if A.region(s) == 'transition']
    run.check(len(in_entry) == 1 and len(in_trans) == 1 and len(idl) == 2, r, A.fi.short, 'idle stamps at entry and after the action', 'found %d/%d' % (len(in_entry), len(in_trans)), A.F)
    for s in in_entry:
        n = s.node
        good = isinstance(n, ast.Assign) and q.unparse(n.targets[0]) == 'self._idle_time[%s.name]' % lv and q.unparse(n.value) == 'self.time' and not guards(n, stop=A.entry_loop)
        run.check(good, r, A.fi.short, 'idle stamp reset at entry', 'differs: ' + q.unparse(n), n)
    act = [s for s in A.sites if s.label == 'action']
    for s in in_trans:
        n = s.node
        good = isinstance(n, ast.Assign) and q.unparse(n.targets[0]) == 'self._idle_time[%s.transition.source]' % A.step and q.unparse(n.value) == 'self.time'
        run.check(good, r, A.fi.short, 'idle stamp of the source after a processed transition', 'differs: ' + q.unparse(n), n)
        run.check(not guards(n, stop=A.trans_if), r, A.fi.short, 'idle stamp for every processed transition (internal ones included)',
                  'stamp conditional on %s' % [q.unparse(g[0]) for g in guards(n, stop=A.trans_if)], n)
        for a in act:
            run.check(q.ordered(A.F, a.node, n), r, A.fi.short, 'idle stamp after the action', 'order differs', n)
    for f in prog.functions():
        if f.outer is not None:
            continue
        for c, fld, kind, node in prog.direct_writes(f):
            if fld in ('_entry_time', '_idle_time') and c == 'Interpreter':
                run.check(f.short in ('Interpreter.__init__', 'Interpreter._apply_step'), r, f.short, 'write:%s %s' % (fld, kind), 'time stamps written elsewhere', node)

    r = run.rule('C13.3', 'predicates: after reads _entry_time, idle reads _idle_time, non-strict, keyed by the owning state; exposure per evaluation kind equals '
                          'the documented table')
    doc = ast.get_docstring(prog.cls('PythonEvaluator').node) or ''
    want = {
        'evaluate_guard': {'after', 'idle', 'event'},
        'evaluate_preconditions': {'received', 'sent', 'event'},
        'evaluate_invariants': {'__old__', 'after', 'idle', 'received', 'sent', 'event'},
        'evaluate_postconditions': {'__old__', 'after', 'idle', 'received', 'sent', 'event'},
    }
    # cross-check with the class docstring: sections name the evaluation kinds that expose each helper
    sections = re.split(r'\n\s*- On ', '\n' + doc)
    doc_ok = any(s.startswith('guard or contract (except preconditions) evaluation') and '*after(' in s and '*idle(' in s for s in sections) and \
        any(s.startswith('contract (except preconditions) evaluation') and '__old__' in s for s in sections) and \
        any(s.startswith('contract evaluation') and '*sent(' in s and '*received(' in s for s in sections) and \
        any(s.startswith('guard or contract evaluation') and '*event' in s for s in sections)
    run.check(doc_ok, r, 'PythonEvaluator', 'documented exposure table found in the class docstring', 'docstring no longer states the exposure table', prog.cls('PythonEvaluator').node)
    n = 0
    for mname, keys in want.items():
        m = run.fn('PythonEvaluator.' + mname)
        M = m.node
        op = q.param_names(M)[1]
        dicts = [x for x in q.walk(M) if isinstance(x, ast.Dict) and any(q.const_str(k) == 'event' for k in x.keys if k is not None)]
        run.check(len(dicts) == 1, r, m.short, 'one exposed-context dict', 'found %d' % len(dicts), M)
        # .. and that dict is what the conditions are evaluated with
        ecalls = [c for c in q.calls(M) if isinstance(c.func, ast.Attribute) and c.func.attr == '_evaluate_code']
        run.check(len(ecalls) >= 1, r, m.short, 'conditions go through _evaluate_code', 'no _evaluate_code call', M)
        for c in ecalls:
            ac = q.arg(c, 1, 'additional_context')
            src_ = [strip_cast(ac)] + ([strip_cast(o) for o in q.local_origin(M, ac)] if ac is not None else [])
            run.check(ac is not None and len(dicts) == 1 and any(x is dicts[0] for x in src_), r, m.short, 'the exposed context is handed to _evaluate_code',
                      'the condition is evaluated without the exposed predicates (additional_context is %s)' % (q.unparse(ac) if ac is not None else 'missing'), c)
        for d in dicts:
            got = {q.const_str(k) for k in d.keys if k is not None}
            run.check(got == keys, r, m.short, 'exposes exactly %s' % sorted(keys), 'exposes %s' % sorted(got), d)
            table = {q.const_str(k): v for k, v in zip(d.keys, d.values) if k is not None}
            if mname == 'evaluate_guard':
                key_expected = op + '.source'
            else:
                # <owner> = obj.source if isinstance(obj, Transition) else obj.name
                owner = [st.targets[0].id for st, v in [(st, v) for n_ in q.walk(M, False) if isinstance(n_, ast.Assign) for st, v in [(n_, n_.value)]]
                         if isinstance(st.targets[0], ast.Name) and q.unparse(v) == '%s.source if isinstance(%s, Transition) else %s.name' % (op, op, op)]
                owner_expr = '%s.source if isinstance(%s, Transition) else %s.name' % (op, op, op)
                key_expected = owner_expr
                # the key used by the predicates: an expression or a local whose case split must be exactly
                #   obj.source when obj is a Transition, obj.name otherwise
                keyexprs = set()
                for nm_ in ('after', 'idle'):
                    lam = strip_cast(table.get(nm_)) if table.get(nm_) is not None else None
                    if isinstance(lam, ast.Lambda):
                        for x in ast.walk(_filled_body(lam)):
                            if isinstance(x, ast.Subscript) and q.unparse(x.value).startswith('self._interpreter._'):
                                keyexprs.add(q.unparse(x.slice))
                if 'after' in keys:
                    okk = len(keyexprs) == 1
                    if okk:
                        kx = ast.parse(next(iter(keyexprs)), mode='eval').body
                        cs = sorted((q.unparse(v), tuple(sorted(a for a in at if 'isinstance' in a[1]))) for v, at in q.cases(M, kx))
                        want_cs = sorted([(op + '.source', (('truthy', 'isinstance(%s, Transition)' % op, ''),)), (op + '.name', (('falsy', 'isinstance(%s, Transition)' % op, ''),))])
                        okk = cs == want_cs
                        key_expected = next(iter(keyexprs))
                    run.check(okk, r, m.short, 'owning state = source of a transition, else the state itself', 'owner computed differently: %s' % sorted(keyexprs), M)
            for nm, fld in (('after', '_entry_time'), ('idle', '_idle_time')):
                if nm in table:
                    n += 1
                    _pred_shape(run, strip_cast(table[nm]), r, m.short, nm, fld, key_expected)
    run.floor(n, 6, r, 'after/idle predicates')
