"""C17 Renaming and copying states preserves behaviour."""
import ast

from .. import q
from ..cfg import guards, guard_atoms, build_cfg
from ..prog import strip_cast, dotted

EXPLANATION = (
    'Static rules over Statechart.rename_state and copy_from_statechart: substitution discipline - every write of the new name into a '
    'name-bearing slot is control-dependent on that same slot being equal to the old name (so that, e.g., the target of an internal '
    'transition stays None); substitution coverage - every name-bearing slot of the model (transition source and target, initial, '
    'memory, parent links, the parent\'s children list, the keys of the three dictionaries, the state\'s own name) is rewritten; '
    'copy_from_statechart works on a deep copy, renames before registering and registers every descendant through add_state and every '
    'touching transition through add_transition; copy hooks of the model classes carry every constructor field. Decides that renaming substitutes names and nothing else; behavioural equality of runs '
    'additionally depends on C07.1 (children order changes on rename).')

SLOTS = ['Transition._source', 'Transition._target', 'CompoundState.initial', 'HistoryStateMixin.memory', 'Statechart._parent values',
         "parent's children list", 'keys of _states', 'keys of _parent', 'keys of _children', 'StateMixin._name']


NAME_FIELDS = {'_source', '_target', 'initial', '_initial', 'memory', '_memory', '_name', '_parent', '_children', '_states'}


def rules_nothing_else(run):
    """rename_state changes nothing but the name: everything it writes (itself or through what it calls) is a name-bearing slot or a derived cache - no code, no
    contract, no priority, and no attribute chosen at run time."""
    from .c16 import derived_caches
    prog = run.prog
    r = run.rule('C17.8', 'rename_state writes name-bearing slots only (transition ends, initial, memory, the name, the three structures and derived caches): no guard, '
                          'action, entry / exit code, contract or priority is rewritten, and no attribute is set through setattr / __dict__')
    fi = run.fn('Statechart.rename_state')
    memo = set(derived_caches(prog))
    W = prog.transitive_writes([fi])
    n = 0
    for (c, f), sites in sorted(W.items()):
        n += 1
        okk = f in NAME_FIELDS or (c == 'Statechart' and f in memo)
        if not okk and all(isinstance(node, (ast.Assign, ast.AugAssign, ast.Expr, ast.Call)) and prog.func_of(node) is not None and
                           _local_container(prog.func_of(node), node) for fn_, kind, node in sites):
            okk = True
        run.check(okk, r, sites[0][0].short, 'write %s.%s is a name-bearing slot' % (c, f), 'rename_state rewrites %s.%s: more than the name changes (code mentioning the name as '
                  'a string - an event called like the state - changes meaning)' % (c, f), sites[0][2])
    run.floor(n, 6, r, 'fields written by rename_state')
    dyn = 0
    for qual, (f, _) in prog.reachable([fi]).items():
        if not f.module.name.startswith('sismic.model'):
            continue
        for c in q.calls(f.node):
            if isinstance(c.func, ast.Name) and c.func.id in ('setattr', 'delattr') and not (len(c.args) >= 2 and isinstance(c.args[1], ast.Constant)):
                dyn += 1
                run.fail(r, f.short, 'attribute chosen at run time: ' + q.unparse(c)[:50], 'rename_state (through %s) sets attributes whose names are computed: what it changes '
                         'cannot be bounded to the name-bearing slots' % f.short, c)
        for n_ in q.walk(f.node):
            if isinstance(n_, ast.Attribute) and n_.attr == '__dict__' and isinstance(getattr(n_, '_parent', None), ast.Subscript) and \
                    isinstance(n_._parent.ctx, (ast.Store, ast.Del)):
                run.fail(r, f.short, 'write through __dict__', 'rename_state writes attributes through __dict__', n_)
    run.ok(r, fi.short, 'no run-time chosen attribute is written on the paths from rename_state', fi.node)


def _local_container(f, node):
    return False


def check(run):
    run.guard(rules_nothing_else, run)
    run.guard(rules_rename, run, 'C17')
    run.guard(rules_copy, run, 'C17')
    from .c16 import rules_caches
    run.guard(rules_caches, run, 'C17', '.5')
    run.guard(rules_copy_hooks, run)
    # copy_from_statechart works on deepcopy(statechart): a hand-written copy hook of Statechart or of an element must give an independent object
    from .c18 import rules_hooks
    run.guard(rules_hooks, run, 'C17.7', ('Statechart', 'Transition', 'StateMixin', 'ContractMixin', 'ActionStateMixin', 'HistoryStateMixin', 'CompoundState', 'BasicState',
                                          'OrthogonalState', 'FinalState', 'ShallowHistoryState', 'DeepHistoryState'),
              ' (a deep copy sharing children lists or elements with its source is renamed together with it)')


HOOK_FIXTURE = [('sismic/model/elements.py', "    def __repr__(self):\n        return 'Transition({!r}, {!r}, event={!r})'",
                 "    def __deepcopy__(self, memo):\n        return Transition(self._source, self._target, self.event, self.guard, self.action)\n\n"
                 "    def __repr__(self):\n        return 'Transition({!r}, {!r}, event={!r})'")]


def rules_copy_hooks(run):
    """copy_from_statechart plugs in a deep copy of the source: a hand-written copy hook on a model class that rebuilds the object from some of its
    fields loses the others (priority, contracts, ..) in every plugged-in sub-statechart."""
    from .common import copy_hook_gaps
    prog = run.prog
    r = run.rule('C17.6', 'copy hooks of the model classes (__deepcopy__ / __copy__ of Statechart, the state classes, Transition and their mixins) transfer every '
                          'field set by the constructors')
    def gaps(pg):
        out = []
        ncls = 0
        for ci in pg.classes.values():
            if ci.module.name.startswith('sismic.model'):
                ncls += 1
                out += copy_hook_gaps(pg, ci)
        return ncls, out
    ncls, found = gaps(prog)
    run.floor(ncls, 12, r, 'model classes')
    for m, missing in found:
        run.check(not missing, r, m.short, 'the copy carries every field of the original', 'the copy is built without %s: a sub-statechart plugged in with '
                  'copy_from_statechart loses them' % missing, m.node)
    run.ok(r, 'sismic.model', '%d copy hook(s) on %d model classes' % (len(found), ncls), None)
    from ..selftest.runner import apply_edits
    from ..loader import Tree
    from ..prog import Program
    ov = apply_edits(HOOK_FIXTURE)
    if ov is None:
        run.note('C17.6: positive fixture not applicable to the current text of Transition.__repr__ (detector not re-proved on this run)')
    else:
        _, f2 = gaps(Program(Tree(root=run.tree.root, overlay=dict(run.tree.overlay, **ov))))
        hit = [m for m, missing in f2 if 'priority' in missing]
        run.floor(len(hit), 1, r, 'findings on the positive fixture (Transition.__deepcopy__ without priority)')
        run.ok(r, 'fixture', 'detector fires on the in-memory fixture', None)


def rules_rename(run, P='C17', ids=('.1', '.2')):
    prog = run.prog
    fi = run.fn('Statechart.rename_state')
    F = fi.node
    old, new = q.param_names(F)[1:3]
    r1 = run.rule(P + ids[0], 'substitution discipline: every write of new_name into a name-bearing slot is conditional on that same slot being equal to old_name')
    r2 = run.rule(P + ids[1], 'substitution coverage: every name-bearing slot is rewritten (%s)' % ', '.join(SLOTS))
    covered = set()
    n = 0
    for node in q.walk(F, False):
        if not isinstance(node, ast.Assign) or not (isinstance(node.value, ast.Name) and node.value.id == new):
            continue
        tgt = node.targets[0]
        tt = q.unparse(tgt)
        if isinstance(tgt, ast.Attribute) and tgt.attr == '_name':
            covered.add('StateMixin._name')
            o = [q.unparse(x) for x in q.local_origin(F, tgt.value)]
            run.check(any('state_for(%s)' % old in x for x in o), r1, fi.short, 'the renamed object is the state called old_name', 'object comes from %s' % o, node)
            continue
        n += 1
        # slot expression as it is read: transition._target is read as transition.target
        owner = q.unparse(tgt.value) if isinstance(tgt, (ast.Attribute, ast.Subscript)) else '?'
        if isinstance(tgt, ast.Attribute):
            read_forms = {owner + '.' + tgt.attr, owner + '.' + tgt.attr.lstrip('_')}
            label = tgt.attr
        else:
            read_forms = {tt}
            label = tt
        at = guard_atoms(node)
        same = [a for a in at if a[0] == '==' and ((a[1] in read_forms and a[2] == old) or (a[2] in read_forms and a[1] == old))]
        # nothing else may decide: early exits on (old, new) and kind tests on the owner are the only other conditions accepted
        from ..cfg import atoms as _atoms
        extra = []
        for g in guards(node):
            if g[2].startswith('early'):
                continue
            for a in _atoms(g[0], g[1]):
                if a in same:
                    continue
                if a[0] == 'truthy' and a[1].replace(' ', '').startswith('isinstance(%s,' % owner):
                    continue
                extra.append(a)
        if same:
            run.check(not extra, r1, fi.short, 'write %s = new_name depends on nothing but its own slot' % tt,
                      'the rewrite of %s is additionally conditional on %s: some references to the old name are left behind (e.g. the target of a self-loop)' % (tt, extra), node)
        run.check(len(same) >= 1, r1, fi.short, 'write %s = new_name only where %s == old_name' % (tt, sorted(read_forms)[0]),
                  'the slot %s is overwritten with the new name although it did not hold the old name (conditions: %s): e.g. an internal transition '
                  '(target None) becomes an external self-loop' % (tt, [a for a in at if a[0] != 'in' and old not in (a[1], a[2]) or True][:3]), node)
        if same:
            if label == '_source':
                covered.add('Transition._source')
            elif label == '_target':
                covered.add('Transition._target')
            elif label == 'initial':
                covered.add('CompoundState.initial')
            elif label == 'memory':
                covered.add('HistoryStateMixin.memory')
            elif tt.startswith('self._parent['):
                covered.add('Statechart._parent values')
    run.floor(n, 4, r1, 'writes of new_name into slots')
    # iteration domains: all transitions / all states
    for slot, dom in (('_source', 'transitions'), ('_target', 'transitions'), ('initial', '_states'), ('memory', '_states')):
        ws = [x for x in q.walk(F, False) if isinstance(x, ast.Assign) and isinstance(x.targets[0], ast.Attribute) and x.targets[0].attr == slot]
        for w in ws:
            lp = q.enclosing(w, ast.For)
            run.check(lp is not None and dom in q.unparse(lp.iter) and q.unparse(lp.iter).startswith('self.'), r2, fi.short, '%s rewritten over all %s' % (slot, dom),
                      'iteration domain is %s' % (q.unparse(lp.iter) if lp is not None else None), w)
            if lp is not None:
                run.check(not any(isinstance(x, (ast.Break, ast.Return)) for x in ast.walk(lp)), r2, fi.short, 'loop over %s runs to the end' % dom, 'early exit', lp)
    # dictionary keys and the parent's children list
    for fld in ('_states', '_parent', '_children'):
        ok_ = any(isinstance(x, ast.Assign) and q.unparse(x.targets[0]) == 'self.%s[%s]' % (fld, new) and q.unparse(x.value) == 'self.%s.pop(%s)' % (fld, old) for x in q.walk(F, False))
        if ok_:
            covered.add('keys of ' + fld)
    rem = [c for c in q.calls(F) if q.unparse(c.func).startswith('self._children[') and c.func.attr == 'remove' and c.args and q.unparse(c.args[0]) == old]
    app = [c for c in q.calls(F) if q.unparse(c.func).startswith('self._children[') and c.func.attr in ('append', 'insert') and c.args and q.unparse(c.args[-1]) == new]
    if len(rem) == 1 and len(app) == 1 and q.unparse(rem[0].func.value) == q.unparse(app[0].func.value):
        key = q.unparse(rem[0].func.value)[len('self._children['):-1]
        o = [q.unparse(x) for x in q.local_origin(F, ast.Name(id=key, ctx=ast.Load()))] if key.isidentifier() else [key]
        if any(x == 'self._parent[%s]' % old or x == 'self.parent_for(%s)' % old for x in o):
            covered.add("parent's children list")
            # must happen before the key of _parent is moved
            mv = [x for x in q.walk(F, False) if isinstance(x, ast.Assign) and q.unparse(x.targets[0]) == 'self._parent[%s]' % new]
            kd = [st for st, v in q.assigned_value(F, key)] if key.isidentifier() else []
            for m in mv:
                for st in kd:
                    run.check(q.strictly_before(F, st, m), r2, fi.short, 'parent looked up before the _parent key is moved', 'lookup after the key moved', st)
    for s in SLOTS:
        run.check(s in covered, r2, fi.short, 'slot rewritten: ' + s, 'name-bearing slot %s is not rewritten by rename_state: a reference to the old name survives' % s, F)
    # guards: no-op and collision
    first_ret = [x for x in q.walk(F, False) if isinstance(x, ast.Return)]
    run.check(any(guard_atoms(x) in ([('==', *sorted([old, new]))], [('==', new, old)], [('==', old, new)]) for x in first_ret), r1, fi.short, 'renaming to the same name is a no-op', 'missing', F)
    rz = [x for x in q.raises_in(F) if q.raised_class(x) == 'StatechartError']
    run.check(any(('in', new, 'self._states') in guard_atoms(x) for x in rz), r1, fi.short, 'renaming to an existing name is rejected', 'missing', F)



def rules_copy(run, P='C17', rid='.3'):
    prog = run.prog
    r3 = run.rule(P + rid, 'copy_from_statechart works on a deep copy, renames before registering, registers every descendant through add_state and every touching '
                           'transition through add_transition')
    ci = run.fn('Statechart.copy_from_statechart')
    C = ci.node
    ps = q.param_names(C)
    scp = ps[1]
    dc = [c for c in q.calls(C) if isinstance(c.func, ast.Name) and c.func.id == 'deepcopy']
    run.check(len(dc) == 1 and q.unparse(dc[0].args[0]) == scp, r3, ci.short, 'works on deepcopy(statechart)', 'the source statechart would be modified / shared', C)
    if len(dc) != 1:
        return
    cv = q.enclosing_stmt(dc[0]).targets[0].id if dc and isinstance(q.enclosing_stmt(dc[0]), ast.Assign) else None
    run.anchor(cv, r3, 'variable holding the copy')
    uses = [n for n in q.walk(C) if isinstance(n, ast.Name) and n.id == scp and isinstance(n.ctx, ast.Load)]
    run.check(len(uses) == 1, r3, ci.short, 'the original statechart is only read by deepcopy', 'original used %d times' % len(uses), C)
    ren = [c for c in q.calls(C) if q.unparse(c.func) == cv + '.rename_state']
    adds = [c for c in q.calls(C) if q.unparse(c.func) == 'self.add_state']
    addt = [c for c in q.calls(C) if q.unparse(c.func) == 'self.add_transition']
    run.check(len(ren) == 2 and len(adds) == 1 and len(addt) == 1, r3, ci.short, 'rename (root and descendants), add_state, add_transition sites', 'found %d/%d/%d' % (len(ren), len(adds), len(addt)), C)
    for a in adds:
        lp = q.enclosing(a, ast.For)
        run.check(lp is not None and (cv + '.descendants_for(') in q.unparse(lp.iter) and not guards(a, stop=lp), r3, ci.short, 'every descendant is registered', 'differs', a)
        rr = [c for c in ren if q.in_node(c, lp)]
        run.check(len(rr) == 1 and q.strictly_before(C, rr[0], a), r3, ci.short, 'renamed before being registered', 'registered under the old name', a)
        if rr:
            nn = q.unparse(rr[0].args[1])
            run.check((cv + '.state_for(%s)' % nn) in q.unparse(a.args[0]) and (cv + '.parent_for(%s)' % nn) in q.unparse(a.args[1]), r3, ci.short,
                      'registered with its renamed name and parent', 'differs', a)
            o = [q.unparse(x) for x in q.local_origin(C, rr[0].args[1])]
            good = any(x.startswith(ps[4] + '(') for x in o)
            if not good:
                # the function applied is a local that IS renaming_func whenever that is a function (other cases - None, a mapping - are conveniences for
                # arguments that could not be called before): every other definition of the local sits under a test on renaming_func itself
                for x in q.local_origin(C, rr[0].args[1]):
                    x = strip_cast(x)
                    if isinstance(x, ast.Call) and isinstance(x.func, ast.Name) and len(x.args) == 1:
                        defs = q.assigned_value(C, x.func.id)
                        is_param = [(st, v) for st, v in defs if q.unparse(strip_cast(v)) == ps[4]]
                        others = [(st, v) for st, v in defs if q.unparse(strip_cast(v)) != ps[4]]
                        if is_param and all(any(ps[4] in a[1] + a[2] for a in guard_atoms(st)) for st, v in others) and \
                                all(not any(a[0] == 'truthy' and a[1] == 'callable(%s)' % ps[4] for a in guard_atoms(st)) for st, v in others):
                            good = True
            run.check(good, r3, ci.short, 'new names come from renaming_func', 'differs: %s' % o, rr[0])
    for t in addt:
        lp = q.enclosing(t, ast.For)
        run.check(lp is not None and not [g for g in guards(t, stop=lp)], r3, ci.short, 'every collected transition is registered', 'conditional', t)
        src = strip_cast(lp.iter).id if lp is not None and isinstance(strip_cast(lp.iter), ast.Name) else None
        ups = [c for c in q.calls(C) if src and q.unparse(c.func) == src + '.update']
        kinds = sorted(q.unparse(c.args[0].func).split('.')[-1] for c in ups if c.args and isinstance(c.args[0], ast.Call))
        run.check(kinds == ['transitions_from', 'transitions_to'], r3, ci.short, 'transitions from and to every copied state are collected', 'collected through %s' % kinds, t)
        for u in ups:
            l2 = q.enclosing(u, ast.For)
            run.check(l2 is not None and 'descendants_for' in q.unparse(l2.iter) and '[' in q.unparse(l2.iter), r3, ci.short, 'over the copied root and all its descendants', 'differs', u)
    # the replaced state must have no children; the copied root replaces it
    rz = [x for x in q.raises_in(C) if q.raised_class(x) == 'StatechartError' and q.enclosing(x, ast.ExceptHandler) is None]
    run.check(any(any('children_for(%s)' % ps[3] in a[1] for a in guard_atoms(x)) for x in rz), r3, ci.short, 'refuses to replace a state that has children', 'missing', C)
    st = [x for x in q.walk(C, False) if isinstance(x, ast.Assign) and q.unparse(x.targets[0]) == 'self._states[%s]' % ps[3]]
    run.check(len(st) == 1 and (cv + '.state_for(') in q.unparse(st[0].value), r3, ci.short, 'the copied root replaces the target state', 'differs', C)
    run.note('C17.4 rename_state re-appends the renamed child at the end of its parent\'s children list: harmless exactly when C07.1 holds (dependency)')
