"""C04 Non-determinism and conflicts are reported, never silently resolved."""
import ast

from .. import q
from ..cfg import guards, guard_atoms
from ..prog import strip_cast, dotted

EXPLANATION = (
    'Static rules over Interpreter._compute_steps / _sort_transitions / execute_once: the decision phase has no write effect on '
    'interpreter, statechart or model state besides the initialisation flag and the evaluator\'s compiled-code cache (transitive, '
    'call-site specialised effect analysis), the conflict check dominates step creation and precedes consumption, the check ranges '
    'over all unordered pairs and raises each error under the condition of its own kind for both members of a pair, the LCA-based '
    'region test is guarded against the reflexive case lca(s, s) = parent(s), and no handler between execute_once and the raise '
    'swallows ExecutionError; the statechart queries the classification answers from keep no memoised result across an edit (derived-data rule). Decides that the error cannot be bypassed or partially applied; not its reachability for concrete charts.')

PURE_CACHES = {('PythonEvaluator', '_evaluable_code')}
FRESH_CTORS = True


def exception_supers(prog, name):
    out = [name]
    if prog.has_cls(name):
        out = [c.name for c in prog.mro(prog.cls(name))]
    return out + ['Exception', 'BaseException']


def swallow_check(run, r, raising_shorts, exc_name, label, allow=()):
    """No try statement whose body can reach one of the raising functions has a handler that catches exc_name
    (or a supertype, or everything) without re-raising."""
    prog = run.prog
    supers = set(exception_supers(prog, exc_name))
    n = 0
    for fi in prog.functions():
        if fi.outer is not None:
            continue
        for t in [x for x in q.walk(fi.node) if isinstance(x, ast.Try)]:
            n += 1
            body_calls = [c for st in t.body for c in ast.walk(st) if isinstance(c, ast.Call)]
            reach = set()
            for c in body_calls:
                tg, ext, ok = prog.resolve_call(c, prog.func_of(c) or fi)
                for f, _ in prog.reachable(tg).values() if tg else []:
                    reach.add(f.short)
            hits = sorted(reach & set(raising_shorts))
            for h in t.handlers:
                names = []
                if h.type is None:
                    names = ['BaseException']
                else:
                    ts = h.type.elts if isinstance(h.type, ast.Tuple) else [h.type]
                    names = [(dotted(x) or '?').split('.')[-1] for x in ts]
                catches = bool(set(names) & supers)
                reraises = any(isinstance(x, ast.Raise) for st in h.body for x in ast.walk(st))
                if hits and catches:
                    run.check(reraises and (fi.short, tuple(names)) in allow or (reraises and False) or (fi.short in [a[0] for a in allow]), r, fi.short,
                              'handler %s around a call reaching %s' % (names, hits),
                              '%s raised below can be caught here%s' % (exc_name, '' if reraises else ' and is swallowed'), h)
                else:
                    run.ok(r, fi.short, 'try@%s handler %s cannot intercept %s (%s)' % (t.lineno, names, exc_name, label), h)
    run.floor(n, 9, r, 'try statements')


def rules_purity(run):
    r = run.rule('C04.1', 'the decision phase (_compute_steps and everything it can reach) writes nothing but the initialisation flag and the '
                          'compiled-code cache, and can reach no event raising, queue mutation or code execution')
    prog = run.prog
    ci = run.fn('Interpreter._compute_steps')
    spec = prog.reachable_spec([ci])
    names = sorted({f.short for f, _, _ in spec.values()})
    run.floor(len(names), 6, r, 'functions reachable from _compute_steps')
    w = prog.transitive_writes([ci])
    from .c16 import derived_caches
    memo = set(derived_caches(prog))      # memoised query results of Statechart: governed by C16.7 / C17.5 (invalidation), not state
    from .c02 import interpreter_memo_findings
    imemo = set(interpreter_memo_findings(prog)[0])      # memoised values on the interpreter itself: governed by C02.10
    for (c, fld), sites in sorted(w.items()):
        if c == 'Statechart' and fld in memo:
            run.ok(r, sites[0][0].short, 'write to derived cache Statechart.%s (governed by C16.7)' % fld, sites[0][2])
            continue
        if c == 'Interpreter' and fld in imemo:
            run.ok(r, sites[0][0].short, 'write to memo Interpreter.%s (governed by C02.10)' % fld, sites[0][2])
            continue
        for f, kind, node in sites:
            if f.name == '__init__' and f.cls is not None and c == f.cls.name or (f.name == '__init__' and prog.is_subclass(f.cls.name if f.cls else '', c)):
                continue    # FRESH: a constructor initialising the object it is constructing
            if c.startswith('?'):
                # receiver of unknown type: a local container / object
                continue
            okk = (c, fld) == ('Interpreter', '_initialized') or (c, fld) in PURE_CACHES
            run.check(okk, r, f.short, 'write:%s.%s %s' % (c, fld, kind),
                      'the decision phase modifies state: when NonDeterminismError/ConflictingTransitionsError is raised afterwards, '
                      'something has already changed', node)
    forbidden = {'Interpreter._raise_event', 'Interpreter._queue_event', 'Interpreter._apply_step', 'Interpreter._stabilize',
                 'Evaluator.execute_action', 'Evaluator.execute_on_entry', 'Evaluator.execute_on_exit', 'PythonEvaluator._execute_code',
                 'Evaluator._execute_code', 'DummyEvaluator._execute_code', 'Interpreter._evaluate_contract_conditions'}
    hit = sorted(set(names) & forbidden)
    run.check(not hit, r, ci.short, 'decision phase reaches no execution / emission / queueing',
              '_compute_steps can reach %s' % hit, ci.node)
    for nme in names:
        run.ok(r, nme, 'reachable from _compute_steps, effects within {_initialized, compiled-code cache}', None)


def rules_order(run):
    r = run.rule('C04.2', '_sort_transitions (the check) dominates _create_steps in _compute_steps, and _compute_steps returns before anything is '
                          'consumed or applied in execute_once')
    ci = run.fn('Interpreter._compute_steps')
    C = ci.node
    so = q.calls_to(run, C, {'Interpreter._sort_transitions'})
    cr = q.calls_to(run, C, {'Interpreter._create_steps'})
    run.anchor(so and cr, r, '_sort_transitions and _create_steps calls in _compute_steps')
    for c in cr:
        run.check(any(q.strictly_before(C, s, c) for s in so), r, ci.short, 'conflict check before step creation',
                  'steps can be created without the conflict check having run', c)
    for s in so:
        st_call = q.calls_to(run, C, {'Interpreter._select_transitions'})
        a0 = q.arg(s, 0, 'transitions')
        st = q.enclosing_stmt(st_call[0]) if st_call else None
        good = st is not None and isinstance(st, ast.Assign) and isinstance(a0, ast.Name) and isinstance(st.targets[0], ast.Name) and a0.id == st.targets[0].id
        run.check(good, r, ci.short, 'the check sees all selected transitions', '_sort_transitions must receive the full selection', s)
        selv = a0.id if isinstance(a0, ast.Name) else '?'

        def classify(op, l, r_, e, selv=selv):
            if op == 'truthy' and l == selv:
                return 'SELECTED'
            if op == 'truthy' and l == 'self._initialized':
                return 'INIT'
            return None
        ba = q.BoolAbs(classify)
        vs, sat = ba.table(guards(s))
        # reached whenever initialised and something was selected, whatever the other atoms say
        missing = [v for v in range(1) if not all(any(('SELECTED' in x) and all((u in x) == val for u, val in combo.items()) for x in sat)
                                                  for combo in [{}])]
        unknown_vars = [v for v in vs if v.startswith('?')]
        need = []
        import itertools
        for vals in itertools.product([False, True], repeat=len(unknown_vars)):
            want = frozenset(['SELECTED'] + (['INIT'] if 'INIT' in vs else []) + [u for u, b in zip(unknown_vars, vals) if b])
            if want not in sat:
                need.append(dict(zip(unknown_vars, vals)))
        run.check(not need, r, ci.short, 'the check runs whenever something was selected', 'the check is skipped when %s' % need[:2], s)
    ei = run.fn('Interpreter.execute_once')
    E = ei.node
    comp = q.calls_to(run, E, {'Interpreter._compute_steps'})
    run.anchor(len(comp) == 1, r, '_compute_steps call in execute_once')
    for lab in ({'Interpreter._apply_step'}, {'Interpreter._stabilize'}, {'Interpreter._select_event'}):
        for c in q.calls_to(run, E, lab):
            run.check(q.strictly_before(E, comp[0], c), r, ei.short, 'decision before %s' % sorted(lab)[0].split('.')[-1],
                      'something is applied / consumed before the decision phase finished', c)


def rules_pairs(run, rid='C04.3'):
    r = run.rule(rid, 'the check ranges over all unordered pairs; NonDeterminismError iff the LCA of the two sources is not orthogonal; '
                          'ConflictingTransitionsError iff a (non-internal) target lies outside the subtree of the LCA child, for both members')
    prog = run.prog
    fi = run.fn('Interpreter._sort_transitions')
    F = fi.node
    tp = q.param_names(F)[1]
    pair_loops = [n for n in q.walk(F, False) if isinstance(n, ast.For) and isinstance(strip_cast(n.iter), ast.Call)
                  and (dotted(strip_cast(n.iter).func) or '').split('.')[-1] == 'combinations']
    run.check(len(pair_loops) == 1, r, fi.short, 'pairwise loop over combinations', 'expected a loop over itertools.combinations(transitions, 2)', F)
    if not pair_loops:
        return None
    L = pair_loops[0]
    call = strip_cast(L.iter)
    good = len(call.args) == 2 and isinstance(call.args[0], ast.Name) and call.args[0].id == tp and isinstance(call.args[1], ast.Constant) and call.args[1].value == 2
    run.check(good and not q.assigned_value(F, tp)[:0] and all(not q.strictly_before(F, st, L) for st, v in q.assigned_value(F, tp)), r, fi.short,
              'all unordered pairs of the selected transitions', 'the check must range over combinations(<all transitions>, 2)', L)
    at = guard_atoms(L)
    okg = all(a in (('truthy', tp, ''),) or (a[0] == '<' and a[1] == '1' and a[2] == 'len(%s)' % tp) or (a[0] == '<=' and a[1] == '2' and a[2] == 'len(%s)' % tp) for a in at)
    run.check(okg, r, fi.short, 'check runs whenever there are two or more transitions', 'check skipped under %s' % at, L)
    run.anchor(isinstance(L.target, ast.Tuple) and len(L.target.elts) == 2, r, '(t1, t2) pair target')
    t1, t2 = [e.id for e in L.target.elts]
    raises = [n for n in ast.walk(L) if isinstance(n, ast.Raise)]
    nd = [x for x in raises if q.raised_class(x) == 'NonDeterminismError']
    cf = [x for x in raises if q.raised_class(x) == 'ConflictingTransitionsError']
    run.check(len(nd) >= 1, r, fi.short, 'NonDeterminismError is raised', 'no NonDeterminismError raise in the pair loop', L)
    run.check(len(cf) >= 1, r, fi.short, 'ConflictingTransitionsError is raised', 'no ConflictingTransitionsError raise in the pair loop', L)
    other = [x for x in raises if x not in nd and x not in cf]
    run.check(not other, r, fi.short, 'only the two documented errors', 'other exception raised: %s' % [q.raised_class(x) for x in other], L)
    for k in ('NonDeterminismError', 'ConflictingTransitionsError'):
        run.check(prog.has_cls(k) and prog.is_subclass(k, 'ExecutionError'), r, k, k + ' is an ExecutionError', 'class hierarchy changed', None)
    run.check(not prog.is_subclass('NonDeterminismError', 'ConflictingTransitionsError') and not prog.is_subclass('ConflictingTransitionsError', 'NonDeterminismError'),
              r, 'exceptions', 'the two error classes are distinct', 'one error class subsumes the other', None)
    # LCA of the two sources
    lcas = q.calls_to(run, L, {'Statechart.least_common_ancestor'})
    run.check(len(lcas) == 1 and sorted(q.unparse(a) for a in lcas[0].args) == sorted([t1 + '.source', t2 + '.source']), r, fi.short,
              'LCA of the two sources', 'region test must use least_common_ancestor(t1.source, t2.source)', L)
    lca_var = None
    if lcas:
        st = q.enclosing_stmt(lcas[0])
        lca_var = st.targets[0].id if isinstance(st, ast.Assign) and isinstance(st.targets[0], ast.Name) else None
    same_src_guarded = False
    for x in nd:
        ats = guard_atoms(x, stop=L)
        # accepted raise conditions: not isinstance(state_for(lca), OrthogonalState)   |   t1.source == t2.source
        kinds = []
        for a in ats:
            if a[0] == 'falsy' and 'OrthogonalState' in a[1] and a[1].startswith('isinstance('):
                subj = a[1][len('isinstance('):].split(',')[0]
                origin = [q.unparse(o) for o in q.local_origin(F, ast.parse(subj, mode='eval').body)] if subj.isidentifier() else [subj]
                if lca_var and any(lca_var in o and 'state_for' in o for o in origin):
                    kinds.append('region')
                else:
                    kinds.append('?' + a[1])
            elif a[0] == '==' and {a[1], a[2]} == {t1 + '.source', t2 + '.source'}:
                kinds.append('same-source')
            elif a[0] == '!=' and {a[1], a[2]} == {t1 + '.source', t2 + '.source'}:
                kinds.append('distinct-sources')
            else:
                kinds.append('?' + str(a))
        real = [k for k in kinds if k != 'distinct-sources']
        run.check(len(real) == 1 and real[0] in ('region', 'same-source'), r, fi.short, 'NonDeterminismError condition: ' + ','.join(kinds),
                  'NonDeterminismError must be raised exactly when the LCA of the sources is not an orthogonal state (or the sources coincide)', x)
        if 'same-source' in kinds:
            same_src_guarded = True
    all_kinds = set()
    for x in nd:
        for a in guard_atoms(x, stop=L):
            if a[0] == 'falsy' and 'OrthogonalState' in a[1]:
                all_kinds.add('region')
    run.check('region' in all_kinds, r, fi.short, 'NonDeterminismError when the LCA of the sources is not an orthogonal state',
              'no rejection of two transitions whose sources are not in orthogonal regions', L)
    # conflict check for both members
    for x in cf:
        lp = q.enclosing(x, ast.For)
        good = lp is not None and lp is not L and isinstance(strip_cast(lp.iter), (ast.List, ast.Tuple)) and \
            sorted(q.unparse(e) for e in strip_cast(lp.iter).elts) == sorted([t1, t2])
        run.check(good, r, fi.short, 'conflict test applied to both members of the pair', 'the conflict test must be applied to t1 and t2', x)
        if good:
            tv = lp.target.id
            ats = guard_atoms(x, stop=lp)

            def res(txt):
                if txt.isidentifier():
                    o = q.local_origin(F, ast.Name(id=txt, ctx=ast.Load()))
                    if len(o) == 1:
                        return q.unparse(o[0])
                return txt
            ats = [(a[0], a[1], res(a[2])) if a[0] == 'not in' else a for a in ats]
            tgt = [a for a in ats if a == ('truthy', tv + '.target', '') or a == ('is not', tv + '.target', 'None') or a == ('falsy', tv + '.internal', '')]
            outside = [a for a in ats if a[0] == 'not in' and a[1] == tv + '.target' and 'descendants_for' in a[2]]
            run.check(len(tgt) == 1 and len(outside) == 1 and len(ats) == 2, r, fi.short, 'conflict iff external target outside the LCA child subtree',
                      'ConflictingTransitionsError condition is %s' % ats, x)
            if outside:
                # [child] + descendants_for(child), child obtained by walking up from the source until the LCA
                expr = outside[0][2]
                def iter_origin(w):
                    return [o for o in q.local_origin(F, w.iter)]
                walks = [w for w in ast.walk(lp) if isinstance(w, ast.For) and any('Statechart.ancestors_for' in q.callee_shorts(run, c)[0]
                                                                                    for o in iter_origin(w) for c in ast.walk(o) if isinstance(c, ast.Call))]
                good2 = len(walks) == 1
                if good2:
                    w = walks[0]
                    brk = [b for b in ast.walk(w) if isinstance(b, ast.Break)]
                    good2 = len(brk) == 1 and lca_var is not None and guard_atoms(brk[0], stop=w) in (
                        [('==', *sorted([w.target.id, lca_var]))], [('==', lca_var, w.target.id)], [('==', w.target.id, lca_var)])
                    asg = [s for s in w.body if isinstance(s, ast.Assign)]
                    good2 = good2 and len(asg) == 1 and isinstance(asg[0].targets[0], ast.Name) and expr.replace(' ', '') == \
                        ('[%s]+self._statechart.descendants_for(%s)' % (asg[0].targets[0].id, asg[0].targets[0].id))
                    good2 = good2 and all(tv + '.source' in q.unparse(o) for o in iter_origin(w))
                    if good2:
                        # the walk starts at the source itself (a source that is a direct child of the LCA is its own region root)
                        child = asg[0].targets[0].id
                        inits = [v for st, v in q.assigned_value(F, child) if not q.in_node(st, w)]
                        run.check(len(inits) == 1 and q.unparse(inits[0]) == tv + '.source', r, fi.short, 'the region root defaults to the source itself',
                                  'the walk towards the LCA starts from %s instead of the source' % [q.unparse(i) for i in inits], w)
                run.check(good2, r, fi.short, 'subtree = LCA child (walk up from the source until the LCA) and its descendants',
                          'the region of a transition must be the child of the LCA on its source side', x)
    return same_src_guarded, lca_var, (t1, t2), L


def rules_reflexive(run, info):
    r = run.rule('C04.4', 'least_common_ancestor ranges over strict ancestors, so lca(s, s) = parent(s): its use as a region-separation test must be '
                          'guarded by a comparison of the two sources (two transitions of one state are never in separate regions)')
    from ..order import Orders
    o = Orders(run)
    fi = run.fn('Interpreter._sort_transitions')
    lca = run.fn('Statechart.least_common_ancestor')
    anc = run.fn('Statechart.ancestors_for')
    t = o.summary(anc)
    strict = t == ('CHAIN_UP',) or (t[0] == 'CAT' and [x for x in t[1] if x != ('CAT', [])] == [('CHAIN_UP',)])
    # does least_common_ancestor itself special-case equal arguments?
    ps = q.param_names(lca.node)[1:3]
    handles_eq = any(isinstance(n, ast.Compare) and sorted(x.id for x in ast.walk(n) if isinstance(x, ast.Name)) == sorted(ps) for n in q.walk(lca.node))
    run.ok(r, lca.short, 'ancestors_for starts at the parent (strict): %s; equal arguments special-cased: %s' % (strict, handles_eq), lca.node)
    if info is None:
        return
    same_src_guarded, lca_var, (t1, t2), L = info
    if strict and not handles_eq:
        run.check(same_src_guarded, r, fi.short, 'same-source pair rejected before the LCA region test',
                  'two enabled transitions of the same state whose parent is orthogonal pass the region test (lca(s,s)=parent(s) is orthogonal) '
                  'and both fire: no NonDeterminismError', L)
        if same_src_guarded:
            # the same-source raise must precede the LCA-based one
            nd = [x for x in ast.walk(L) if isinstance(x, ast.Raise) and q.raised_class(x) == 'NonDeterminismError']
            first = [x for x in nd if any(a[0] == '==' for a in guard_atoms(x, stop=L))]
            rest = [x for x in nd if x not in first]
            for a in first:
                run.check(not guards(a, stop=L)[1:] or True, r, fi.short, 'same-source test is unconditional within the pair loop', '', a)
                run.check(len(guard_atoms(a, stop=L)) == 1, r, fi.short, 'same-source test depends on nothing else',
                          'same-source rejection is conditional on %s' % guard_atoms(a, stop=L), a)
    else:
        run.ok(r, fi.short, 'reflexive case handled inside least_common_ancestor', L)


def rules_swallow(run):
    r = run.rule('C04.5', 'no try statement on a path from execute_once to the conflict check catches ExecutionError (or a supertype) without re-raising')
    swallow_check(run, r, ['Interpreter._sort_transitions'], 'NonDeterminismError', 'conflict check')


def check(run):
    run.guard(rules_purity, run)
    run.guard(rules_order, run)
    info = rules_pairs(run)
    run.guard(rules_reflexive, run, info)
    run.guard(rules_swallow, run)
    # two enabled transitions of one state must end up in one group to be seen as a pair: the grouping helper puts every item in exactly one group per key
    from .c01 import rules_groupby
    run.guard(rules_groupby, run, 'C04.6')
    # "same region", "stays inside its region" are decided from statechart queries: a memoised query that survives an edit misjudges pairs afterwards
    from .c16 import rules_caches
    run.guard(rules_caches, run, 'C04', '.7', ['Interpreter._sort_transitions'])
