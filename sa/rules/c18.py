"""C18 A pickled or deep-copied interpreter continues exactly like the original."""
import ast
import os

from .. import q
from ..cfg import guards, guard_atoms
from ..prog import strip_cast, dotted, own_nodes

EXPLANATION = (
    'Static rules: no container stored on an object reachable from Interpreter is indexed by id(..) (object identities do not survive '
    'pickle or deepcopy; a committed positive fixture proves the detector fires); __getstate__/__setstate__ pairs agree on their layout; '
    'PythonEvaluator.__getstate__ works on a copy of __dict__ and writes nothing on self; every field it empties is read only through a '
    'miss-tolerant get-then-setdefault(compile) path; no lambda, generator, iterator, lock, thread or file object is assigned to a field '
    'of a class reachable from Interpreter; no snapshot hook (__getstate__, __reduce__, copy hooks) of any class changes a value the live object still refers to, '
    'a shallow copy of __dict__ sharing its values. Decides that no state is lost or mis-keyed by serialisation; not equality of future runs.')

REACHABLE_CLASSES = ['Interpreter', 'PythonEvaluator', 'Evaluator', 'DummyEvaluator', 'FrozenContext', 'Statechart', 'Transition', 'StateMixin', 'ContractMixin',
                     'ActionStateMixin', 'HistoryStateMixin', 'CompoundState', 'BasicState', 'OrthogonalState', 'FinalState', 'ShallowHistoryState', 'DeepHistoryState',
                     'Event', 'InternalEvent', 'MetaEvent', 'MicroStep', 'MacroStep', 'SimulatedClock', 'SynchronizedClock', 'UtcClock',
                     'InternalEventListener', 'PropertyStatechartListener']
FIXTURE = os.path.join(os.path.dirname(os.path.dirname(os.path.abspath(__file__))), 'fixtures', 'identity_key.py')


def identity_keyed(tree_nodes):
    """[(container text, node)] for subscripts / get / pop / setdefault on a self.<field> container indexed by id(..)."""
    out = []
    for n in tree_nodes:
        key = None
        cont = None
        if isinstance(n, ast.Subscript):
            key, cont = n.slice, n.value
        elif isinstance(n, ast.Call) and isinstance(n.func, ast.Attribute) and n.func.attr in ('get', 'pop', 'setdefault', '__getitem__', '__setitem__') and n.args:
            key, cont = n.args[0], n.func.value
        if key is None:
            continue
        if any(isinstance(x, ast.Call) and isinstance(x.func, ast.Name) and x.func.id == 'id' for x in ast.walk(key)):
            c = strip_cast(cont)
            if isinstance(c, ast.Attribute):
                out.append((q.unparse(c), n))
    return out


def check(run):
    run.guard(rules_hooks, run)
    prog = run.prog
    r = run.rule('C18.1', 'no identity-keyed persistent state: no field of an object reachable from Interpreter is indexed by id(..)')
    with open(FIXTURE) as fh:
        fx = ast.parse(fh.read())
    fxhits = identity_keyed(list(ast.walk(fx)))
    run.floor(len(fxhits), 2, r, 'matches on the positive fixture sa/fixtures/identity_key.py')
    run.ok(r, 'fixture', 'detector fires on the committed positive fixture (%d matches)' % len(fxhits), None)
    n_cls = 0
    for cname in REACHABLE_CLASSES:
        if not prog.has_cls(cname):
            continue
        ci = prog.cls(cname)
        n_cls += 1
        for m in list(ci.methods.values()) + list(ci.setters.values()):
            hits = identity_keyed(list(own_nodes(m.node)))
            for cont, node in hits:
                run.fail(r, m.short, '%s[id(..)]' % cont, 'a container kept on the object is keyed by object identity: the entries are lost (keys change) when the '
                         'interpreter is pickled or deep-copied, so __old__ is None afterwards', node)
            if not hits:
                run.ok(r, m.short, 'no identity-keyed container access', m.node)
    run.floor(n_cls, 20, r, 'classes reachable from Interpreter')

    r = run.rule('C18.2', '__getstate__ / __setstate__ symmetry; PythonEvaluator.__getstate__ works on a copy of __dict__ and writes nothing on self')
    ev = prog.cls('Event')
    g, s = ev.methods.get('__getstate__'), ev.methods.get('__setstate__')
    run.anchor(g and s, r, 'Event.__getstate__/__setstate__')
    gr = [n for n in q.walk(g.node, False) if isinstance(n, ast.Return)]
    sa = [n for n in q.walk(s.node, False) if isinstance(n, ast.Assign) and 'self.' in q.unparse(n.targets[0])]
    good = len(gr) == 1 and isinstance(gr[0].value, ast.Tuple) and len(sa) == 1 and isinstance(sa[0].targets[0], ast.Tuple) and \
        [q.unparse(e) for e in gr[0].value.elts] == [q.unparse(e) for e in sa[0].targets[0].elts] and q.unparse(sa[0].value) == q.param_names(s.node)[1]
    run.check(good, r, 'Event', '__setstate__ unpacks exactly what __getstate__ packs, in the same order', 'layouts differ', s.node)
    slots = [n for n in ev.node.body if isinstance(n, ast.Assign) and q.unparse(n.targets[0]) == '__slots__']
    if slots and gr and isinstance(gr[0].value, ast.Tuple):
        sl = sorted(q.const_str(e) for e in slots[0].value.elts)
        run.check(sl == sorted(q.unparse(e).split('.')[-1] for e in gr[0].value.elts), r, 'Event', 'every slot is part of the pickled state', 'slots %s' % sl, g.node)
    fc = prog.cls('FrozenContext')
    g, s = fc.methods.get('__getstate__'), fc.methods.get('__setstate__')
    run.anchor(g and s, r, 'FrozenContext.__getstate__/__setstate__')
    gr = [n for n in q.walk(g.node, False) if isinstance(n, ast.Return)]
    sa = [n for n in q.walk(s.node, False) if isinstance(n, ast.Assign) and 'self.' in q.unparse(n.targets[0])]
    good = len(gr) == 1 and len(sa) == 1 and q.unparse(gr[0].value) == q.unparse(sa[0].targets[0]) and q.unparse(sa[0].value) == q.param_names(s.node)[1]
    run.check(good, r, 'FrozenContext', '__setstate__ restores the field __getstate__ returns', 'differs', s.node)
    pg = run.fn('PythonEvaluator.__getstate__')
    P = pg.node
    rets = [n for n in q.walk(P, False) if isinstance(n, ast.Return)]
    rv = rets[0].value.id if len(rets) == 1 and isinstance(rets[0].value, ast.Name) else None
    defs = q.assigned_value(P, rv) if rv else []
    run.check(len(defs) == 1 and q.unparse(defs[0][1]) in ('self.__dict__.copy()', 'dict(self.__dict__)', 'copy.copy(self.__dict__)'), r, pg.short,
              'state is a copy of __dict__', 'the live __dict__ would be modified by taking a snapshot', P)
    wr = [(c, f, k, n) for c, f, k, n in prog.direct_writes(pg) if c == 'PythonEvaluator']
    run.check(not wr, r, pg.short, 'taking the snapshot writes nothing on the original', 'writes %s' % [(f, k) for c, f, k, n in wr], P)
    dropped = []
    for n in q.walk(P, False):
        if isinstance(n, ast.Assign) and isinstance(n.targets[0], ast.Subscript) and q.unparse(n.targets[0].value) == rv:
            k = q.const_str(n.targets[0].slice)
            dropped.append(k)
            run.check(q.unparse(n.value) in ('dict()', '{}'), r, pg.short, "field %s replaced by an empty dict" % k, 'replaced by %s' % q.unparse(n.value), n)
    run.check(sorted(dropped) == ['_evaluable_code', '_executable_code'], r, pg.short, 'only the two compiled-code caches are dropped', 'dropped: %s' % dropped, P)

    r = run.rule('C18.3', 'dropped fields are rebuilt: each emptied cache is read only through get(code) followed by setdefault(code, compile(code, ..))')
    pe = prog.cls('PythonEvaluator')
    for fld, mode in (('_evaluable_code', 'eval'), ('_executable_code', 'exec')):
        uses = []
        for m in pe.methods.values():
            for n in q.walk(m.node):
                if isinstance(n, ast.Attribute) and n.attr == fld and isinstance(n.value, ast.Name) and n.value.id == 'self':
                    uses.append((m, n))
        for m, n in uses:
            par = n._parent
            if m.name in ('__init__',):
                continue
            if m.name == '__getstate__':
                continue
            good = isinstance(par, ast.Attribute) and par.attr in ('get', 'setdefault') and isinstance(par._parent, ast.Call)
            if good and par.attr == 'setdefault':
                call = par._parent
                good = len(call.args) == 2 and isinstance(call.args[1], ast.Call) and dotted(call.args[1].func) == 'compile' and \
                    q.unparse(call.args[1].args[0]) == q.unparse(call.args[0]) and q.const_str(call.args[1].args[2]) == mode
            run.check(good, r, m.short, '%s accessed through get/setdefault(compile(.., %r))' % (fld, mode), 'a direct lookup fails after unpickling (cache is empty)', n)
        run.floor(len(uses), 3, r, 'uses of ' + fld)
    for short, fld in (('PythonEvaluator._evaluate_code', '_evaluable_code'), ('PythonEvaluator._execute_code', '_executable_code')):
        m = run.fn(short)
        gets = [c for c in q.calls(m.node) if q.unparse(c.func) == 'self.%s.get' % fld]
        sets = [c for c in q.calls(m.node) if q.unparse(c.func) == 'self.%s.setdefault' % fld]
        good = len(gets) == 1 and len(sets) == 1
        if good:
            gv = q.enclosing_stmt(gets[0]).targets[0].id
            at = guard_atoms(sets[0])
            good = ('is', gv, 'None') in at or ('falsy', gv, '') in at
        run.check(good, r, short, 'a cache miss recompiles', 'miss not handled', m.node)

    r = run.rule('C18.4', 'no unpicklable value (lambda, generator, iterator, lock, thread, file) is assigned to a field of a class reachable from Interpreter')
    n = 0
    for cname in REACHABLE_CLASSES:
        if not prog.has_cls(cname):
            continue
        ci = prog.cls(cname)
        for m in list(ci.methods.values()) + list(ci.setters.values()):
            for node in own_nodes(m.node):
                if isinstance(node, ast.Assign):
                    for t in node.targets:
                        if isinstance(t, ast.Attribute) and isinstance(t.value, ast.Name) and t.value.id == 'self':
                            n += 1
                            bad = None
                            consumed = set()      # closures / generators handed to a builtin that uses them up at once are not what gets stored
                            for x in ast.walk(node.value):
                                if isinstance(x, ast.Call) and (dotted(x.func) or '') in ('sorted', 'min', 'max', 'sum', 'any', 'all', 'list', 'tuple', 'set', 'frozenset', 'dict', 'len') \
                                        or (isinstance(x, ast.Call) and isinstance(x.func, ast.Attribute) and x.func.attr == 'join'):
                                    for a_ in list(x.args) + [k_.value for k_ in x.keywords]:
                                        consumed |= {id(y) for y in ast.walk(a_)}
                            for x in ast.walk(node.value):
                                if isinstance(x, (ast.Lambda, ast.GeneratorExp)) and id(x) not in consumed:
                                    bad = type(x).__name__
                                if isinstance(x, ast.Call):
                                    d = dotted(x.func) or ''
                                    if d.startswith('threading.') or d in ('open', 'iter', 'filter', 'map', 'zip', 'Lock', 'RLock', 'Thread', 'compile'):
                                        bad = d
                                    if d.startswith('weakref.') or d in ('ref', 'proxy', 'WeakValueDictionary', 'WeakKeyDictionary', 'WeakSet', 'WeakMethod'):
                                        bad = d + ' (a weak reference is neither pickled nor deep-copied: the copy keeps pointing at the original object)'
                            run.check(bad is None, r, m.short, 'self.%s = %s' % (t.attr, q.unparse(node.value)[:40]), 'an unpicklable %s is stored on the object' % bad, node)
    run.floor(n, 40, r, 'field assignments in reachable classes')
    # closures / lambdas passed to constructors of reachable classes or to attach(): they end up stored on the interpreter
    nargs = 0
    for cname in REACHABLE_CLASSES:
        if not prog.has_cls(cname):
            continue
        ci = prog.cls(cname)
        for m in list(ci.methods.values()):
            nested = {x.name for x in own_nodes(m.node) if isinstance(x, ast.FunctionDef)}
            for c in [x for x in own_nodes(m.node) if isinstance(x, ast.Call)]:
                tg, ext, ok = prog.resolve_call(c, prog.func_of(c) or m)
                stores = any(t.name == '__init__' and t.cls is not None and t.cls.name in REACHABLE_CLASSES for t in tg) or \
                    any(t.short in ('Interpreter.attach', 'Interpreter.bind') for t in tg) or (isinstance(c.func, ast.Attribute) and c.func.attr == 'append' and '_listeners' in q.unparse(c.func.value))
                if not stores:
                    continue
                for a in list(c.args) + [k.value for k in c.keywords]:
                    nargs += 1
                    a = strip_cast(a)
                    bad = isinstance(a, ast.Lambda) or (isinstance(a, ast.Name) and a.id in nested)
                    run.check(not bad, r, m.short, 'argument %s of %s is picklable / copyable' % (q.unparse(a)[:30], q.unparse(c.func)[:40]),
                              'a local function or lambda is stored on an object reachable from the interpreter: pickle fails and deepcopy shares it with the original', c)
    run.floor(nargs, 10, r, 'arguments of storing calls in reachable classes')


def rules_hooks(run, rid='C18.5', classes=None, why=''):
    """classes: restrict to these classes (the rule is shared with properties that rest on a copy being a faithful one); floors apply to the full run only."""
    r = run.rule(rid, 'copy / pickle hooks of %s: __deepcopy__/__copy__ never hand back the object itself and deep-copy what the object refers to; __setstate__ restores '
                      'fields from the pickled state only; __getstate__ drops nothing but lazily rebuilt caches%s' % ('reachable classes' if classes is None else ', '.join(classes), why))
    prog = run.prog
    n = 0
    for cname in (REACHABLE_CLASSES if classes is None else classes):
        if not prog.has_cls(cname):
            continue
        ci = prog.cls(cname)
        for hook in ('__deepcopy__', '__copy__', '__reduce__', '__reduce_ex__', '__setstate__', '__getstate__', '__getnewargs__'):
            m = ci.methods.get(hook)
            if m is None:
                continue
            n += 1
            M = m.node
            ps = q.param_names(M)
            if hook in ('__deepcopy__', '__copy__'):
                rets = [x for x in q.walk(M, False) if isinstance(x, ast.Return)]
                shared = [x for x in rets if x.value is not None and q.unparse(x.value) == ps[0]]
                run.check(not shared, r, m.short, 'a copy is a new object', 'the copy hook returns the object itself: the copied interpreter shares this state with the original', M)
                if hook == '__deepcopy__':
                    # a deep copy copies what the object refers to: the hook hands its fields to deepcopy(.., memo) (directly or as __dict__)
                    dc = [c_ for c_ in q.calls(M) if (dotted(c_.func) or '').split('.')[-1] == 'deepcopy']
                    fed = any(any(isinstance(x, ast.Name) and x.id == ps[0] for a_ in list(c_.args[:1]) for x in ast.walk(a_)) for c_ in dc)
                    # .. and within the hook every nested deepcopy goes on with the memo it was given: without it an object referred to from two places
                    # (an event parameter that is also a context variable) is copied twice, and the copy no longer has the sharing of the original
                    memo_p = ps[1] if len(ps) > 1 else None
                    for c_ in dc:
                        passed = (len(c_.args) >= 2 and q.unparse(c_.args[1]) == memo_p) or any(k_.arg == 'memo' and q.unparse(k_.value) == memo_p for k_ in c_.keywords)
                        run.check(passed, r, m.short, 'nested deepcopy is handed the memo: ' + q.unparse(c_)[:40], 'deepcopy is restarted without the memo: objects shared between '
                                  'this object and the rest of the copied structure are duplicated instead of staying shared', c_)
                    if not (dc and fed):
                        # a hook that builds the duplicate field by field: each field copied at least as deep as its declared type is nested
                        from .common import deepcopy_hook_gaps
                        shallow = deepcopy_hook_gaps(prog, ci, m)
                        if shallow is not None:
                            for f_, need_, made_ in shallow:
                                run.fail(r, m.short, 'field %s copied %s, needs %s' % (f_, 'by reference' if made_ == 0 else '%d level(s) deep' % made_,
                                                                                      'a deep copy' if need_ >= 99 else '%d level(s)' % need_),
                                         'the copy shares (part of) %s with the original: changing one changes the other' % f_, M)
                            if not shallow:
                                run.ok(r, m.short, 'every field copied as deep as its declared type is nested', M)
                            continue
                    if not (dc and fed) and ci.module.name == 'sismic.model.elements':
                        # the elements of the model hold strings, numbers and lists of strings only (names, code, priorities, contract conditions): a hook that
                        # hands every field over, lists through a one-level copy, shares nothing mutable with the original
                        from .common import copy_hook_gaps
                        gaps = [g_ for m_, g_ in copy_hook_gaps(prog, ci) if m_ is m]
                        lists = {st.targets[0].attr for k_ in prog.mro(ci) if '__init__' in k_.methods for st in q.walk(k_.methods['__init__'].node, False)
                                 if isinstance(st, ast.Assign) and isinstance(st.targets[0], ast.Attribute) and isinstance(st.value, (ast.List, ast.Dict, ast.Set, ast.ListComp))}
                        raw = [x for x in q.walk(M) if isinstance(x, ast.Attribute) and isinstance(x.value, ast.Name) and x.value.id == ps[0] and x.attr in lists and
                               isinstance(x.ctx, ast.Load) and not (isinstance(getattr(x, '_parent', None), ast.Call) and isinstance(x._parent.func, ast.Name) and
                                                                    x._parent.func.id in ('list', 'tuple', 'sorted', 'deepcopy')) and
                               not (isinstance(getattr(x, '_parent', None), ast.Subscript) and isinstance(x._parent.slice, ast.Slice)) and
                               not (isinstance(getattr(x, '_parent', None), ast.Attribute) and x._parent.attr == 'copy')]
                        if gaps == [[]] and not raw:
                            run.ok(r, m.short, 'flat element: every field handed over, lists copied one level', M)
                            continue
                    run.check(bool(dc) and fed, r, m.short, 'the values held by the object are deep-copied', 'the deep-copy hook does not deep-copy the fields of the object: '
                              'mutable values (event parameters, lists) stay shared between the copied interpreter and the original, so one changes what the other sees', M)
            elif hook == '__setstate__':
                sp = ps[1] if len(ps) > 1 else None
                for c, f, k, node in prog.direct_writes(m):
                    if not isinstance(node, (ast.Assign, ast.AugAssign)):
                        continue
                    names = set()
                    for x in ast.walk(node.value):
                        if isinstance(x, ast.Name):
                            names.add(x.id)
                        if isinstance(x, ast.Attribute) and isinstance(x.value, ast.Name) and x.value.id == ps[0]:
                            names.add(ps[0] + '.' + x.attr)
                    foreign = sorted(x for x in names if x != sp and not (x.isidentifier() and any(
                        sp in {y.id for y in ast.walk(v) if isinstance(y, ast.Name)} for st, v in q.assigned_value(M, x))))
                    run.check(not foreign, r, m.short, 'field %s restored from the pickled state' % f,
                              'field %s is (re)computed from %s on restore instead of being restored: the restored interpreter differs from the original' % (f, foreign), node)
                ups = [c_ for c_ in q.calls(M) if q.unparse(c_.func) in (ps[0] + '.__dict__.update',)]
                for c_ in ups:
                    run.check(c_.args and q.unparse(c_.args[0]) == sp, r, m.short, '__dict__ restored from the pickled state', 'differs', c_)
            elif hook == '__getstate__':
                if (cname, hook) in (('PythonEvaluator', '__getstate__'),):
                    run.ok(r, m.short, 'dict-copy with overrides, checked by C18.2/C18.3', M)
                    continue
                rets = [x for x in q.walk(M, False) if isinstance(x, ast.Return)]
                slots = [x for x in ci.node.body if isinstance(x, ast.Assign) and q.unparse(x.targets[0]) == '__slots__']
                fields = sorted(q.const_str(e) for e in slots[0].value.elts) if slots else None
                generic = False
                bodies_ = [M]
                for c_ in q.calls(M):          # .. also when the enumeration lives in a helper the hook hands itself to: return slots_state(self)
                    if any(q.unparse(a_) == ps[0] for a_ in c_.args):
                        tg_, ext_, ok_ = prog.resolve_call(c_, m)
                        bodies_ += [t_.node for t_ in tg_ if len(q.param_names(t_.node)) >= 1]
                for lp_ in [x_ for b_ in bodies_ for x_ in q.walk(b_, False)]:
                    # every slot of the class (and of its bases) is enumerated and read: for name in copyreg._slotnames(type(self)) / self.__slots__
                    if isinstance(lp_, ast.For) and isinstance(lp_.target, ast.Name) and ('_slotnames(' in q.unparse(lp_.iter) or '__slots__' in q.unparse(lp_.iter)):
                        owner_ = next((b_ for b_ in bodies_ if any(x_ is lp_ for x_ in q.walk(b_, False))), M)
                        me_ = ps[0] if owner_ is M else q.param_names(owner_)[0]
                        gets = [c_ for c_ in q.calls(lp_) if isinstance(c_.func, ast.Name) and c_.func.id == 'getattr' and len(c_.args) >= 2 and
                                q.unparse(c_.args[0]) == me_ and q.unparse(c_.args[1]) == lp_.target.id]
                        stored = [st_ for st_ in q.walk(lp_, False) if isinstance(st_, ast.Assign) and isinstance(st_.targets[0], ast.Subscript) and
                                  q.unparse(st_.targets[0].slice) == lp_.target.id and any(q.in_node(g_, st_.value) for g_ in gets)]
                        if stored and not any(guards(st_, stop=lp_) for st_ in stored):
                            generic = True
                if generic:
                    run.ok(r, m.short, 'every slot is enumerated and stored in the pickled state', M)
                    continue
                if fields is not None and len(rets) == 1:
                    txt = q.unparse(rets[0].value)
                    missing = [f for f in fields if (ps[0] + '.' + f) not in txt and (ps[0] + '.' + f.lstrip('_')) not in txt and f not in txt]
                    run.check(not missing, r, m.short, 'every slot is part of the pickled state', 'slots %s are not pickled' % missing, M)
                else:
                    over = [x for x in q.walk(M, False) if isinstance(x, ast.Assign) and isinstance(x.targets[0], ast.Subscript)]
                    run.check(not over, r, m.short, 'nothing is dropped from the pickled state', 'fields are overridden in the pickled state: %s' % [q.unparse(x.targets[0]) for x in over], M)
            else:
                run.fail(r, m.short, 'custom %s' % hook, 'a reduction hook not covered by the confirmed table', M)
    if classes is not None:
        run.ok(r, 'hooks', '%d copy / pickle hook(s) on %s' % (n, ', '.join(classes)), None)
        return
    run.floor(n, 5, r, 'copy/pickle hooks')
    # taking the snapshot does not disturb the original: a __getstate__ / __reduce__ / copy hook of any class (new ones included) changes nothing that the live
    # object still refers to - neither a field of self, nor a value reached through a shallow copy of its __dict__
    MUT = ('append', 'extend', 'insert', 'remove', 'pop', 'popitem', 'clear', 'update', 'setdefault', 'sort', 'reverse', 'add', 'discard', 'popleft', 'appendleft')
    nh = 0
    for ci in prog.classes.values():
        if not ci.module.name.startswith('sismic.'):
            continue
        for hook in ('__getstate__', '__reduce__', '__reduce_ex__', '__deepcopy__', '__copy__', '__getnewargs__'):
            m = ci.methods.get(hook)
            if m is None:
                continue
            nh += 1
            M = m.node
            me = q.param_names(M)[0]
            shallow = {st.targets[0].id for st in q.walk(M, False) if isinstance(st, ast.Assign) and isinstance(st.targets[0], ast.Name) and
                       q.unparse(strip_cast(st.value)) in ('%s.__dict__.copy()' % me, 'dict(%s.__dict__)' % me, 'copy.copy(%s.__dict__)' % me, 'copy(%s.__dict__)' % me,
                                                           'vars(%s).copy()' % me, 'dict(vars(%s))' % me, '{**%s.__dict__}' % me)}
            live = {st.targets[0].id for st in q.walk(M, False) if isinstance(st, ast.Assign) and isinstance(st.targets[0], ast.Name) and
                    q.unparse(strip_cast(st.value)) in ('%s.__dict__' % me, 'vars(%s)' % me)}

            def shared(e):
                """e denotes an object the live instance still refers to."""
                e = strip_cast(e)
                if isinstance(e, ast.Attribute) and isinstance(e.value, ast.Name) and e.value.id == me:
                    return True
                if isinstance(e, ast.Subscript) and isinstance(e.value, ast.Name) and e.value.id in shallow | live:
                    return True
                if isinstance(e, ast.Name) and e.id in live:
                    return True
                if isinstance(e, ast.Name):
                    return any(shared(o) for o in q.local_origin(M, e) if not isinstance(strip_cast(o), ast.Name))
                if isinstance(e, (ast.Subscript, ast.Attribute)):
                    return shared(e.value)
                return False
            bad = []
            for n_ in q.walk(M, False):
                if isinstance(n_, ast.Call) and isinstance(n_.func, ast.Attribute) and n_.func.attr in MUT and shared(n_.func.value):
                    bad.append(n_)
                tg = n_.targets if isinstance(n_, (ast.Assign, ast.Delete)) else [n_.target] if isinstance(n_, ast.AugAssign) else []
                for t in tg:
                    if isinstance(t, ast.Attribute) and shared(t):
                        bad.append(n_)
                    elif isinstance(t, ast.Subscript) and shared(t.value) and not (isinstance(t.value, ast.Name) and t.value.id in shallow):
                        bad.append(n_)
                    elif isinstance(t, ast.Subscript) and isinstance(t.value, ast.Name) and t.value.id in live:
                        bad.append(n_)
            for b_ in bad:
                run.fail(r, m.short, 'snapshot hook changes the live object: ' + q.unparse(b_)[:50], 'this modifies a value the original still refers to (a shallow copy of '
                         '__dict__ shares its values): taking the snapshot disturbs the original', b_)
            if not bad:
                run.ok(r, m.short, 'the snapshot hook changes nothing the live object refers to', M)
    run.floor(nh, 3, r, 'snapshot hooks examined for writes')
