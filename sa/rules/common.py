"""Extraction of the labelled actions of Interpreter._apply_step / execute_once, shared by C02, C03, C06, C08, C10, C13, C15."""
import ast

from .. import q
from ..prog import strip_cast, dotted
from ..loader import AnalysisError
from ..cfg import guards, guard_atoms


class Site:
    def __init__(self, label, node, extra=None):
        self.label = label
        self.node = node
        self.extra = extra or {}

    def __repr__(self):
        return '<%s @%s>' % (self.label, getattr(self.node, 'lineno', '?'))


def labelled_sites(run, fi, F=None):
    """All labelled action sites inside function fi, in source order."""
    F = F or fi.node
    prog = run.prog
    out = []
    for c in q.calls(F):
        shorts, ext = q.callee_shorts(run, c)
        names = {s.split('.')[-1] for s in shorts}
        if 'execute_on_exit' in names:
            out.append(Site('exit_code', c, {'obj': q.arg(c, 0, 'state')}))
        if 'execute_on_entry' in names:
            out.append(Site('entry_code', c, {'obj': q.arg(c, 0, 'state')}))
        if 'execute_action' in names:
            out.append(Site('action', c, {'obj': q.arg(c, 0, 'transition'), 'event': q.arg(c, 1, 'event')}))
        if 'Interpreter._evaluate_contract_conditions' in shorts:
            kind = q.arg(c, 1, 'cond_type')
            out.append(Site('contract:%s' % (q.const_str(kind) if kind is not None else '?'), c,
                            {'obj': q.arg(c, 0, 'obj'), 'step': q.arg(c, 2, 'step')}))
        if 'Interpreter._raise_event' in shorts and c.args:
            a = strip_cast(c.args[0])
            if isinstance(a, ast.Call) and isinstance(a.func, ast.Name) and a.func.id == 'MetaEvent' and a.args:
                out.append(Site('emit:%s' % (q.const_str(a.args[0]) or '?' + q.unparse(a.args[0])[:60]), c, {'kwargs': q.kwargs_of(a)}))
            else:
                out.append(Site('raise_event', c, {'arg': a}))
        if 'Interpreter._apply_step' in shorts:
            out.append(Site('apply_step', c, {'arg': q.arg(c, 0, 'step')}))
        if 'Interpreter._stabilize' in shorts:
            out.append(Site('stabilize', c))
        if 'Interpreter._compute_steps' in shorts:
            out.append(Site('compute_steps', c))
        if 'Interpreter._select_event' in shorts:
            out.append(Site('select_event', c))
        if 'Interpreter._create_stabilization_step' in shorts:
            out.append(Site('create_stab', c))
    for cls, fld, kind, node in prog.direct_writes(fi):
        if cls != 'Interpreter' and not (cls.startswith('?') and False):
            continue
        if not q.in_node(node, F):
            continue
        if fld == '_configuration':
            if kind in ('mut:remove', 'mut:discard'):
                out.append(Site('cfg_remove', node, {'obj': node.args[0] if node.args else None}))
            elif kind == 'mut:add':
                out.append(Site('cfg_add', node, {'obj': node.args[0] if node.args else None}))
            else:
                out.append(Site('cfg_other:' + kind, node))
        elif fld == '_memory':
            out.append(Site('mem_save:' + kind, node))
        elif fld == '_entry_time':
            out.append(Site('entry_time:' + kind, node))
        elif fld == '_idle_time':
            out.append(Site('idle_time:' + kind, node))
        elif fld == '_time':
            out.append(Site('time:' + kind, node))
        elif fld == '_sent_events':
            out.append(Site('sent_events:' + kind, node))
        elif fld == '_initialized':
            out.append(Site('initialized:' + kind, node))
    out.sort(key=lambda s: (s.node.lineno, s.node.col_offset))
    return out


class ApplyStep:
    """Regions of _apply_step: exit loop, transition block, entry loop, send loop."""

    def __init__(self, run, rule):
        self.fi = run.fn('Interpreter._apply_step')
        F = self.F = self.fi.node
        ps = q.param_names(F)
        run.anchor(len(ps) >= 2, rule, 'step parameter of _apply_step')
        self.step = ps[1]
        self.sites = labelled_sites(run, self.fi)
        self.exit_loop = self.entry_loop = self.send_loop = self.trans_if = None
        loops = [n for n in q.walk(F, False) if isinstance(n, ast.For)]
        for lp in loops:
            origin = self._origin(lp.iter)
            if origin == self.step + '.exited_states':
                self.exit_loop = lp
                self.exit_direct = self._direct(lp.iter, origin)
            elif origin == self.step + '.entered_states':
                self.entry_loop = lp
                self.entry_direct = self._direct(lp.iter, origin)
        for n in q.walk(F, False):
            if isinstance(n, ast.If) and q.enclosing(n, (ast.For, ast.While)) is None:
                c = q.canon_atom(n.test)
                if c and c[1] == self.step + '.transition' and ((c[0] == 'truthy' and c[3]) or (c[0] == 'is' and c[2] == 'None' and not c[3])):
                    has_action = any(s_.label == 'action' and q.in_block(s_.node, n.body) for s_ in self.sites)
                    if self.trans_if is None or has_action:
                        self.trans_if = n
        for lp in loops:
            if lp in (self.exit_loop, self.entry_loop):
                continue
            if isinstance(lp.target, ast.Name) and any(
                    s.label == 'raise_event' and q.in_node(s.node, lp) and isinstance(s.extra['arg'], ast.Name)
                    and s.extra['arg'].id == lp.target.id for s in self.sites):
                if q.enclosing(lp, (ast.For, ast.While)) is None:
                    self.send_loop = lp
        run.anchor(self.exit_loop, rule, 'loop over step.exited_states in _apply_step')
        run.anchor(self.entry_loop, rule, 'loop over step.entered_states in _apply_step')
        run.anchor(self.trans_if, rule, '`if step.transition:` block in _apply_step')
        run.anchor(self.send_loop, rule, 'loop raising the collected events in _apply_step')

    def _origin(self, it):
        """Which step list an iterable derives from (through list(map(state_for, ..)) and plain locals)."""
        it = strip_cast(it)
        seen = 0
        while seen < 6:
            seen += 1
            if isinstance(it, ast.Name):
                vals = q.assigned_value(self.F, it.id)
                if len(vals) != 1:
                    return None
                it = strip_cast(vals[0][1])
                continue
            if isinstance(it, ast.Call) and isinstance(it.func, ast.Name) and it.func.id in ('list', 'tuple', 'reversed', 'sorted', 'set') and it.args:
                it = strip_cast(it.args[0])
                continue
            if isinstance(it, ast.Call) and isinstance(it.func, ast.Name) and it.func.id == 'map' and len(it.args) == 2:
                it = strip_cast(it.args[1])
                continue
            if isinstance(it, (ast.ListComp, ast.GeneratorExp)) and len(it.generators) == 1 and not it.generators[0].ifs:
                it = strip_cast(it.generators[0].iter)
                continue
            break
        return dotted(it)

    def _direct(self, it, origin):
        """The iteration preserves the order of the step list: no sorted/reversed/set on the way."""
        bad = []
        it = strip_cast(it)
        exprs = [it]
        if isinstance(it, ast.Name):
            exprs += [v for st, v in q.assigned_value(self.F, it.id)]
        for e in exprs:
            for n in ast.walk(e):
                if isinstance(n, ast.Call) and isinstance(n.func, ast.Name) and n.func.id in ('sorted', 'reversed', 'set', 'frozenset'):
                    bad.append(n.func.id)
                if isinstance(n, ast.Subscript) and isinstance(n.slice, ast.Slice):
                    bad.append('slice')
                if isinstance(n, (ast.ListComp, ast.GeneratorExp)) and any(g.ifs for g in n.generators):
                    bad.append('filter')
        if isinstance(it, ast.Name):
            for c in q.calls(self.F):
                if isinstance(c.func, ast.Attribute) and isinstance(c.func.value, ast.Name) and c.func.value.id == it.id \
                        and c.func.attr in ('sort', 'reverse', 'pop', 'remove', 'insert'):
                    bad.append(c.func.attr)
        return bad

    def region(self, site):
        n = site.node if isinstance(site, Site) else site
        for name, reg in (('exit', self.exit_loop), ('transition', self.trans_if), ('entry', self.entry_loop), ('send', self.send_loop)):
            if q.in_node(n, reg):
                if name == 'transition' and not q.in_block(n, self.trans_if.body):
                    continue
                return name
        return None

    def in_region(self, name, prefix=None):
        return [s for s in self.sites if self.region(s) == name and (prefix is None or s.label.startswith(prefix))]


def obj_is(expr, name, attr=None):
    """expr is `name` or `name.attr`."""
    expr = strip_cast(expr) if expr is not None else None
    if expr is None:
        return False
    d = dotted(expr)
    return d == (name if attr is None else name + '.' + attr)


def exactly_for_class(run, node, evp, klass, stop=None):
    """True when the statement `node` is executed exactly when `isinstance(<evp>, <klass>)` holds, the conditions on its path being
    read as a propositional formula over the two event-class tests; InternalEvent and MetaEvent are disjoint classes (checked)."""
    from ..cfg import guards

    def classify(op, l, r_, e):
        if op == 'truthy' and l.replace(' ', '') == 'isinstance(%s,InternalEvent)' % evp:
            return 'INT'
        if op == 'truthy' and l.replace(' ', '') == 'isinstance(%s,MetaEvent)' % evp:
            return 'META'
        return None
    prog = run.prog
    disjoint = not prog.is_subclass('InternalEvent', 'MetaEvent') and not prog.is_subclass('MetaEvent', 'InternalEvent')
    ba = q.BoolAbs(classify)
    vs, sat = ba.table([(g[0], g[1], g[2]) for g in guards(node, stop)])
    if not set(vs) <= {'INT', 'META'}:
        return False
    want = 'INT' if klass == 'InternalEvent' else 'META'
    if want not in vs:
        return False
    bad = q.table_equals(vs, sat, lambda v: v.get(want, False))
    if disjoint:
        bad = [b for b in bad if not (b[0].get('INT') and b[0].get('META'))]
    return not bad


def helper_family(module_tree, F, params=()):
    """F and the private module-level functions it calls (transitively): [(function node, {param of F: name under which it arrives there})].
    A parameter is followed only when it is handed on as a plain name (positionally or by keyword)."""
    funcs = {f.name: f for f in module_tree.body if isinstance(f, ast.FunctionDef)}
    out = [(F, {p_: p_ for p_ in params})]
    seen = {id(F)}
    work = list(out)
    while work:
        G, names = work.pop()
        inv = {v: k for k, v in names.items()}
        for c in q.calls(G):
            if isinstance(c.func, ast.Name) and c.func.id.startswith('_') and c.func.id in funcs and id(funcs[c.func.id]) not in seen:
                H = funcs[c.func.id]
                hp = [a.arg for a in H.args.args]
                m = {}
                for i, a in enumerate(c.args):
                    if isinstance(a, ast.Name) and a.id in inv and i < len(hp):
                        m[inv[a.id]] = hp[i]
                for k in c.keywords:
                    if k.arg and isinstance(k.value, ast.Name) and k.value.id in inv:
                        m[inv[k.value.id]] = k.arg
                seen.add(id(H))
                out.append((H, m))
                work.append((H, m))
    return out


def rules_exact_kinds(run, rid, functions, floor=1):
    """isinstance dispatch over the kinds of states: a test for one concrete kind must not be satisfied by another concrete kind.
    The concrete kinds are the non-mixin subclasses of StateMixin; a test isinstance(x, K) in the given functions is exact when no other
    concrete kind derives from K (deriving ShallowHistoryState from DeepHistoryState makes the deep-history branch take shallow ones too)."""
    prog = run.prog
    r = run.rule(rid, 'kind dispatch is exact: no concrete state class derives from another concrete state class that is tested with isinstance '
                      'in ' + ', '.join(functions))
    base = prog.cls('StateMixin')
    kinds = [c for c in prog.subclasses(base) if not c.name.endswith('Mixin')]
    run.floor(len(kinds), 6, r, 'concrete state classes')
    n = 0
    for fname in functions:
        if not prog.has_fn(fname):
            continue
        fi = prog.fn(fname)
        for c in q.calls(fi.node):
            if not (isinstance(c.func, ast.Name) and c.func.id == 'isinstance' and len(c.args) == 2):
                continue
            tested = c.args[1].elts if isinstance(c.args[1], ast.Tuple) else [c.args[1]]
            for t in tested:
                nm = q.unparse(t).split('.')[-1]
                k = next((x for x in kinds if x.name == nm), None)
                if k is None:
                    continue
                n += 1
                also = sorted(x.name for x in kinds if x is not k and k in prog.mro(x) and not any(q.unparse(t2).split('.')[-1] == x.name for t2 in tested))
                run.check(not also, r, fi.short, 'isinstance(.., %s) selects that kind only' % nm,
                          '%s now also derive(s) from %s: this test takes them too, and the branch meant for them may never run' % (also, nm), c)
    run.floor(n, floor, r, 'isinstance tests on concrete state kinds')


def copy_hook_gaps(prog, ci):
    """Copy hooks (__deepcopy__, __copy__) defined by class ci: [(method, [fields set by the constructors of the class and its bases that the
    hook never reads])]. A hook that works on self.__dict__ / vars(self) / copy.copy(self) as a whole transfers everything."""
    fields = set()
    for k in prog.mro(ci):
        init = k.methods.get('__init__')
        if init is None:
            continue
        me = q.param_names(init.node)[0]
        for n in q.walk(init.node, False):
            tg = []
            if isinstance(n, ast.Assign):
                tg = n.targets
            elif isinstance(n, (ast.AnnAssign, ast.AugAssign)):
                tg = [n.target]
            for t in tg:
                if isinstance(t, ast.Attribute) and isinstance(t.value, ast.Name) and t.value.id == me:
                    fields.add(t.attr)
    out = []
    for hook in ('__deepcopy__', '__copy__'):
        m = ci.methods.get(hook)
        if m is None:
            continue
        me = q.param_names(m.node)[0]
        txt = q.unparse(m.node)
        if me + '.__dict__' in txt or 'vars(%s)' % me in txt or 'copy.copy(%s)' % me in txt or 'super().' + hook in txt or '__reduce_ex__' in txt:
            out.append((m, []))
            continue
        read = {n.attr for n in q.walk(m.node) if isinstance(n, ast.Attribute) and isinstance(n.value, ast.Name) and n.value.id == me}
        out.append((m, sorted(f for f in fields if f not in read and f.lstrip('_') not in read)))
    return out


# ---------------------------------------------------------------------------------------------------------------------------------------
# How deep must a copy of a field go, and how deep does a hand-written copy hook go?  (C18.5 / C17.7 / C13.4)
INF = 99
_IMMUTABLE = {'str', 'int', 'float', 'bool', 'bytes', 'None', 'NoneType', 'CodeType', 'complex', 'Any?'}


def _type_depth(t):
    """Levels of mutable containers in a type written as in a `# type:` comment: str -> 0, List[str] -> 1, Dict[str, List[str]] -> 2; anything that
    may be an object with fields of its own (a class of the package, Any, Callable, ..) -> INF (only deepcopy will do)."""
    t = t.strip()
    try:
        e = ast.parse(t, mode='eval').body
    except SyntaxError:
        return INF

    def depth(e):
        if isinstance(e, ast.Constant) and e.value is None:
            return 0
        if isinstance(e, ast.Name):
            return 0 if e.id in _IMMUTABLE else INF
        if isinstance(e, ast.Attribute):
            return 0 if e.attr in _IMMUTABLE else INF
        if isinstance(e, ast.Subscript):
            head = dotted(e.value) or ''
            head = head.split('.')[-1]
            args = e.slice.elts if isinstance(e.slice, ast.Tuple) else [e.slice]
            if head in ('Optional', 'Union'):
                return max(depth(a) for a in args)
            if head in ('List', 'Set', 'Deque', 'list', 'set'):
                return min(INF, 1 + depth(args[0]))
            if head in ('Dict', 'MutableMapping', 'DefaultDict', 'OrderedDict', 'dict'):
                return min(INF, 1 + max(depth(a) for a in args))
            if head in ('Tuple', 'FrozenSet', 'tuple', 'frozenset'):
                return max(depth(a) for a in args if not (isinstance(a, ast.Constant) and a.value is Ellipsis))
            return INF
        return INF
    return depth(e)


def field_depths(prog, ci):
    """{field: needed copy depth} for the fields the constructors of ci (and of its bases) set with a `# type:` comment or from an annotated parameter."""
    out = {}
    for k in prog.mro(ci):
        init = k.methods.get('__init__')
        if init is None:
            continue
        try:
            tree = ast.parse(k.module.src, type_comments=True)
        except (SyntaxError, AttributeError):
            continue
        for cnode in [n for n in ast.walk(tree) if isinstance(n, ast.ClassDef) and n.name == k.name]:
            for fn in [n for n in cnode.body if isinstance(n, ast.FunctionDef) and n.name == '__init__']:
                ann = {a.arg: ast.unparse(a.annotation) for a in fn.args.args + fn.args.kwonlyargs if a.annotation is not None}
                for st in ast.walk(fn):
                    if isinstance(st, ast.Assign) and len(st.targets) == 1 and isinstance(st.targets[0], ast.Attribute) and isinstance(st.targets[0].value, ast.Name) \
                            and st.targets[0].value.id == 'self':
                        f = st.targets[0].attr
                        if st.type_comment and st.type_comment != 'ignore':
                            out[f] = _type_depth(st.type_comment)
                        elif isinstance(st.value, ast.Name) and st.value.id in ann:
                            out[f] = _type_depth(ann[st.value.id])
                        elif isinstance(st.value, ast.Name) and st.value.id in {a.arg for a in fn.args.args + fn.args.kwonlyargs}:
                            out.setdefault(f, INF)      # a parameter of undeclared type: an object of its own
                        elif isinstance(st.value, ast.Constant):
                            out.setdefault(f, 0)
                    elif isinstance(st, ast.AnnAssign) and isinstance(st.target, ast.Attribute) and isinstance(st.target.value, ast.Name) and st.target.value.id == 'self':
                        out[st.target.attr] = _type_depth(ast.unparse(st.annotation))
    return out


def copy_depth(e, me, elem_names=None):
    """-> (field or None, depth) : how many container levels of self.<field> the expression e copies. deepcopy(..) -> INF, self.f -> 0, list(self.f) /
    dict(self.f) / self.f.copy() / self.f[:] / [x for x in self.f] -> 1, {k: list(v) for k, v in self.f.items()} -> 2, a comprehension whose element is
    deepcopy(x, memo) -> INF."""
    e = strip_cast(e)
    elem_names = elem_names or {}

    def field_of(x):
        x = strip_cast(x)
        if isinstance(x, ast.Attribute) and isinstance(x.value, ast.Name) and x.value.id == me:
            return x.attr
        if isinstance(x, ast.Call) and isinstance(x.func, ast.Attribute) and x.func.attr in ('items', 'values', 'keys') and not x.args:
            return field_of(x.func.value)
        return None
    if isinstance(e, ast.Name) and e.id in elem_names:
        return elem_names[e.id], 0
    if isinstance(e, ast.Call) and isinstance(e.func, ast.Attribute) and e.func.attr in ('items', 'values', 'keys') and not e.args and \
            isinstance(e.func.value, ast.Name) and e.func.value.id in elem_names:
        return elem_names[e.func.value.id], 0
    if isinstance(e, ast.Call) and isinstance(e.func, ast.Name) and e.func.id in (elem_names.get('__deep_helpers__') or ()) and len(e.args) == 1:
        f, _ = copy_depth(e.args[0], me, elem_names)
        return f, INF
    f = field_of(e)
    if f is not None:
        return f, 0
    if isinstance(e, ast.Call):
        d = (dotted(e.func) or '').split('.')[-1]
        if d == 'deepcopy' and e.args:
            f, _ = copy_depth(e.args[0], me, elem_names)
            return f, INF
        if d in ('list', 'dict', 'set', 'tuple', 'sorted', 'OrderedDict', 'copy') and len(e.args) == 1:
            f, k = copy_depth(e.args[0], me, elem_names)
            return f, min(INF, k + 1) if f is not None else 0
        if isinstance(e.func, ast.Attribute) and e.func.attr == 'copy' and not e.args:
            f, k = copy_depth(e.func.value, me, elem_names)
            return f, min(INF, k + 1) if f is not None else 0
    if isinstance(e, ast.Subscript) and isinstance(e.slice, ast.Slice) and e.slice.lower is None and e.slice.upper is None:
        f, k = copy_depth(e.value, me, elem_names)
        return f, min(INF, k + 1) if f is not None else 0
    if isinstance(e, (ast.ListComp, ast.SetComp, ast.DictComp, ast.GeneratorExp)) and len(e.generators) == 1:
        g = e.generators[0]
        f, k0 = copy_depth(g.iter, me, elem_names)
        if f is None:
            return None, 0
        names = dict(elem_names)
        for x in ast.walk(g.target):
            if isinstance(x, ast.Name):
                names[x.id] = f
        parts = [e.value] if isinstance(e, ast.DictComp) else [e.elt]
        inner = min(copy_depth(p_, me, names)[1] if copy_depth(p_, me, names)[0] == f else INF for p_ in parts)
        return f, min(INF, 1 + inner)
    return None, 0


def deepcopy_hook_gaps(prog, ci, m):
    """Fields of ci whose copy made by the __deepcopy__ hook m is shallower than their type requires: [(field, needed, made)], or None when the hook
    has a shape this analysis does not follow (the caller falls back to requiring deepcopy of the whole object)."""
    need = field_depths(prog, ci)
    M = m.node
    me = q.param_names(M)[0]
    dup = None
    whole = 0           # depth at which every field is carried over wholesale: dup.__dict__.update(self.__dict__) -> 0 (shared), deepcopy(self.__dict__) -> INF
    made = {}
    wholesale = False
    for st in q.walk(M, False):
        if isinstance(st, ast.Assign) and isinstance(st.targets[0], ast.Name) and isinstance(strip_cast(st.value), ast.Call) and \
                ('__new__' in q.unparse(strip_cast(st.value).func) or q.unparse(strip_cast(st.value).func) in (ci.name, 'type(%s)' % me, '%s.__class__' % me, 'cls')):
            dup = st.targets[0].id
    if dup is None:
        return None
    for st in q.walk(M, False):
        if isinstance(st, ast.Expr) and isinstance(st.value, ast.Call) and q.unparse(st.value.func) == dup + '.__dict__.update' and st.value.args:
            a0 = strip_cast(st.value.args[0])
            if q.unparse(a0) == me + '.__dict__':
                wholesale, whole = True, 0
            elif isinstance(a0, ast.Call) and (dotted(a0.func) or '').split('.')[-1] == 'deepcopy' and a0.args and q.unparse(a0.args[0]) == me + '.__dict__':
                wholesale, whole = True, INF
        if isinstance(st, ast.Assign) and isinstance(st.targets[0], ast.Attribute) and isinstance(st.targets[0].value, ast.Name) and st.targets[0].value.id == dup:
            f, k = copy_depth(st.value, me)
            tgt = st.targets[0].attr
            if f is None and not isinstance(strip_cast(st.value), (ast.Constant, ast.Dict, ast.List)):
                return None
            made[tgt] = k if f == tgt or f is None else 0
            if f is None:
                made[tgt] = INF      # a fresh constant / empty container
    # for name, value in self.__dict__.items(): <value re-bound per case of name>; setattr(dup, name, value)
    helpers = tuple(d.name for d in M.body if isinstance(d, ast.FunctionDef) and len(d.args.args) == 1 and any(
        isinstance(x, ast.Return) and isinstance(strip_cast(x.value), ast.Call) and (dotted(strip_cast(x.value).func) or '').split('.')[-1] == 'deepcopy'
        and strip_cast(x.value).args and q.unparse(strip_cast(x.value).args[0]) == d.args.args[0].arg for x in ast.walk(d)))
    for lp in q.walk(M, False):
        if not (isinstance(lp, ast.For) and isinstance(lp.target, ast.Tuple) and len(lp.target.elts) == 2 and all(isinstance(t, ast.Name) for t in lp.target.elts)
                and q.unparse(lp.iter) in (me + '.__dict__.items()', 'vars(%s).items()' % me)):
            continue
        N, V = lp.target.elts[0].id, lp.target.elts[1].id
        sets = [c for c in q.calls(lp) if isinstance(c.func, ast.Name) and c.func.id == 'setattr' and len(c.args) == 3 and q.unparse(c.args[0]) == dup and q.unparse(c.args[1]) == N]
        if len(sets) != 1 or guards(sets[0], stop=lp):
            continue
        for f in need:
            alts = []
            for val, at in ([(sets[0].args[2], [])] if not isinstance(strip_cast(sets[0].args[2]), ast.Name) else
                            [(v_, guard_atoms(st_, stop=lp)) for st_, v_ in q.assigned_value(M, strip_cast(sets[0].args[2]).id) if q.in_node(st_, lp)] or [(sets[0].args[2], [])]):
                holds = True
                for op, l, r_ in at:
                    if l != N and r_ == N and op in ('==', '!='):
                        l, r_ = r_, l
                    if l != N:
                        holds = None
                        break
                    try:
                        cst = ast.literal_eval(r_)
                    except Exception:
                        holds = None
                        break
                    res = {'==': lambda: f == cst, '!=': lambda: f != cst, 'in': lambda: f in cst, 'not in': lambda: f not in cst}.get(op)
                    if res is None:
                        holds = None
                        break
                    if not res():
                        holds = False
                        break
                if holds is None:
                    return None
                if holds:
                    alts.append(val)
            if not alts:
                # no re-binding applies: the value itself is stored
                made[f] = 0
                continue
            ds = []
            for val in alts:
                f2, k = copy_depth(val, me, {V: f, '__deep_helpers__': helpers})
                ds.append(k if f2 == f else (INF if f2 is None and isinstance(strip_cast(val), (ast.Constant, ast.Dict, ast.List)) else 0))
            made[f] = min(ds)
        wholesale, whole = True, 0
    out = []
    for f, n_ in sorted(need.items()):
        if f in made:
            k = made[f]
        elif wholesale:
            k = whole
        else:
            return None      # the field is transferred in a way not followed here (constructor call, setattr loop)
        if k < n_:
            out.append((f, n_, k))
    return out


def optional_none_fields(prog, ci):
    """Fields of class ci that are None unless the caller of the constructor asks for something else: a class-level `f = None` whose only instance
    assignments are `self.f = <param>` in __init__ under `<param> is not None`, or `self.f = <param>` with the parameter defaulting to None - and never
    written elsewhere. An atom `self.f is None` holds for every object built the documented way."""
    out = set()
    init = ci.methods.get('__init__')
    if init is None:
        return out
    dflt = q.param_defaults(init.node)
    cand = {}
    for st in ci.node.body:
        if isinstance(st, ast.Assign) and len(st.targets) == 1 and isinstance(st.targets[0], ast.Name) and isinstance(st.value, ast.Constant) and st.value.value is None:
            cand[st.targets[0].id] = 'class'
    for m in ci.methods.values():
        for c, f, k, n in prog.direct_writes(m):
            if c != ci.name:
                continue
            if m is init and k == 'assign' and isinstance(n, ast.Assign) and isinstance(n.value, ast.Name) and dflt.get(n.value.id, 0) is None and n.value.id in dflt:
                cand.setdefault(f, 'param')
                continue
            cand[f] = 'no'
    return {f for f, v in cand.items() if v != 'no'}


def optional_feature_on(atoms_, fnode):
    """The path condition `atoms_` requires an optional keyword-only parameter of fnode (default None / False) to have been given: code that runs only when the
    caller opts in to a new feature. The properties are stated for the documented calls, which do not."""
    a = fnode.args
    opt = {p_.arg for p_, d_ in zip(a.kwonlyargs, a.kw_defaults) if isinstance(d_, ast.Constant) and (d_.value is None or d_.value is False)}
    return any((op == 'is not' and l in opt and r_ == 'None') or (op == 'truthy' and l in opt) for op, l, r_ in atoms_)
