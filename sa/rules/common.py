"""Extraction of the labelled actions of Interpreter._apply_step / execute_once, shared by C02, C03, C06, C08, C10, C13, C15."""
import ast

from .. import q
from ..prog import strip_cast, dotted
from ..loader import AnalysisError


class Site:
    def __init__(self, label, node, extra=None):
        self.label = label
        self.node = node
        self.extra = extra or {}

    def __repr__(self):
        return '<%s @%s>' % (self.label, getattr(self.node, 'lineno', '?'))


def labelled_sites(run, fi, F=None):
    """All labelled action sites inside function fi, in source order."""
    F = F or fi.node
    prog = run.prog
    out = []
    for c in q.calls(F):
        shorts, ext = q.callee_shorts(run, c)
        names = {s.split('.')[-1] for s in shorts}
        if 'execute_on_exit' in names:
            out.append(Site('exit_code', c, {'obj': q.arg(c, 0, 'state')}))
        if 'execute_on_entry' in names:
            out.append(Site('entry_code', c, {'obj': q.arg(c, 0, 'state')}))
        if 'execute_action' in names:
            out.append(Site('action', c, {'obj': q.arg(c, 0, 'transition'), 'event': q.arg(c, 1, 'event')}))
        if 'Interpreter._evaluate_contract_conditions' in shorts:
            kind = q.arg(c, 1, 'cond_type')
            out.append(Site('contract:%s' % (q.const_str(kind) if kind is not None else '?'), c,
                            {'obj': q.arg(c, 0, 'obj'), 'step': q.arg(c, 2, 'step')}))
        if 'Interpreter._raise_event' in shorts and c.args:
            a = strip_cast(c.args[0])
            if isinstance(a, ast.Call) and isinstance(a.func, ast.Name) and a.func.id == 'MetaEvent' and a.args:
                out.append(Site('emit:%s' % (q.const_str(a.args[0]) or '?' + q.unparse(a.args[0])[:60]), c, {'kwargs': q.kwargs_of(a)}))
            else:
                out.append(Site('raise_event', c, {'arg': a}))
        if 'Interpreter._apply_step' in shorts:
            out.append(Site('apply_step', c, {'arg': q.arg(c, 0, 'step')}))
        if 'Interpreter._stabilize' in shorts:
            out.append(Site('stabilize', c))
        if 'Interpreter._compute_steps' in shorts:
            out.append(Site('compute_steps', c))
        if 'Interpreter._select_event' in shorts:
            out.append(Site('select_event', c))
        if 'Interpreter._create_stabilization_step' in shorts:
            out.append(Site('create_stab', c))
    for cls, fld, kind, node in prog.direct_writes(fi):
        if cls != 'Interpreter' and not (cls.startswith('?') and False):
            continue
        if not q.in_node(node, F):
            continue
        if fld == '_configuration':
            if kind in ('mut:remove', 'mut:discard'):
                out.append(Site('cfg_remove', node, {'obj': node.args[0] if node.args else None}))
            elif kind == 'mut:add':
                out.append(Site('cfg_add', node, {'obj': node.args[0] if node.args else None}))
            else:
                out.append(Site('cfg_other:' + kind, node))
        elif fld == '_memory':
            out.append(Site('mem_save:' + kind, node))
        elif fld == '_entry_time':
            out.append(Site('entry_time:' + kind, node))
        elif fld == '_idle_time':
            out.append(Site('idle_time:' + kind, node))
        elif fld == '_time':
            out.append(Site('time:' + kind, node))
        elif fld == '_sent_events':
            out.append(Site('sent_events:' + kind, node))
        elif fld == '_initialized':
            out.append(Site('initialized:' + kind, node))
    out.sort(key=lambda s: (s.node.lineno, s.node.col_offset))
    return out


class ApplyStep:
    """Regions of _apply_step: exit loop, transition block, entry loop, send loop."""

    def __init__(self, run, rule):
        self.fi = run.fn('Interpreter._apply_step')
        F = self.F = self.fi.node
        ps = q.param_names(F)
        run.anchor(len(ps) >= 2, rule, 'step parameter of _apply_step')
        self.step = ps[1]
        self.sites = labelled_sites(run, self.fi)
        self.exit_loop = self.entry_loop = self.send_loop = self.trans_if = None
        loops = [n for n in q.walk(F, False) if isinstance(n, ast.For)]
        for lp in loops:
            origin = self._origin(lp.iter)
            if origin == self.step + '.exited_states':
                self.exit_loop = lp
                self.exit_direct = self._direct(lp.iter, origin)
            elif origin == self.step + '.entered_states':
                self.entry_loop = lp
                self.entry_direct = self._direct(lp.iter, origin)
        for n in q.walk(F, False):
            if isinstance(n, ast.If) and q.enclosing(n, (ast.For, ast.While)) is None:
                c = q.canon_atom(n.test)
                if c and c[1] == self.step + '.transition' and ((c[0] == 'truthy' and c[3]) or (c[0] == 'is' and c[2] == 'None' and not c[3])):
                    has_action = any(s_.label == 'action' and q.in_block(s_.node, n.body) for s_ in self.sites)
                    if self.trans_if is None or has_action:
                        self.trans_if = n
        for lp in loops:
            if lp in (self.exit_loop, self.entry_loop):
                continue
            if isinstance(lp.target, ast.Name) and any(
                    s.label == 'raise_event' and q.in_node(s.node, lp) and isinstance(s.extra['arg'], ast.Name)
                    and s.extra['arg'].id == lp.target.id for s in self.sites):
                if q.enclosing(lp, (ast.For, ast.While)) is None:
                    self.send_loop = lp
        run.anchor(self.exit_loop, rule, 'loop over step.exited_states in _apply_step')
        run.anchor(self.entry_loop, rule, 'loop over step.entered_states in _apply_step')
        run.anchor(self.trans_if, rule, '`if step.transition:` block in _apply_step')
        run.anchor(self.send_loop, rule, 'loop raising the collected events in _apply_step')

    def _origin(self, it):
        """Which step list an iterable derives from (through list(map(state_for, ..)) and plain locals)."""
        it = strip_cast(it)
        seen = 0
        while seen < 6:
            seen += 1
            if isinstance(it, ast.Name):
                vals = q.assigned_value(self.F, it.id)
                if len(vals) != 1:
                    return None
                it = strip_cast(vals[0][1])
                continue
            if isinstance(it, ast.Call) and isinstance(it.func, ast.Name) and it.func.id in ('list', 'tuple', 'reversed', 'sorted', 'set') and it.args:
                it = strip_cast(it.args[0])
                continue
            if isinstance(it, ast.Call) and isinstance(it.func, ast.Name) and it.func.id == 'map' and len(it.args) == 2:
                it = strip_cast(it.args[1])
                continue
            if isinstance(it, (ast.ListComp, ast.GeneratorExp)) and len(it.generators) == 1 and not it.generators[0].ifs:
                it = strip_cast(it.generators[0].iter)
                continue
            break
        return dotted(it)

    def _direct(self, it, origin):
        """The iteration preserves the order of the step list: no sorted/reversed/set on the way."""
        bad = []
        it = strip_cast(it)
        exprs = [it]
        if isinstance(it, ast.Name):
            exprs += [v for st, v in q.assigned_value(self.F, it.id)]
        for e in exprs:
            for n in ast.walk(e):
                if isinstance(n, ast.Call) and isinstance(n.func, ast.Name) and n.func.id in ('sorted', 'reversed', 'set', 'frozenset'):
                    bad.append(n.func.id)
                if isinstance(n, ast.Subscript) and isinstance(n.slice, ast.Slice):
                    bad.append('slice')
                if isinstance(n, (ast.ListComp, ast.GeneratorExp)) and any(g.ifs for g in n.generators):
                    bad.append('filter')
        if isinstance(it, ast.Name):
            for c in q.calls(self.F):
                if isinstance(c.func, ast.Attribute) and isinstance(c.func.value, ast.Name) and c.func.value.id == it.id \
                        and c.func.attr in ('sort', 'reverse', 'pop', 'remove', 'insert'):
                    bad.append(c.func.attr)
        return bad

    def region(self, site):
        n = site.node if isinstance(site, Site) else site
        for name, reg in (('exit', self.exit_loop), ('transition', self.trans_if), ('entry', self.entry_loop), ('send', self.send_loop)):
            if q.in_node(n, reg):
                if name == 'transition' and not q.in_block(n, self.trans_if.body):
                    continue
                return name
        return None

    def in_region(self, name, prefix=None):
        return [s for s in self.sites if self.region(s) == name and (prefix is None or s.label.startswith(prefix))]


def obj_is(expr, name, attr=None):
    """expr is `name` or `name.attr`."""
    expr = strip_cast(expr) if expr is not None else None
    if expr is None:
        return False
    d = dotted(expr)
    return d == (name if attr is None else name + '.' + attr)


def exactly_for_class(run, node, evp, klass, stop=None):
    """True when the statement `node` is executed exactly when `isinstance(<evp>, <klass>)` holds, the conditions on its path being
    read as a propositional formula over the two event-class tests; InternalEvent and MetaEvent are disjoint classes (checked)."""
    from ..cfg import guards

    def classify(op, l, r_, e):
        if op == 'truthy' and l.replace(' ', '') == 'isinstance(%s,InternalEvent)' % evp:
            return 'INT'
        if op == 'truthy' and l.replace(' ', '') == 'isinstance(%s,MetaEvent)' % evp:
            return 'META'
        return None
    prog = run.prog
    disjoint = not prog.is_subclass('InternalEvent', 'MetaEvent') and not prog.is_subclass('MetaEvent', 'InternalEvent')
    ba = q.BoolAbs(classify)
    vs, sat = ba.table([(g[0], g[1], g[2]) for g in guards(node, stop)])
    if not set(vs) <= {'INT', 'META'}:
        return False
    want = 'INT' if klass == 'InternalEvent' else 'META'
    if want not in vs:
        return False
    bad = q.table_equals(vs, sat, lambda v: v.get(want, False))
    if disjoint:
        bad = [b for b in bad if not (b[0].get('INT') and b[0].get('META'))]
    return not bad


def helper_family(module_tree, F, params=()):
    """F and the private module-level functions it calls (transitively): [(function node, {param of F: name under which it arrives there})].
    A parameter is followed only when it is handed on as a plain name (positionally or by keyword)."""
    funcs = {f.name: f for f in module_tree.body if isinstance(f, ast.FunctionDef)}
    out = [(F, {p_: p_ for p_ in params})]
    seen = {id(F)}
    work = list(out)
    while work:
        G, names = work.pop()
        inv = {v: k for k, v in names.items()}
        for c in q.calls(G):
            if isinstance(c.func, ast.Name) and c.func.id.startswith('_') and c.func.id in funcs and id(funcs[c.func.id]) not in seen:
                H = funcs[c.func.id]
                hp = [a.arg for a in H.args.args]
                m = {}
                for i, a in enumerate(c.args):
                    if isinstance(a, ast.Name) and a.id in inv and i < len(hp):
                        m[inv[a.id]] = hp[i]
                for k in c.keywords:
                    if k.arg and isinstance(k.value, ast.Name) and k.value.id in inv:
                        m[inv[k.value.id]] = k.arg
                seen.add(id(H))
                out.append((H, m))
                work.append((H, m))
    return out
