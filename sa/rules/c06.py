"""C06 History states restore exactly what was active."""
import ast

from .. import q
from ..cfg import guards, guard_atoms
from ..prog import strip_cast, dotted
from .common import ApplyStep, obj_is

EXPLANATION = (
    'Static rules over the history bookkeeping: Interpreter._memory is written only in the exit loop of _apply_step and read only by '
    '_create_stabilization_step; deep history records the active descendants and shallow history the active children of the exited '
    'compound parent, both taken from a snapshot of the configuration copied before the exit loop starts; the save depends on nothing '
    'but the kinds of the exited state and of its history child and is a plain overwriting store keyed by the history state; restoration '
    'reads memory.get(history, [default]), enters it sorted by (depth, name) and exits the history state; the isinstance tests that tell deep from shallow history are exact (no concrete state class derives from a tested one). Decides the shape that '
    'save/restore rests on, not equality of restored and saved configurations over histories.')


def check(run):
    run.guard(rules_save, run, 'C06')
    run.guard(rules_restore, run, 'C06')
    # what is saved is cut out with descendants_for / children_for, what is restored is ordered by depth_for: a memoised query that survives an edit
    # restores a child before its parent
    from .c16 import rules_caches
    run.guard(rules_caches, run, 'C06', '.6', ['Interpreter._create_stabilization_step', 'Interpreter._apply_step'])
    from .common import rules_exact_kinds
    run.guard(rules_exact_kinds, run, 'C06.5', ['Interpreter._apply_step', 'Interpreter._create_stabilization_step'], 2)


def rules_save(run, P='C06', ids=('.1', '.2', '.3')):
    prog = run.prog
    r = run.rule(P + ids[0], 'Interpreter._memory is written only in the exit loop of _apply_step (and created in __init__), read only in '
                          '_create_stabilization_step')
    A = ApplyStep(run, r)
    fi, F = A.fi, A.F
    n = 0
    for f in prog.functions():
        if f.outer is not None:
            continue
        for c, fld, kind, node in prog.direct_writes(f):
            if fld == '_memory' and c == 'Interpreter':
                n += 1
                if f.short == 'Interpreter.__init__':
                    run.check(kind == 'assign', r, f.short, 'memory created empty', 'unexpected write', node)
                else:
                    run.check(f.short == 'Interpreter._apply_step' and A.region(node) == 'exit', r, f.short, 'write:Interpreter._memory ' + kind,
                              'history memory written outside the exit loop', node)
        for c, fld, node in prog.direct_reads(f):
            if fld == '_memory' and c == 'Interpreter':
                if isinstance(getattr(node, '_parent', None), ast.Subscript) and isinstance(node._parent.ctx, (ast.Store, ast.Del)):
                    continue
                run.check(f.short in ('Interpreter._create_stabilization_step',), r, f.short, 'read:Interpreter._memory',
                          'history memory read outside _create_stabilization_step', node)
    run.floor(n, 2, r, 'writers of _memory')

    r = run.rule(P + ids[1], 'deep history <-> active descendants of the exited parent, shallow history <-> active children; both intersected with a '
                          'snapshot (copy) of the configuration taken before the exit loop')
    stores = [s for s in A.in_region('exit') if s.label.startswith('mem_save')]
    def scope_variants(node):
        """[(extra atoms, scope call)] for one store: the scope handed to intersection(..) may be chosen per kind through a local
        (`substates = descendants_for(..) if deep else children_for(..)`): each case counts as a save of its own."""
        val = strip_cast(node.value)
        inter = None
        for e in [val] + q.local_origin(F, val):
            e = strip_cast(e)
            if isinstance(e, ast.Call) and isinstance(e.func, ast.Name) and e.func.id in ('list', 'sorted', 'tuple') and e.args:
                for e2 in [strip_cast(e.args[0])] + q.local_origin(F, strip_cast(e.args[0])):
                    e2 = strip_cast(e2)
                    if isinstance(e2, ast.Call) and isinstance(e2.func, ast.Attribute) and e2.func.attr == 'intersection' and e2.args:
                        inter = e2
        if inter is None or not isinstance(strip_cast(inter.args[0]), ast.Name):
            return [([], None)]
        cs = q.cases(F, strip_cast(inter.args[0]))
        return [(at_, strip_cast(v_)) for v_, at_ in cs] if len(cs) > 1 else [([], None)]
    n_saves = sum(len(scope_variants(s.node)) if isinstance(s.node, ast.Assign) else 1 for s in stores)
    run.check(n_saves >= 2, r, fi.short, 'one save per history kind', 'expected a save for deep and one for shallow history, found %d' % n_saves, A.exit_loop)
    sv = A.exit_loop.target.id if isinstance(A.exit_loop.target, ast.Name) else None
    seen = set()
    r3 = run.rule(P + ids[2], 'the save runs for every exited compound state with a history child, depends on nothing else, and overwrites the '
                           'previous memory (plain store keyed by the history state)')
    for s, (v_atoms, v_scope) in [(s_, var_) for s_ in stores for var_ in (scope_variants(s_.node) if isinstance(s_.node, ast.Assign) else [([], None)])]:
        node = s.node
        run.check(s.label == 'mem_save:item-assign' and isinstance(node, ast.Assign), r3, fi.short, 'plain overwriting store',
                  'memory must be overwritten at every exit of the parent (%s is not a plain store)' % s.label, node)
        if not isinstance(node, ast.Assign):
            continue
        tgt = node.targets[0]
        key = q.unparse(tgt.slice) if isinstance(tgt, ast.Subscript) else '?'
        ats = guard_atoms(node, stop=A.exit_loop) + [a_ for a_ in v_atoms if a_ not in guard_atoms(node, stop=A.exit_loop)]
        kinds = [a for a in ats if a[0] == 'truthy' and a[1].startswith('isinstance(')]
        child = None
        hk = None
        parent_ok = False
        extra = []
        neg_kinds = []
        for a in sorted(ats, key=lambda a_: ('Shallow' in a_[1] and 'Deep' in a_[1])):      # (the test on both kinds last: a more specific one wins)
            if a[0] == 'truthy' and hk in ('deep', 'shallow') and 'HistoryState' in a[1] and 'Shallow' in a[1] and 'Deep' in a[1]:
                continue
            txt = a[1].replace(' ', '')
            if a[0] == 'truthy' and txt.startswith('isinstance(%s,' % sv) and 'CompoundState' in txt:
                parent_ok = True
            elif a[0] == 'truthy' and txt.startswith('isinstance(') and ('DeepHistoryState' in txt or 'ShallowHistoryState' in txt):
                child = txt[len('isinstance('):].split(',')[0]
                hk = 'deep' if 'DeepHistoryState' in txt and 'Shallow' not in txt else 'shallow' if 'Shallow' in txt and 'Deep' not in txt else 'both'
            elif a[0] == 'falsy' and txt.startswith('isinstance(') and 'HistoryState' in txt:
                neg_kinds.append('deep' if 'DeepHistoryState' in txt else 'shallow')   # the elif chain / the other case: not that kind
            else:
                extra.append(a)
        if hk == 'both' and len(neg_kinds) == 1:
            hk = 'shallow' if neg_kinds[0] == 'deep' else 'deep'
        run.check(parent_ok and child is not None and not extra, r3, fi.short, 'save of %s history conditional only on state kinds' % hk,
                  'the save depends on %s' % (extra or 'an unrecognised condition'), node)
        run.check(child is not None and key == child + '.name', r3, fi.short, 'memory keyed by the history state', 'key is %s' % key, node)
        # the child is a child of the exited state
        if child:
            lp = q.enclosing(node, ast.For)
            good = lp is not None and lp is not A.exit_loop and 'Statechart.children_for' in [x for c in ast.walk(lp.iter) if isinstance(c, ast.Call)
                                                                                                for x in q.callee_shorts(run, c)[0]] \
                and q.unparse(lp.iter).endswith('(%s.name)' % sv)
            cdefs = q.assigned_value(F, child)
            good = good and len(cdefs) == 1 and 'state_for' in q.unparse(cdefs[0][1]) and isinstance(lp.target, ast.Name) and lp.target.id in q.unparse(cdefs[0][1])
            run.check(good, r3, fi.short, 'every child of the exited state is examined', 'history children must be looked up among the children of the exited state', node)
            if lp is not None:
                early = [x for x in ast.walk(lp) if isinstance(x, (ast.Break, ast.Return))]
                run.check(not early, r3, fi.short, 'the scan of the children never stops early', 'only the first history child of a compound state gets its memory recorded', early[0] if early else lp)
        # value: list(snapshot.intersection(scope(state.name)))
        val = strip_cast(node.value)
        origin = []
        for e in [val] + q.local_origin(F, val):
            e = strip_cast(e)
            if isinstance(e, ast.Call) and isinstance(e.func, ast.Name) and e.func.id in ('list', 'sorted', 'tuple') and e.args:
                origin += [strip_cast(e.args[0])] + q.local_origin(F, strip_cast(e.args[0]))
        # reaching definition of the stored name: the assignment in the same block
        blk = q.block_of(node)
        inter = None
        for st in blk[:blk.index(node)]:
            if isinstance(st, ast.Assign) and any(isinstance(x, ast.Name) and isinstance(t, ast.Name) and x.id == t.id
                                                  for t in st.targets for x in ast.walk(val)):
                inter = strip_cast(st.value)
        if inter is None:
            cands = [e for e in origin if isinstance(e, ast.Call) and isinstance(e.func, ast.Attribute) and e.func.attr == 'intersection']
            inter = cands[0] if cands else None
        good = isinstance(inter, ast.Call) and isinstance(inter.func, ast.Attribute) and inter.func.attr == 'intersection' and inter.args
        scope = None
        snap = None
        if good:
            snap = strip_cast(inter.func.value)
            a0 = v_scope if v_scope is not None else strip_cast(inter.args[0])
            if isinstance(a0, ast.Call):
                sh = q.callee_shorts(run, a0)[0]
                scope = 'descendants' if 'Statechart.descendants_for' in sh else 'children' if 'Statechart.children_for' in sh else None
                good = a0.args and q.unparse(a0.args[0]) == sv + '.name'
        run.check(good and scope is not None, r, fi.short, '%s history records the active %s of the exited state' % (hk, scope),
                  'stored value is not <snapshot> ∩ scope(exited state)', node)
        if hk in ('deep', 'shallow') and scope:
            run.check((hk, scope) in (('deep', 'descendants'), ('shallow', 'children')), r, fi.short, 'kind/scope agreement: %s <-> %s' % (hk, scope),
                      '%s history must record %s' % (hk, 'descendants' if hk == 'deep' else 'children'), node)
            seen.add(hk)
        # snapshot: a local assigned once, before the exit loop, from a copy of self._configuration
        okk = False
        if isinstance(snap, ast.Name):
            defs = q.assigned_value(F, snap.id)
            if len(defs) == 1:
                st, v = defs[0]
                v = strip_cast(v)
                copied = isinstance(v, ast.Call) and (isinstance(v.func, ast.Name) and v.func.id in ('set', 'frozenset', 'list', 'tuple')
                                                      and v.args and dotted(strip_cast(v.args[0])) in ('self._configuration', 'self.configuration')
                                                      or isinstance(v.func, ast.Attribute) and v.func.attr == 'copy' and dotted(v.func.value) == 'self._configuration')
                copied = copied or dotted(v) == 'self.configuration'   # the property returns a fresh sorted list
                okk = copied and q.strictly_before(F, st, A.exit_loop) and not q.in_node(st, A.exit_loop)
        run.check(okk, r, fi.short, 'intersection with a snapshot copied before the exit loop',
                  'memory must be computed from the configuration as it was before any state of this step was exited (children are already '
                  'removed from the live set when their parent is exited)', node)
    run.check(seen == {'deep', 'shallow'}, r, fi.short, 'both history kinds are saved', 'saves found for %s' % sorted(seen), A.exit_loop)



def rules_restore(run, P='C06', rid='.4'):
    r = run.rule(P + rid, 'restoration: memory.get(history, [default memory]) sorted by (depth, name), history state exited in the same step')
    from .c07 import micro_lists
    from ..order import Orders, show
    si = run.fn('Interpreter._create_stabilization_step')
    o = Orders(run)
    hits = 0
    for c, k, t, v in micro_lists(run, o, si):
        pos = ' '.join(a[1] for a in guard_atoms(c) if a[0] == 'truthy')
        if 'HistoryState' not in pos:
            continue
        lp = q.enclosing(c, ast.For)
        lv = lp.target.id if lp is not None and isinstance(lp.target, ast.Name) else '?'
        if k == 'entered_states':
            hits += 1
            run.check(t[0] == 'SORTED' and t[1][:2] == ('depth+', 'name+'), r, si.short, 'restored states entered parents first, ties by name',
                      'restoration order is %s' % show(t), c)
            src = [strip_cast(s) for s in q.local_origin(si.node, v)]
            g2 = any(isinstance(s, ast.Call) and q.unparse(s.func) == 'self._memory.get' and len(s.args) == 2
                     and q.unparse(s.args[0]) == lv + '.name' and q.unparse(s.args[1]) == '[%s.memory]' % lv for s in src)
            run.check(g2, r, si.short, 'memory.get(history, [default memory])', 'restoration must read the recorded memory and fall back to the declared default', c)
            both = ('ShallowHistoryState' in pos and 'DeepHistoryState' in pos) or 'HistoryStateMixin' in pos
            run.check(both, r, si.short, 'both history kinds are restored by this branch', 'branch condition: %s' % pos, c)
        else:
            run.check(q.unparse(v) == '[%s.name]' % lv, r, si.short, 'the history state itself is exited', 'exited list is %s' % q.unparse(v), c)
    run.check(hits == 1, r, si.short, 'single restoration branch', 'found %d' % hits, si.node)


